//! C41: liquidity pools stay solvent and fair.
//!
//! Oracle (exact integer arithmetic over subunits, num-bigint), written from the property text:
//!  * redemption of `u` pool units with unit supply `S` and reserves `R_i` (both read from the
//!    database before the transaction): `paid_i * S <= u * R_i` and `paid_i` is a multiple of
//!    `10^-(divisibility_i)`;
//!  * contribute-then-immediately-redeem (same transaction, or two consecutive transactions)
//!    returns `<=` what was accepted, per resource;
//!  * reserves are never negative;
//!  * contributions: `accepted_i + change_i == offered_i` exactly (pool vault delta + contributor
//!    account delta), and for two-/multi-resource pools with units in circulation the accepted
//!    amounts are in the pool's current ratio up to one rounding unit (downwards).
//! Observations: pre/post vault balances (pool vaults, contributor account vaults), pool unit
//! total supply, and the pool's Contribution/Redemption events.
use num_bigint::BigInt;
use num_traits::{Signed, Zero};
use radix_engine::blueprints::pool::v1::events as pev;
use rv_common::*;
use rv_ledger::actions::{all_allowed_fungible_roles, amount as adv_amount, Actor};
use rv_ledger::decode::{dec_to_big, fungible_total_supply, vault_amount, Db};
use rv_ledger::ledger::describe_manifest;
use rv_ledger::prelude::*;
use rv_ledger::{outcome_class, Exec, Ledger};
use serde_json::{json, Value};
use std::time::Duration;

const DIVS: [u8; 5] = [0, 1, 6, 17, 18];
const PHASE_EPISODE: u64 = 4101;

#[derive(Clone, Copy, Debug, PartialEq, Eq, Hash)]
pub enum Kind {
    One,
    Two,
    Multi,
}
impl Kind {
    fn name(&self) -> &'static str {
        match self {
            Kind::One => "one",
            Kind::Two => "two",
            Kind::Multi => "multi",
        }
    }
}

#[derive(Clone, Copy, Debug)]
pub struct Res {
    pub addr: ResourceAddress,
    pub div: u8,
}

/// Shared starting point of every episode: genesis + accounts + freely mintable resources of all
/// divisibilities + a manager badge. Built without randomness so that an episode is a function of
/// (seed, episode id) only.
pub struct Base {
    snapshot: LedgerSimulatorSnapshot,
    actors: Vec<Actor>,
    resources: Vec<Res>,
    badge: ResourceAddress,
    foreign: ResourceAddress,
}

pub fn build_base() -> Base {
    let mut sim = LedgerSimulatorBuilder::new().build();
    let mut actors = vec![];
    for _ in 0..4 {
        let (pk, _sk, account) = sim.new_allocated_account();
        actors.push(Actor { pk, account });
    }
    let mut resources = vec![];
    for div in DIVS {
        for _ in 0..2 {
            let m = ManifestBuilder::new()
                .lock_fee_from_faucet()
                .create_fungible_resource(OwnerRole::None, true, div, all_allowed_fungible_roles(), metadata!(), None)
                .build();
            let r = sim.execute_manifest(m, vec![]);
            let addr = r.expect_commit_success().new_resource_addresses()[0];
            resources.push(Res { addr, div });
        }
    }
    let badge = sim.create_fungible_resource(dec!(10), 0, actors[0].account);
    let foreign = sim.create_freely_mintable_and_burnable_fungible_resource(OwnerRole::None, None, 18, actors[1].account);
    Base { snapshot: sim.create_snapshot(), actors, resources, badge, foreign }
}

// ------------------------------------------------------------------------------------------
// numbers
// ------------------------------------------------------------------------------------------
fn pow10(n: u32) -> BigInt {
    BigInt::from(10u8).pow(n)
}
fn unit_big(div: u8) -> BigInt {
    pow10(18 - div as u32)
}
fn max_mint() -> BigInt {
    BigInt::from(2u8).pow(152)
}
fn big_to_dec(b: &BigInt) -> Decimal {
    let mut v = b.to_signed_bytes_le();
    assert!(v.len() <= 24, "harness: amount out of Decimal range");
    let fill = if b.is_negative() { 0xFF } else { 0x00 };
    v.resize(24, fill);
    Decimal::try_from(&v[..]).expect("24 bytes")
}
fn floor_to(v: &BigInt, unit: &BigInt) -> BigInt {
    v - (v % unit)
}
fn strs(v: &[BigInt]) -> Vec<String> {
    v.iter().map(|x| x.to_string()).collect()
}

/// Random magnitude, a positive multiple of the resource's smallest unit.
fn rand_mag(rng: &mut Rng, div: u8) -> BigInt {
    let unit = unit_big(div);
    let e = match rng.below(10) {
        0..=5 => rng.below(9) as u32,
        6..=8 => rng.below(20) as u32,
        _ => rng.below(46) as u32,
    };
    let m = match rng.below(3) {
        0 => rng.range(1, 9),
        1 => rng.range(1, 9_999),
        _ => rng.range(1, 999_999_999),
    };
    // e counts decimal places above one atto
    let v = BigInt::from(m) * pow10(e);
    let v = floor_to(&v, &unit);
    let v = if v.is_zero() { unit.clone() * BigInt::from(m) } else { v };
    if v > max_mint() {
        floor_to(&max_mint(), &unit)
    } else {
        v
    }
}

/// Amount distribution: the shared adversarial distribution plus dust, whole balance, near the
/// mint limit and random magnitudes.
fn gen_amount(rng: &mut Rng, div: u8, around: Option<&BigInt>) -> Decimal {
    let unit = unit_big(div);
    let around_dec = around.map(big_to_dec);
    match rng.below(20) {
        0..=4 => adv_amount(rng, div, around_dec),
        5 | 6 => big_to_dec(&unit),
        7 | 8 => match around {
            Some(a) if a.is_positive() => big_to_dec(a),
            _ => big_to_dec(&rand_mag(rng, div)),
        },
        9 => big_to_dec(&(floor_to(&max_mint(), &unit) - &unit * BigInt::from(rng.below(3)))),
        10 => match around {
            Some(a) => big_to_dec(&(a + if rng.bool() { unit.clone() } else { -unit.clone() })),
            None => big_to_dec(&unit),
        },
        _ => big_to_dec(&rand_mag(rng, div)),
    }
}

// ------------------------------------------------------------------------------------------
// pool under observation
// ------------------------------------------------------------------------------------------
pub struct Pool {
    kind: Kind,
    addr: ComponentAddress,
    unit: ResourceAddress,
    res: Vec<Res>,
    vaults: Vec<NodeId>,
    badge_auth: bool,
}

#[derive(Clone, Debug)]
struct Snap {
    s: BigInt,
    r: Vec<BigInt>,
    acct: Vec<BigInt>,
    acct_units: BigInt,
}

#[derive(Debug)]
enum PoolEv {
    Contribution { amounts: Vec<BigInt>, minted: BigInt },
    Redemption { units: BigInt, amounts: Vec<BigInt> },
    Other,
}

fn acct_balance(db: &Db, account: ComponentAddress, resource: ResourceAddress) -> BigInt {
    let reader = SystemDatabaseReader::new(db);
    let vault: Option<Own> = reader
        .read_object_collection_entry::<_, VersionedAccountResourceVault>(
            account.as_node_id(),
            ModuleId::Main,
            ObjectCollectionKey::KeyValue(AccountCollection::ResourceVaultKeyValue.collection_index(), &resource),
        )
        .ok()
        .flatten()
        .map(|v| v.fully_update_and_into_latest_version().0);
    vault.and_then(|v| vault_amount(db, v.as_node_id())).map(dec_to_big).unwrap_or_default()
}

struct Ctx<'a> {
    base: &'a Base,
    ledger: Ledger,
    pool: Pool,
    seed: u64,
    ep: u64,
    op_idx: u64,
    dried: u64,
    had_units: bool,
}

#[derive(Clone, Copy, PartialEq, Eq)]
enum Source {
    Mint,
    Withdraw,
}

impl<'a> Ctx<'a> {
    fn snap(&self, account: ComponentAddress) -> Snap {
        let db = self.ledger.db();
        Snap {
            s: fungible_total_supply(db, self.pool.unit.as_node_id()).map(dec_to_big).expect("pool unit supply readable"),
            r: self.pool.vaults.iter().map(|v| dec_to_big(vault_amount(db, v).expect("pool vault readable"))).collect(),
            acct: self.pool.res.iter().map(|r| acct_balance(db, account, r.addr)).collect(),
            acct_units: acct_balance(db, account, self.pool.unit),
        }
    }

    fn units(&self) -> Vec<BigInt> {
        self.pool.res.iter().map(|r| unit_big(r.div)).collect()
    }

    fn detail(&self, label: &str, tx: &str, extra: Value) -> Value {
        json!({
            "seed": self.seed, "episode": self.ep, "op_index": self.op_idx, "tx_label": label,
            "pool_kind": self.pool.kind.name(),
            "divisibilities": self.pool.res.iter().map(|r| r.div).collect::<Vec<_>>(),
            "numbers_are": "subunits (10^-18)",
            "case": extra,
            "tx": tx,
        })
    }

    fn exec(&mut self, shard: &mut Shard, label: &str, m: TransactionManifestV1, proofs: Vec<NonFungibleGlobalId>) -> (Exec, String) {
        let desc = describe_manifest(&m, &proofs);
        self.op_idx += 1;
        let kind = self.pool.kind.name();
        shard.count(&format!("op:{label}:{kind}"));
        let r = self.ledger.exec(shard, label, m, proofs);
        if let Some(rc) = &r.receipt {
            let cls = outcome_class(rc);
            let short: String = cls.chars().take(110).collect();
            shard.seen("outcome_classes_c41", &format!("{label}: {short}"));
            if rc.is_commit_success() {
                shard.count(&format!("ok:{label}:{kind}"));
                shard.count(&format!("ok:{label}"));
            } else {
                shard.count(&format!("failed:{label}"));
            }
            // reserves are never negative (every committed transaction)
            if matches!(rc.result, TransactionResult::Commit(_)) {
                let db = self.ledger.db();
                for (i, v) in self.pool.vaults.iter().enumerate() {
                    let bal = dec_to_big(vault_amount(db, v).expect("pool vault readable"));
                    shard.count("checked:reserve_non_negative");
                    if bal.is_negative() {
                        let d = self.detail(label, &desc, json!({"resource_index": i, "reserve": bal.to_string()}));
                        shard.violation("reserves:negative", d);
                    }
                }
                let s = fungible_total_supply(db, self.pool.unit.as_node_id()).map(dec_to_big).unwrap_or_default();
                if s.is_zero() && self.had_units {
                    self.had_units = false;
                    self.dried += 1;
                    shard.count("dried_pools");
                    shard.count(&format!("dried_pools:{kind}"));
                } else if s.is_positive() {
                    self.had_units = true;
                }
            }
        }
        (r, desc)
    }

    fn events(&self, commit: &CommitResult) -> Vec<PoolEv> {
        let mut out = vec![];
        let idx = |a: &ResourceAddress| self.pool.res.iter().position(|r| r.addr == *a);
        let map = |m: &IndexMap<ResourceAddress, Decimal>| -> Vec<BigInt> {
            let mut v = vec![BigInt::zero(); self.pool.res.len()];
            for (a, d) in m {
                if let Some(i) = idx(a) {
                    v[i] += dec_to_big(*d);
                }
            }
            v
        };
        for (id, data) in &commit.application_events {
            let Emitter::Method(node, _) = &id.0 else { continue };
            if node != self.pool.addr.as_node_id() {
                continue;
            }
            let ev = match (self.pool.kind, id.1.as_str()) {
                (Kind::One, "ContributionEvent") => scrypto_decode::<pev::one_resource_pool::ContributionEvent>(data)
                    .ok()
                    .map(|e| PoolEv::Contribution { amounts: vec![dec_to_big(e.amount_of_resources_contributed)], minted: dec_to_big(e.pool_units_minted) }),
                (Kind::One, "RedemptionEvent") => scrypto_decode::<pev::one_resource_pool::RedemptionEvent>(data)
                    .ok()
                    .map(|e| PoolEv::Redemption { units: dec_to_big(e.pool_unit_tokens_redeemed), amounts: vec![dec_to_big(e.redeemed_amount)] }),
                (Kind::Two, "ContributionEvent") => scrypto_decode::<pev::two_resource_pool::ContributionEvent>(data)
                    .ok()
                    .map(|e| PoolEv::Contribution { amounts: map(&e.contributed_resources), minted: dec_to_big(e.pool_units_minted) }),
                (Kind::Two, "RedemptionEvent") => scrypto_decode::<pev::two_resource_pool::RedemptionEvent>(data)
                    .ok()
                    .map(|e| PoolEv::Redemption { units: dec_to_big(e.pool_unit_tokens_redeemed), amounts: map(&e.redeemed_resources) }),
                (Kind::Multi, "ContributionEvent") => scrypto_decode::<pev::multi_resource_pool::ContributionEvent>(data)
                    .ok()
                    .map(|e| PoolEv::Contribution { amounts: map(&e.contributed_resources), minted: dec_to_big(e.pool_units_minted) }),
                (Kind::Multi, "RedemptionEvent") => scrypto_decode::<pev::multi_resource_pool::RedemptionEvent>(data)
                    .ok()
                    .map(|e| PoolEv::Redemption { units: dec_to_big(e.pool_unit_tokens_redeemed), amounts: map(&e.redeemed_resources) }),
                _ => Some(PoolEv::Other),
            };
            match ev {
                Some(e) => out.push(e),
                None => out.push(PoolEv::Other),
            }
        }
        out
    }

    // -------------------------------------------------------------------------------------
    // oracles
    // -------------------------------------------------------------------------------------
    /// `paid_i * S <= u * R_i`, `paid_i` a multiple of the resource's unit, `paid_i >= 0`.
    fn check_redemption(&self, shard: &mut Shard, label: &str, tx: &str, source: &str, u: &BigInt, s: &BigInt, r: &[BigInt], paid: &[BigInt]) {
        shard.count("checked:redemptions");
        shard.count(&format!("checked:redemptions:{}", self.pool.kind.name()));
        let units = self.units();
        let mut rounded = false;
        for i in 0..r.len() {
            shard.count("checked:redemption_resource_inequalities");
            let lhs = &paid[i] * s;
            let rhs = u * &r[i];
            let case = || {
                json!({"observed_from": source, "pool_units_redeemed": u.to_string(), "pool_unit_supply_before": s.to_string(),
                       "reserves_before": strs(r), "paid": strs(paid), "resource_index": i})
            };
            if paid[i].is_negative() || lhs > rhs {
                shard.violation(format!("redeem:paid-more-than-pro-rata-share:{}", self.pool.kind.name()), self.detail(label, tx, case()));
            }
            if !(&paid[i] % &units[i]).is_zero() {
                shard.violation(format!("redeem:paid-amount-not-multiple-of-divisibility-unit:{}", self.pool.kind.name()), self.detail(label, tx, case()));
            }
            if lhs < rhs {
                rounded = true;
            }
            if paid[i].is_zero() && r[i].is_positive() {
                shard.count("redemptions_paying_zero_of_a_non_empty_reserve");
            }
        }
        shard.count(if rounded { "redemptions_rounded_down" } else { "redemptions_exact_share" });
        if u == s {
            shard.count("redemptions_of_entire_supply");
        }
        let divs: Vec<u8> = self.pool.res.iter().map(|x| x.div).collect();
        shard.nontrivial(&("redeem", self.pool.kind, divs, source.to_string(), rounded, u == s, paid.iter().map(|p| p.is_zero()).collect::<Vec<_>>(), u.bits(), s.bits()));
    }

    /// accepted + change == offered, 0 <= accepted <= offered; accepted amounts in the current ratio.
    fn check_contribution(&self, shard: &mut Shard, label: &str, tx: &str, source: &str, s: &BigInt, r: &[BigInt], offered: &[BigInt], accepted: &[BigInt], change: &[BigInt]) {
        let kind = self.pool.kind.name();
        shard.count("checked:contributions");
        shard.count(&format!("checked:contributions:{kind}"));
        let units = self.units();
        let case = |i: usize, j: Option<usize>| {
            json!({"observed_from": source, "pool_unit_supply_before": s.to_string(), "reserves_before": strs(r), "offered": strs(offered),
                   "accepted": strs(accepted), "change_returned": strs(change), "resource_index": i, "other_resource_index": j})
        };
        let mut any_change = false;
        for i in 0..r.len() {
            if &accepted[i] + &change[i] != offered[i] {
                shard.violation(format!("contribute:accepted-plus-change-differs-from-offered:{kind}"), self.detail(label, tx, case(i, None)));
            }
            if accepted[i].is_negative() || change[i].is_negative() {
                shard.violation(format!("contribute:negative-accepted-or-change:{kind}"), self.detail(label, tx, case(i, None)));
            }
            if change[i].is_positive() {
                any_change = true;
            }
        }
        if any_change {
            shard.count("checked:contributions_with_change");
            shard.count(&format!("checked:contributions_with_change:{kind}"));
        }
        let zero_pattern: Vec<bool> = r.iter().map(|x| x.is_zero()).collect();
        let mut tight = true;
        if s.is_zero() {
            shard.count("contributions_into_pool_without_units");
            if r.iter().any(|x| x.is_positive()) {
                shard.count("contributions_into_dried_pool_with_dust");
            }
        } else if self.pool.kind != Kind::One {
            // ratio: exists rho with accepted_i <= rho*R_i < accepted_i + unit_i (+ the 36-decimal
            // intermediate precision of the documented algorithm: R_i*10^-36, at least 2 subunits)
            shard.count("checked:ratio_contributions");
            if zero_pattern.iter().any(|z| *z) {
                shard.count("checked:ratio_contributions_one_sided_state");
            }
            for i in 0..r.len() {
                for j in 0..r.len() {
                    if i == j {
                        continue;
                    }
                    shard.count("checked:ratio_pairs");
                    let prec_j = &r[j] / pow10(36) + BigInt::from(2);
                    let lhs = &accepted[i] * &r[j];
                    let rhs = (&accepted[j] + &units[j] + prec_j) * &r[i];
                    if lhs > rhs {
                        shard.violation(format!("contribute:accepted-amounts-not-in-pool-ratio:{kind}"), self.detail(label, tx, case(i, Some(j))));
                    }
                    if lhs > (&accepted[j] + &units[j]) * &r[i] {
                        shard.count("ratio_pairs_within_tolerance_only_thanks_to_the_36_decimal_precision_allowance");
                    }
                    if lhs != &accepted[j] * &r[i] {
                        tight = false;
                    }
                }
            }
            shard.count(if tight { "ratio_contributions_exact" } else { "ratio_contributions_rounded" });
        }
        let divs: Vec<u8> = self.pool.res.iter().map(|x| x.div).collect();
        shard.nontrivial(&("contribute", self.pool.kind, divs, s.is_zero(), zero_pattern, change.iter().map(|c| c.is_positive()).collect::<Vec<_>>(), tight, offered.iter().map(|o| o.bits()).collect::<Vec<_>>()));
    }

    /// Returned <= contributed, per resource. Not demanded when the pool had no units but left-over
    /// reserves before (documented: the first contributor of a dried pool owns the dust).
    fn check_roundtrip(&self, shard: &mut Shard, label: &str, tx: &str, flavour: &str, pre: &Snap, accepted: &[BigInt], returned: &[BigInt]) {
        let kind = self.pool.kind.name();
        if pre.s.is_zero() && pre.r.iter().any(|x| x.is_positive()) {
            shard.count("roundtrips_in_dried_pool_with_dust(not verdict-bearing)");
            if (0..accepted.len()).any(|i| returned[i] > accepted[i]) {
                shard.count("roundtrips_collecting_ownerless_dust");
            }
            return;
        }
        shard.count("checked:roundtrips");
        shard.count(&format!("checked:roundtrips:{flavour}"));
        shard.count(&format!("checked:roundtrips:{kind}"));
        let mut lost = false;
        for i in 0..accepted.len() {
            if returned[i] > accepted[i] {
                let case = json!({"flavour": flavour, "pool_unit_supply_before": pre.s.to_string(), "reserves_before": strs(&pre.r),
                                  "contributed": strs(accepted), "returned_by_redeeming_the_minted_units": strs(returned), "resource_index": i});
                shard.violation(format!("roundtrip:redeem-returned-more-than-contributed:{kind}"), self.detail(label, tx, case));
            }
            if returned[i] < accepted[i] {
                lost = true;
            }
        }
        shard.count(if lost { "roundtrips_returning_less" } else { "roundtrips_returning_exactly" });
        if pre.r.iter().any(|x| x.bits() > 150) {
            shard.count("roundtrips_with_a_reserve_above_2^150_subunits");
        }
        if pre.s.is_positive() && pre.r.iter().any(|x| x.is_positive() && (x.bits() as i64 - pre.s.bits() as i64).abs() > 60) {
            shard.count("roundtrips_with_unit_supply_and_reserve_60_bits_apart");
        }
        if accepted.iter().any(|a| a.is_positive() && a.bits() <= 8) {
            shard.count("roundtrips_with_dust_contribution");
        }
        let divs: Vec<u8> = self.pool.res.iter().map(|x| x.div).collect();
        shard.nontrivial(&("roundtrip", flavour.to_string(), self.pool.kind, divs, lost, pre.s.is_zero(), pre.s.bits(), accepted.iter().map(|a| a.bits()).collect::<Vec<_>>()));
    }

    // -------------------------------------------------------------------------------------
    // operations
    // -------------------------------------------------------------------------------------
    fn manager_prefix(&self, mb: ManifestBuilder, authorised: bool) -> (ManifestBuilder, Vec<NonFungibleGlobalId>) {
        let mgr = &self.base.actors[0];
        if !authorised {
            // someone else's signature only
            return (mb, vec![self.base.actors[1].proof()]);
        }
        if self.pool.badge_auth {
            (mb.create_proof_from_account_of_amount(mgr.account, self.base.badge, dec!(1)), vec![mgr.proof()])
        } else {
            (mb, vec![mgr.proof()])
        }
    }

    fn call_contribute(&self, rng: &mut Rng, mb: ManifestBuilder) -> ManifestBuilder {
        let pool = self.pool.addr;
        match self.pool.kind {
            Kind::One => {
                let r = self.pool.res[0].addr;
                mb.take_all_from_worktop(r, "c0").with_name_lookup(|b, l| {
                    b.call_method(pool, ONE_RESOURCE_POOL_CONTRIBUTE_IDENT, OneResourcePoolContributeManifestInput { bucket: l.bucket("c0") })
                })
            }
            Kind::Two => {
                let (a, b_) = (self.pool.res[0].addr, self.pool.res[1].addr);
                let swap = rng.bool();
                mb.take_all_from_worktop(a, "c0").take_all_from_worktop(b_, "c1").with_name_lookup(|b, l| {
                    let buckets = if swap { (l.bucket("c1"), l.bucket("c0")) } else { (l.bucket("c0"), l.bucket("c1")) };
                    b.call_method(pool, TWO_RESOURCE_POOL_CONTRIBUTE_IDENT, TwoResourcePoolContributeManifestInput { buckets })
                })
            }
            Kind::Multi => mb.call_method(pool, MULTI_RESOURCE_POOL_CONTRIBUTE_IDENT, manifest_args!(ManifestExpression::EntireWorktop)),
        }
    }

    fn call_redeem(&self, mb: ManifestBuilder) -> ManifestBuilder {
        let pool = self.pool.addr;
        let ident = match self.pool.kind {
            Kind::One => ONE_RESOURCE_POOL_REDEEM_IDENT,
            Kind::Two => TWO_RESOURCE_POOL_REDEEM_IDENT,
            Kind::Multi => MULTI_RESOURCE_POOL_REDEEM_IDENT,
        };
        mb.take_all_from_worktop(self.pool.unit, "pu").with_name_lookup(|b, l| b.call_method(pool, ident, manifest_args!(l.bucket("pu"))))
    }

    fn pick_lp(&self, rng: &mut Rng) -> Actor {
        if rng.chance(1, 10) {
            self.base.actors[0].clone()
        } else {
            self.base.actors[1 + rng.usize_below(self.base.actors.len() - 1)].clone()
        }
    }

    /// Offered amounts for a contribution, per pool resource (None = no bucket of that resource).
    fn gen_offer(&self, rng: &mut Rng, pre: &Snap) -> Vec<Option<Decimal>> {
        let mode = rng.below(10);
        let k_num = rng.range(1, 2000);
        let k_den = *rng.pick(&[1u64, 3, 7, 10, 100, 1000, 1_000_000]);
        let n = self.pool.res.len();
        let omit = if self.pool.kind == Kind::Multi && rng.chance(1, 8) { Some(rng.usize_below(n)) } else { None };
        (0..n)
            .map(|i| {
                if omit == Some(i) {
                    return None;
                }
                let div = self.pool.res[i].div;
                let unit = unit_big(div);
                let r = &pre.r[i];
                let cap = max_mint() * BigInt::from(3);
                let v: Decimal = if mode < 4 && r.is_positive() {
                    // proportional to the reserves, with small perturbations
                    let mut v = floor_to(&(r * BigInt::from(k_num) / BigInt::from(k_den)), &unit);
                    match rng.below(5) {
                        0 => v += &unit,
                        1 => {
                            if v >= unit {
                                v -= &unit
                            }
                        }
                        2 => v = floor_to(&(&v * BigInt::from(1000 + rng.below(60)) / BigInt::from(1000)), &unit),
                        _ => {}
                    }
                    if !v.is_positive() {
                        v = unit.clone();
                    }
                    if v > cap {
                        v = floor_to(&cap, &unit);
                    }
                    big_to_dec(&v)
                } else if mode < 7 {
                    big_to_dec(&rand_mag(rng, div))
                } else if mode == 9 && rng.chance(1, 3) {
                    // beyond a single mint
                    big_to_dec(&floor_to(&(max_mint() * BigInt::from(rng.range(1, 3))), &unit))
                } else {
                    gen_amount(rng, div, Some(&pre.acct[i]))
                };
                Some(v)
            })
            .collect()
    }

    /// Puts `amt` of `res` on the worktop (mint, several mints above the mint limit, or withdraw).
    fn add_source(mb: ManifestBuilder, account: ComponentAddress, res: ResourceAddress, amt: Decimal, src: Source) -> ManifestBuilder {
        match src {
            Source::Withdraw => mb.withdraw_from_account(account, res, amt),
            Source::Mint => {
                let limit = big_to_dec(&max_mint());
                let mut rest = amt;
                let mut mb = mb;
                let mut guard = 0;
                while rest > limit && guard < 4 {
                    mb = mb.mint_fungible(res, limit);
                    rest = rest.checked_sub(limit).unwrap();
                    guard += 1;
                }
                mb.mint_fungible(res, rest)
            }
        }
    }

    /// contribute (optionally followed by redeeming the minted units in the same transaction).
    /// Returns (accepted, units received by the contributor) when the plain contribution committed.
    fn op_contribute(&mut self, shard: &mut Shard, rng: &mut Rng, same_tx_roundtrip: bool, actor: Option<Actor>) -> Option<(Snap, Vec<BigInt>, BigInt, Actor)> {
        let actor = actor.unwrap_or_else(|| self.pick_lp(rng));
        let pre = self.snap(actor.account);
        let offer = self.gen_offer(rng, &pre);
        let n = self.pool.res.len();
        // contribute is restricted to the pool manager role: the manager co-signs (or shows the badge)
        let authorised = !rng.chance(1, 25) || (actor.account == self.base.actors[0].account && !self.pool.badge_auth);
        let (mut mb, mut proofs) = self.manager_prefix(ManifestBuilder::new().lock_fee_from_faucet(), authorised);
        proofs.push(actor.proof());
        let mut offered = vec![BigInt::zero(); n];
        let mut withdrawn = vec![BigInt::zero(); n];
        for i in 0..n {
            let Some(amt) = offer[i] else { continue };
            let big = dec_to_big(amt);
            let src = if big.is_positive() && big <= pre.acct[i] && rng.chance(1, 3) { Source::Withdraw } else { Source::Mint };
            mb = Self::add_source(mb, actor.account, self.pool.res[i].addr, amt, src);
            offered[i] = big.clone();
            if src == Source::Withdraw {
                withdrawn[i] = big;
            }
        }
        let foreign = rng.chance(1, 40);
        if foreign {
            mb = mb.mint_fungible(self.base.foreign, dec!(5));
            if self.pool.kind != Kind::Multi {
                // One/Two take named buckets: hand over the foreign resource instead of a pool resource
                mb = mb.take_all_from_worktop(self.pool.res[0].addr, "dropme").take_all_from_worktop(self.base.foreign, "f0");
                let pool = self.pool.addr;
                mb = match self.pool.kind {
                    Kind::One => mb.with_name_lookup(|b, l| b.call_method(pool, ONE_RESOURCE_POOL_CONTRIBUTE_IDENT, manifest_args!(l.bucket("f0")))),
                    _ => {
                        let other = self.pool.res[1].addr;
                        mb.take_all_from_worktop(other, "c1").with_name_lookup(|b, l| b.call_method(pool, TWO_RESOURCE_POOL_CONTRIBUTE_IDENT, manifest_args!((l.bucket("f0"), l.bucket("c1")))))
                    }
                };
                mb = mb.with_name_lookup(|b, l| b.return_to_worktop(l.bucket("dropme")));
            } else {
                mb = self.call_contribute(rng, mb);
            }
        } else {
            mb = self.call_contribute(rng, mb);
        }
        if same_tx_roundtrip {
            mb = self.call_redeem(mb);
        }
        let m = mb.try_deposit_entire_worktop_or_abort(actor.account, None).build();
        let label = if foreign {
            "contribute_foreign_resource"
        } else if same_tx_roundtrip {
            "contribute_then_redeem_same_tx"
        } else {
            "contribute"
        };
        let label = if authorised { label } else { "contribute_unauthorised" };
        let (r, tx) = self.exec(shard, label, m, proofs);
        if !r.is_success() {
            return None;
        }
        if !authorised {
            shard.count("logged:unauthorised_contribution_committed");
        }
        if foreign {
            shard.count("foreign_resource_contribution_committed(logged)");
            return None;
        }
        let post = self.snap(actor.account);
        let commit = r.receipt().expect_commit(true);
        let evs = self.events(commit);
        let ev_contrib = evs.iter().find_map(|e| if let PoolEv::Contribution { amounts, minted } = e { Some((amounts.clone(), minted.clone())) } else { None });
        let ev_redeem = evs.iter().find_map(|e| if let PoolEv::Redemption { units, amounts } = e { Some((units.clone(), amounts.clone())) } else { None });
        if pre.s.is_zero() && self.dried > 0 {
            shard.count("recontributions_into_dried_pool");
        }
        if !same_tx_roundtrip {
            let accepted: Vec<BigInt> = (0..n).map(|i| &post.r[i] - &pre.r[i]).collect();
            let change: Vec<BigInt> = (0..n).map(|i| &post.acct[i] - &pre.acct[i] + &withdrawn[i]).collect();
            self.check_contribution(shard, label, &tx, "vault balances before/after", &pre.s, &pre.r, &offered, &accepted, &change);
            let minted = &post.s - &pre.s;
            let got_units = &post.acct_units - &pre.acct_units;
            if minted != got_units {
                shard.count("logged:minted_units_differ_from_units_received");
            }
            match &ev_contrib {
                Some((amounts, ev_minted)) => {
                    if *amounts != accepted || *ev_minted != minted {
                        shard.count("logged:contribution_event_differs_from_vault_deltas");
                    } else {
                        shard.count("contribution_events_agree_with_vault_deltas");
                    }
                }
                None => shard.count("logged:contribution_event_missing"),
            }
            shard.sample(|| json!({"kind": self.pool.kind.name(), "op": "contribute", "supply_before": pre.s.to_string(), "reserves_before": strs(&pre.r), "offered": strs(&offered), "accepted": strs(&accepted), "change": strs(&change), "units_minted": minted.to_string()}));
            Some((pre, accepted, got_units, actor))
        } else {
            // split the net vault deltas with the events: accepted (ContributionEvent), paid (RedemptionEvent)
            let (Some((acc, minted)), Some((u, paid))) = (ev_contrib, ev_redeem) else {
                shard.count("logged:roundtrip_events_missing");
                return None;
            };
            let consistent = (0..n).all(|i| &post.r[i] - &pre.r[i] == &acc[i] - &paid[i]) && post.s == &pre.s + &minted - &u;
            if !consistent {
                shard.count("logged:roundtrip_events_inconsistent_with_vault_deltas");
            }
            // vault-level: the pool must not have lost reserves, the contributor must not have gained
            let pool_delta: Vec<BigInt> = (0..n).map(|i| &post.r[i] - &pre.r[i]).collect();
            let acct_gain: Vec<BigInt> = (0..n).map(|i| &post.acct[i] - &pre.acct[i] + &withdrawn[i] - &offered[i]).collect();
            let dust_case = pre.s.is_zero() && pre.r.iter().any(|x| x.is_positive());
            if !dust_case && u == minted {
                for i in 0..n {
                    if pool_delta[i].is_negative() || acct_gain[i].is_positive() {
                        let case = json!({"flavour": "same-tx (vault deltas)", "pool_unit_supply_before": pre.s.to_string(), "reserves_before": strs(&pre.r), "offered": strs(&offered),
                                          "pool_vault_delta": strs(&pool_delta), "contributor_net_gain": strs(&acct_gain), "resource_index": i});
                        shard.violation(format!("roundtrip:redeem-returned-more-than-contributed:{}", self.pool.kind.name()), self.detail(label, &tx, case));
                    }
                }
            }
            // event-level: contribution, redemption against the intermediate state, round trip
            let change: Vec<BigInt> = (0..n).map(|i| &offered[i] - &acc[i]).collect();
            self.check_contribution(shard, label, &tx, "ContributionEvent (same-tx round trip)", &pre.s, &pre.r, &offered, &acc, &change);
            let mid_s = &pre.s + &minted;
            let mid_r: Vec<BigInt> = (0..n).map(|i| &pre.r[i] + &acc[i]).collect();
            self.check_redemption(shard, label, &tx, "events, state after the contribution", &u, &mid_s, &mid_r, &paid);
            if u == minted {
                self.check_roundtrip(shard, label, &tx, "same_tx", &pre, &acc, &paid);
            }
            None
        }
    }

    fn op_redeem(&mut self, shard: &mut Shard, rng: &mut Rng, actor: Actor, amount: Option<BigInt>) -> Option<Vec<BigInt>> {
        let pre = self.snap(actor.account);
        let b = pre.acct_units.clone();
        let u: Decimal = match amount {
            Some(a) => big_to_dec(&a),
            None => match rng.below(10) {
                0..=2 => big_to_dec(&b),
                3..=5 => {
                    let v: BigInt = &b * BigInt::from(rng.range(1, 999)) / BigInt::from(1000);
                    big_to_dec(&if v.is_positive() { v } else { BigInt::from(1) })
                }
                6 => Decimal::ONE_ATTO,
                7 => adv_amount(rng, 18, Some(big_to_dec(&b))),
                8 => big_to_dec(&BigInt::from(rng.below(1_000_000) + 1)),
                _ => big_to_dec(&(&b - BigInt::from(1))),
            },
        };
        let mb = ManifestBuilder::new().lock_fee_from_faucet().withdraw_from_account(actor.account, self.pool.unit, u);
        let m = self.call_redeem(mb).try_deposit_entire_worktop_or_abort(actor.account, None).build();
        let (r, tx) = self.exec(shard, "redeem", m, vec![actor.proof()]);
        if !r.is_success() {
            return None;
        }
        let post = self.snap(actor.account);
        let n = self.pool.res.len();
        let gave = &pre.acct_units - &post.acct_units;
        let burned = &pre.s - &post.s;
        if gave != burned || gave != dec_to_big(u) {
            shard.count("logged:units_given_up_differ_from_units_burned");
        }
        let paid: Vec<BigInt> = (0..n).map(|i| &pre.r[i] - &post.r[i]).collect();
        let received: Vec<BigInt> = (0..n).map(|i| &post.acct[i] - &pre.acct[i]).collect();
        if paid != received {
            shard.count("logged:paid_differs_from_received");
        }
        self.check_redemption(shard, "redeem", &tx, "vault balances before/after", &gave, &pre.s, &pre.r, &paid);
        let commit = r.receipt().expect_commit(true);
        match self.events(commit).into_iter().find_map(|e| if let PoolEv::Redemption { units, amounts } = e { Some((units, amounts)) } else { None }) {
            Some((eu, ea)) => {
                if eu != gave || ea != paid {
                    shard.count("logged:redemption_event_differs_from_vault_deltas");
                    self.check_redemption(shard, "redeem", &tx, "RedemptionEvent", &eu, &pre.s, &pre.r, &ea);
                } else {
                    shard.count("redemption_events_agree_with_vault_deltas");
                }
            }
            None => shard.count("logged:redemption_event_missing"),
        }
        shard.sample(|| json!({"kind": self.pool.kind.name(), "op": "redeem", "units": gave.to_string(), "supply_before": pre.s.to_string(), "reserves_before": strs(&pre.r), "paid": strs(&paid)}));
        Some(paid)
    }

    /// contribute, then redeem exactly the received units in the next transaction.
    fn op_roundtrip_two_tx(&mut self, shard: &mut Shard, rng: &mut Rng) {
        let Some((pre, accepted, got_units, actor)) = self.op_contribute(shard, rng, false, None) else { return };
        if !got_units.is_positive() {
            return;
        }
        let Some(paid) = self.op_redeem(shard, rng, actor, Some(got_units)) else {
            shard.count("two_tx_roundtrip_redeem_failed");
            return;
        };
        self.check_roundtrip(shard, "contribute;redeem", "(two consecutive transactions: see the two preceding tx labels of this episode)", "two_tx", &pre, &accepted, &paid);
    }

    fn op_protected_deposit(&mut self, shard: &mut Shard, rng: &mut Rng, dust: bool) {
        let i = rng.usize_below(self.pool.res.len());
        let res = self.pool.res[i];
        let pre = self.snap(self.base.actors[0].account);
        let amt = if dust { big_to_dec(&(unit_big(res.div) * BigInt::from(rng.range(1, 3)))) } else { gen_amount(rng, res.div, Some(&pre.r[i])) };
        let authorised = !rng.chance(1, 12);
        let (mb, proofs) = self.manager_prefix(ManifestBuilder::new().lock_fee_from_faucet(), authorised);
        let pool = self.pool.addr;
        let ident = match self.pool.kind {
            Kind::One => ONE_RESOURCE_POOL_PROTECTED_DEPOSIT_IDENT,
            Kind::Two => TWO_RESOURCE_POOL_PROTECTED_DEPOSIT_IDENT,
            Kind::Multi => MULTI_RESOURCE_POOL_PROTECTED_DEPOSIT_IDENT,
        };
        let m = Self::add_source(mb, self.base.actors[0].account, res.addr, amt, Source::Mint)
            .take_all_from_worktop(res.addr, "d")
            .with_name_lookup(|b, l| b.call_method(pool, ident, manifest_args!(l.bucket("d"))))
            .build();
        let label = if authorised { "protected_deposit" } else { "protected_deposit_unauthorised" };
        let (r, _tx) = self.exec(shard, label, m, proofs);
        if r.is_success() && !authorised {
            shard.count("logged:unauthorised_protected_deposit_committed");
        }
    }

    fn op_protected_withdraw(&mut self, shard: &mut Shard, rng: &mut Rng, drain: bool) {
        let mgr = self.base.actors[0].clone();
        let i = rng.usize_below(self.pool.res.len());
        let res = self.pool.res[i];
        let pre = self.snap(mgr.account);
        let amt = if drain {
            big_to_dec(&pre.r[i])
        } else {
            match rng.below(4) {
                0 => big_to_dec(&(&pre.r[i] * BigInt::from(rng.range(1, 999)) / BigInt::from(1000))),
                _ => gen_amount(rng, res.div, Some(&pre.r[i])),
            }
        };
        let strategy = match rng.below(6) {
            0 | 1 => WithdrawStrategy::Exact,
            2 => WithdrawStrategy::Rounded(RoundingMode::ToZero),
            3 => WithdrawStrategy::Rounded(RoundingMode::ToNegativeInfinity),
            4 => WithdrawStrategy::Rounded(RoundingMode::ToPositiveInfinity),
            _ => WithdrawStrategy::Rounded(RoundingMode::ToNearestMidpointAwayFromZero),
        };
        let authorised = !rng.chance(1, 12);
        let (mb, proofs) = self.manager_prefix(ManifestBuilder::new().lock_fee_from_faucet(), authorised);
        let pool = self.pool.addr;
        let mb = match self.pool.kind {
            Kind::One => mb.call_method(pool, ONE_RESOURCE_POOL_PROTECTED_WITHDRAW_IDENT, OneResourcePoolProtectedWithdrawManifestInput { amount: amt, withdraw_strategy: strategy }),
            Kind::Two => mb.call_method(pool, TWO_RESOURCE_POOL_PROTECTED_WITHDRAW_IDENT, TwoResourcePoolProtectedWithdrawManifestInput { resource_address: res.addr.into(), amount: amt, withdraw_strategy: strategy }),
            Kind::Multi => mb.call_method(pool, MULTI_RESOURCE_POOL_PROTECTED_WITHDRAW_IDENT, MultiResourcePoolProtectedWithdrawManifestInput { resource_address: res.addr.into(), amount: amt, withdraw_strategy: strategy }),
        };
        let m = mb.try_deposit_entire_worktop_or_abort(mgr.account, None).build();
        let label = if authorised { "protected_withdraw" } else { "protected_withdraw_unauthorised" };
        let (r, _tx) = self.exec(shard, label, m, proofs);
        if r.is_success() {
            if !authorised {
                shard.count("logged:unauthorised_protected_withdraw_committed");
            }
            let post = self.snap(mgr.account);
            if post.s.is_positive() && post.r.iter().all(|x| x.is_zero()) {
                shard.count("state:units_in_circulation_but_all_reserves_empty");
            } else if post.s.is_positive() && post.r.iter().any(|x| x.is_zero()) {
                shard.count("state:units_in_circulation_and_some_reserve_empty");
            }
        }
    }

    /// get_redemption_value: a quote, checked against the same pro-rata bound (logged, not a payment).
    fn op_quote(&mut self, shard: &mut Shard, rng: &mut Rng) {
        let actor = self.pick_lp(rng);
        let pre = self.snap(actor.account);
        let u: Decimal = match rng.below(6) {
            0 => big_to_dec(&pre.s),
            1 => big_to_dec(&(&pre.s + BigInt::from(1))),
            2 => adv_amount(rng, 18, Some(big_to_dec(&pre.s))),
            3 => Decimal::ONE_ATTO,
            _ => {
                let v: BigInt = &pre.s * BigInt::from(rng.range(1, 999)) / BigInt::from(1000);
                big_to_dec(&v)
            }
        };
        let pool = self.pool.addr;
        let ident = match self.pool.kind {
            Kind::One => ONE_RESOURCE_POOL_GET_REDEMPTION_VALUE_IDENT,
            Kind::Two => TWO_RESOURCE_POOL_GET_REDEMPTION_VALUE_IDENT,
            Kind::Multi => MULTI_RESOURCE_POOL_GET_REDEMPTION_VALUE_IDENT,
        };
        let m = ManifestBuilder::new().lock_fee_from_faucet().call_method(pool, ident, manifest_args!(u)).build();
        let (r, tx) = self.exec(shard, "get_redemption_value", m, vec![actor.proof()]);
        if !r.is_success() {
            return;
        }
        let commit = r.receipt().expect_commit(true);
        let TransactionOutcome::Success(outs) = &commit.outcome else { return };
        let Some(InstructionOutput::CallReturn(bytes)) = outs.get(1) else { return };
        let n = self.pool.res.len();
        let quote: Option<Vec<BigInt>> = match self.pool.kind {
            Kind::One => scrypto_decode::<Decimal>(bytes).ok().map(|d| vec![dec_to_big(d)]),
            _ => scrypto_decode::<IndexMap<ResourceAddress, Decimal>>(bytes).ok().map(|m| {
                let mut v = vec![BigInt::zero(); n];
                for (a, d) in m {
                    if let Some(i) = self.pool.res.iter().position(|r| r.addr == a) {
                        v[i] = dec_to_big(d);
                    }
                }
                v
            }),
        };
        let Some(quote) = quote else {
            shard.count("logged:quote_not_decodable");
            return;
        };
        shard.count("checked:quotes");
        let ub = dec_to_big(u);
        let units = self.units();
        for i in 0..n {
            if &quote[i] * &pre.s > &ub * &pre.r[i] || !(&quote[i] % &units[i]).is_zero() {
                shard.count("logged:quote_exceeds_pro_rata_share_or_divisibility");
                shard.notes.push(format!("C41 quote above pro-rata share: episode {} op {} u={} S={} R={:?} quote={:?} tx={}", self.ep, self.op_idx, ub, pre.s, strs(&pre.r), strs(&quote), tx.chars().take(300).collect::<String>()));
            }
        }
        shard.nontrivial(&("quote", self.pool.kind, ub.bits(), pre.s.bits(), quote.iter().map(|q| q.is_zero()).collect::<Vec<_>>()));
    }

    /// Everyone redeems everything: the pool dries out.
    fn op_dry(&mut self, shard: &mut Shard, rng: &mut Rng) {
        let actors: Vec<Actor> = self.base.actors.clone();
        for a in actors {
            let bal = acct_balance(self.ledger.db(), a.account, self.pool.unit);
            if bal.is_positive() {
                if self.op_redeem(shard, rng, a, Some(bal)).is_none() {
                    shard.count("dry_out_redeem_failed");
                }
            }
        }
    }

    fn step(&mut self, shard: &mut Shard, rng: &mut Rng) {
        let s = fungible_total_supply(self.ledger.db(), self.pool.unit.as_node_id()).map(dec_to_big).unwrap_or_default();
        if s.is_zero() {
            // empty / dried pool: mostly (re-)contribute, sometimes leave dust first
            match rng.below(10) {
                0 => self.op_protected_deposit(shard, rng, true),
                1 => self.op_quote(shard, rng),
                2 => {
                    self.op_contribute(shard, rng, true, None);
                }
                3 => self.op_roundtrip_two_tx(shard, rng),
                _ => {
                    self.op_contribute(shard, rng, false, None);
                }
            }
            return;
        }
        match rng.below(100) {
            0..=27 => {
                self.op_contribute(shard, rng, false, None);
            }
            28..=49 => {
                // prefer someone who holds units
                let holders: Vec<Actor> = self.base.actors.iter().filter(|a| acct_balance(self.ledger.db(), a.account, self.pool.unit).is_positive()).cloned().collect();
                let actor = if !holders.is_empty() && !rng.chance(1, 10) { rng.pick(&holders).clone() } else { self.pick_lp(rng) };
                self.op_redeem(shard, rng, actor, None);
            }
            50..=61 => {
                self.op_contribute(shard, rng, true, None);
            }
            62..=71 => self.op_roundtrip_two_tx(shard, rng),
            72..=78 => self.op_protected_deposit(shard, rng, false),
            79..=85 => self.op_protected_withdraw(shard, rng, false),
            86 => self.op_protected_withdraw(shard, rng, true),
            87..=95 => self.op_quote(shard, rng),
            _ => self.op_dry(shard, rng),
        }
    }
}

fn create_pool(base: &Base, ledger: &mut Ledger, shard: &mut Shard, rng: &mut Rng) -> Option<Pool> {
    let kind = match rng.below(10) {
        0..=2 => Kind::One,
        3..=5 => Kind::Two,
        _ => Kind::Multi,
    };
    let n = match kind {
        Kind::One => 1,
        Kind::Two => 2,
        Kind::Multi => rng.range(2, 4) as usize,
    };
    let mut all: Vec<Res> = base.resources.clone();
    rng.shuffle(&mut all);
    let res: Vec<Res> = all.into_iter().take(n).collect();
    let badge_auth = rng.bool();
    let rule: AccessRule = if badge_auth { rule!(require(base.badge)) } else { rule!(require(base.actors[0].proof())) };
    let mb = ManifestBuilder::new().lock_fee_from_faucet();
    let mb = match kind {
        Kind::One => mb.call_function(
            POOL_PACKAGE,
            ONE_RESOURCE_POOL_BLUEPRINT,
            ONE_RESOURCE_POOL_INSTANTIATE_IDENT,
            OneResourcePoolInstantiateManifestInput { owner_role: OwnerRole::None.into(), pool_manager_rule: rule.into(), resource_address: res[0].addr.into(), address_reservation: None },
        ),
        Kind::Two => mb.call_function(
            POOL_PACKAGE,
            TWO_RESOURCE_POOL_BLUEPRINT,
            TWO_RESOURCE_POOL_INSTANTIATE_IDENT,
            TwoResourcePoolInstantiateManifestInput { owner_role: OwnerRole::None.into(), pool_manager_rule: rule.into(), resource_addresses: (res[0].addr.into(), res[1].addr.into()), address_reservation: None },
        ),
        Kind::Multi => mb.call_function(
            POOL_PACKAGE,
            MULTI_RESOURCE_POOL_BLUEPRINT,
            MULTI_RESOURCE_POOL_INSTANTIATE_IDENT,
            MultiResourcePoolInstantiateManifestInput { owner_role: OwnerRole::None.into(), pool_manager_rule: rule.into(), resource_addresses: res.iter().map(|r| r.addr.into()).collect(), address_reservation: None },
        ),
    };
    let r = ledger.exec(shard, "instantiate_pool", mb.build(), vec![]);
    if !r.is_success() {
        shard.count("harness:pool_instantiation_failed");
        return None;
    }
    let commit = r.receipt().expect_commit(true);
    let addr = commit.new_component_addresses()[0];
    let unit = commit.new_resource_addresses()[0];
    let mut vaults = vec![];
    for x in &res {
        let v = ledger.sim.get_component_vaults(addr, x.addr);
        vaults.push(*v.first().expect("pool has one vault per resource"));
    }
    shard.count(&format!("pools:{}", kind.name()));
    shard.count(&format!("pools_with_{}_resources", n));
    for x in &res {
        shard.seen("divisibilities_in_pools", &x.div.to_string());
    }
    shard.seen("pool_divisibility_tuples", &format!("{}:{:?}", kind.name(), res.iter().map(|r| r.div).collect::<Vec<_>>()));
    Some(Pool { kind, addr, unit, res, vaults, badge_auth })
}

pub fn episode(base: &Base, seed: u64, ep: u64, shard: &mut Shard, walk: bool) {
    let mut rng = Rng::from_parts(seed, PHASE_EPISODE, ep);
    let rng = &mut rng;
    let sim = LedgerSimulatorBuilder::new().build_from_snapshot(base.snapshot.clone());
    let mut ledger = Ledger::from_sim(sim);
    let Some(pool) = create_pool(base, &mut ledger, shard, rng) else { return };
    let n_ops = match rng.below(10) {
        0..=5 => rng.range(30, 120),
        6..=8 => rng.range(120, 300),
        _ => rng.range(300, 700),
    };
    let mut ctx = Ctx { base, ledger, pool, seed, ep, op_idx: 0, dried: 0, had_units: false };
    let mut n = 0;
    while n < n_ops && !shard.time_up() {
        ctx.step(shard, rng);
        n += 1;
    }
    shard.count("episodes");
    shard.max("transactions_in_one_pool_history", ctx.op_idx);
    if walk {
        rv_ledger::walkers::walk_all(shard, &ctx.ledger, &format!("end of C41 episode {ep}"));
    }
}

pub fn spec() -> Spec {
    Spec::new(
        "C41",
        "exploration",
        "seeded histories (episodes) over one-, two- and multi-resource (2-4) native pools (v1.1 logic, latest protocol) with resource divisibilities from {0,1,6,17,18}: contribute / redeem / contribute+redeem in one transaction / contribute then redeem in the next transaction / protected_deposit / protected_withdraw (all strategies) by the pool manager (signature or badge rule) / get_redemption_value / everybody-redeems (dried pool) and re-contribution; amounts: shared adversarial distribution, dust, whole balance, proportional-to-reserves with +-1 unit, random magnitudes up to and beyond the mint limit 2^152 subunits. A case is one checked redemption / contribution / round trip / quote; distinct = distinct (op, pool kind, divisibility tuple, state class, rounding class, operand bit lengths).",
    )
    .assume("oracle: exact num-bigint arithmetic over subunits on values read from the database (pool vault balances, pool unit total supply, contributor account vaults) immediately before and after each transaction, and on the pool's Contribution/Redemption events (events are used to split same-transaction round trips; disagreement between events and vault deltas is logged, not a verdict)")
    .assume("ratio rule: accepted amounts must admit a common ratio rho with accepted_i <= rho*R_i < accepted_i + one divisibility unit + R_i*10^-36 + 2 subunits (the blueprint's documented 36-decimal intermediate precision); resources with empty reserves must be returned entirely; not demanded while no pool units are in circulation (documented: everything is accepted)")
    .assume("round trips into a pool with zero unit supply but left-over reserves are counted but not verdict-bearing: the first contributor of a dried pool owns the ownerless dust by documented design, nobody's share is reduced")
    .assume("get_redemption_value is a quote, not a payment: deviations are logged in notes only")
    .floor("checked:redemptions", 400)
    .floor("checked:redemptions:one", 50)
    .floor("checked:redemptions:two", 50)
    .floor("checked:redemptions:multi", 50)
    .floor("redemptions_rounded_down", 50)
    .floor("checked:contributions", 400)
    .floor("checked:contributions_with_change:two", 30)
    .floor("checked:contributions_with_change:multi", 30)
    .floor("checked:ratio_pairs", 300)
    .floor("ratio_contributions_rounded", 30)
    .floor("checked:roundtrips:same_tx", 60)
    .floor("checked:roundtrips:two_tx", 60)
    .floor("checked:quotes", 50)
    .floor("dried_pools", 10)
    .floor("recontributions_into_dried_pool", 5)
    .floor("checked:reserve_non_negative", 2000)
    .explain("every transaction also passes through the global ledger monitors (C02-C06, C11, C43, C44, C49, C51); their violations are reported under their own ids")
}

pub fn run(args: &Args) -> i32 {
    let mut report = Report::new(args, spec());
    if let Some(path) = &args.replay {
        return replay(path, report);
    }
    let base = build_base();
    let episodes_per_shard = scaled(args, args.tier.pick(40, 3000));
    let budget = Duration::from_secs(budget_secs(args.tier, 40, 600));
    let seed = args.seed;
    report.run_shards(PHASE_EPISODE, args.threads, budget, |i, _rng, shard| {
        let mut k = 0u64;
        while k < episodes_per_shard && !shard.time_up() {
            let ep = (i as u64) * 1_000_000 + k;
            episode(&base, seed, ep, shard, k % 8 == 7);
            k += 1;
        }
    });
    report.finish()
}

fn replay(path: &std::path::Path, mut report: Report) -> i32 {
    let doc: Value = serde_json::from_str(&std::fs::read_to_string(path).expect("replay file")).expect("json");
    let d = &doc["detail"];
    let (Some(seed), Some(ep)) = (d["seed"].as_u64(), d["episode"].as_u64()) else {
        println!("replay file does not name a C41 episode (seed, episode): {}", d);
        return 2;
    };
    let base = build_base();
    let mut shard = Shard::new(0, "C41", report.args.tier, std::time::Instant::now() + Duration::from_secs(600));
    episode(&base, seed, ep, &mut shard, false);
    println!("replayed C41 episode {ep} of seed {seed}: {} violation(s) recorded", shard.violations.len());
    let want = doc["signature"].as_str().unwrap_or("");
    let mut again = false;
    for v in &shard.violations {
        println!("  {} {} op_index={}", v.prop, v.signature, v.detail["op_index"]);
        if v.signature == want {
            again = true;
        }
    }
    println!("recorded signature {} {}", want, if again { "REPRODUCED" } else { "not reproduced" });
    report.merge(shard);
    report.spec.floors.clear();
    report.finish()
}
