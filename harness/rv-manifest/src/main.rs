//! rv-manifest: runtime monitors for the transaction-manifest text pipeline.
//!   C30  decompile -> compile identity (V1, V2, subintent, system manifests)
//!   C31  manifest compiler + diagnostics rendering never panic, are deterministic
//!   C36  static manifest validation accepts only valid object lifecycles (static half)
mod c30;
mod c31;
mod built;
mod c36;
mod gen;
mod lifecycle;

fn load_replay(path: &std::path::Path) -> serde_json::Value {
    let text = std::fs::read_to_string(path).unwrap_or_else(|e| {
        eprintln!("cannot read replay file {}: {e}", path.display());
        std::process::exit(2)
    });
    serde_json::from_str(&text).unwrap_or_else(|e| {
        eprintln!("cannot parse replay file: {e}");
        std::process::exit(2)
    })
}

fn main() {
    let args = rv_common::parse_args();
    rv_common::install_panic_capture();
    if let Some(path) = &args.replay {
        let doc = load_replay(path);
        let code = match args.prop.as_str() {
            "C30" => c30::replay(&args, &doc),
            "C31" => c31::replay(&args, &doc),
            "C36" => c36::replay(&args, &doc),
            p => {
                eprintln!("no check named {p}");
                2
            }
        };
        std::process::exit(code);
    }
    if args.extra.iter().any(|a| a == "probe") && args.prop == "C30" {
        c30::probe();
        return;
    }
    if args.extra.iter().any(|a| a == "minimize") && args.prop == "C31" {
        // rv-manifest C31 minimize <replay.json>
        let path = args.extra.iter().skip_while(|a| *a != "minimize").nth(1).expect("replay file");
        let doc = load_replay(std::path::Path::new(path));
        let bytes = rv_common::unhex(doc["detail"]["text_hex"].as_str().unwrap_or(""));
        let text = String::from_utf8_lossy(&bytes).into_owned();
        let kind = gen::Kind::from_name(doc["detail"]["kind"].as_str().unwrap_or("V1")).unwrap_or(gen::Kind::V1);
        let mock = doc["detail"]["mock_blobs"].as_bool().unwrap_or(false);
        let sig = doc["signature"].as_str().unwrap_or("");
        let m = c31::minimize(&text, kind, mock, sig);
        println!("minimal text ({} chars) for {sig}: {:?}", m.chars().count(), m);
        return;
    }
    let report = match args.prop.as_str() {
        "C30" => c30::run(&args),
        "C31" => c31::run(&args),
        "C36" => c36::run(&args),
        p => {
            eprintln!("no check named {p}");
            std::process::exit(2);
        }
    };
    std::process::exit(report.finish());
}
