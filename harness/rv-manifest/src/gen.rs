//! W-VALUE / manifest generators shared by C30 (valid lifecycles), C31 (seed texts) and C36
//! (random valid + invalid lifecycles).
//!
//! The generator keeps its own steering state (`Life`) so that it can aim at valid ids most of
//! the time; this state is *not* the C36 oracle (see lifecycle.rs) - it only shapes the workload.
use radix_common::prelude::*;
use radix_engine_interface::prelude::*;
use radix_transactions::manifest::*;
use radix_transactions::prelude::*;
use rv_common::Rng;

pub type MV = ManifestValue;

#[derive(Clone, Copy, Debug, PartialEq, Eq, Hash)]
pub enum Kind {
    V1,
    SystemV1,
    V2,
    SubintentV2,
}
pub const KINDS: [Kind; 4] = [Kind::V1, Kind::SystemV1, Kind::V2, Kind::SubintentV2];
impl Kind {
    pub fn name(&self) -> &'static str {
        match self {
            Kind::V1 => "V1",
            Kind::SystemV1 => "SystemV1",
            Kind::V2 => "V2",
            Kind::SubintentV2 => "SubintentV2",
        }
    }
    pub fn from_name(s: &str) -> Option<Kind> {
        KINDS.iter().copied().find(|k| k.name() == s)
    }
    pub fn is_v2(&self) -> bool {
        matches!(self, Kind::V2 | Kind::SubintentV2)
    }
    pub fn manifest_kind(&self) -> ManifestKind {
        match self {
            Kind::V1 => ManifestKind::V1,
            Kind::SystemV1 => ManifestKind::SystemV1,
            Kind::V2 => ManifestKind::V2,
            Kind::SubintentV2 => ManifestKind::SubintentV2,
        }
    }
    pub fn of(m: &AnyManifest) -> Kind {
        match m {
            AnyManifest::V1(_) => Kind::V1,
            AnyManifest::SystemV1(_) => Kind::SystemV1,
            AnyManifest::V2(_) => Kind::V2,
            AnyManifest::SubintentV2(_) => Kind::SubintentV2,
        }
    }
}

// ---------------------------------------------------------------------------------------------
// Atoms
// ---------------------------------------------------------------------------------------------
const GLOBAL_NON_RESOURCE: [EntityType; 16] = [
    EntityType::GlobalPackage,
    EntityType::GlobalConsensusManager,
    EntityType::GlobalValidator,
    EntityType::GlobalTransactionTracker,
    EntityType::GlobalGenericComponent,
    EntityType::GlobalAccount,
    EntityType::GlobalIdentity,
    EntityType::GlobalAccessController,
    EntityType::GlobalOneResourcePool,
    EntityType::GlobalTwoResourcePool,
    EntityType::GlobalMultiResourcePool,
    EntityType::GlobalAccountLocker,
    EntityType::GlobalPreallocatedSecp256k1Account,
    EntityType::GlobalPreallocatedSecp256k1Identity,
    EntityType::GlobalPreallocatedEd25519Account,
    EntityType::GlobalPreallocatedEd25519Identity,
];
const INTERNAL: [EntityType; 4] = [
    EntityType::InternalFungibleVault,
    EntityType::InternalNonFungibleVault,
    EntityType::InternalGenericComponent,
    EntityType::InternalKeyValueStore,
];

pub fn node_bytes(rng: &mut Rng, et: EntityType) -> [u8; 30] {
    let mut b = [0u8; 30];
    match rng.below(8) {
        0 => {}                                // all zero body
        1 => b.iter_mut().for_each(|x| *x = 0xff), // all ones
        _ => rng.fill(&mut b),
    }
    b[0] = et as u8;
    b
}

pub fn resource_address(rng: &mut Rng) -> ResourceAddress {
    match rng.below(10) {
        0 => XRD,
        1 => SECP256K1_SIGNATURE_RESOURCE,
        2 => PACKAGE_OF_DIRECT_CALLER_RESOURCE,
        3..=6 => ResourceAddress::new_or_panic(node_bytes(rng, EntityType::GlobalFungibleResourceManager)),
        _ => ResourceAddress::new_or_panic(node_bytes(rng, EntityType::GlobalNonFungibleResourceManager)),
    }
}
pub fn package_address(rng: &mut Rng) -> PackageAddress {
    match rng.below(12) {
        0 => PACKAGE_PACKAGE,
        1 => RESOURCE_PACKAGE,
        2 => ACCOUNT_PACKAGE,
        3 => IDENTITY_PACKAGE,
        4 => ACCESS_CONTROLLER_PACKAGE,
        5 => FAUCET_PACKAGE,
        _ => PackageAddress::new_or_panic(node_bytes(rng, EntityType::GlobalPackage)),
    }
}
pub fn global_address(rng: &mut Rng) -> GlobalAddress {
    match rng.below(10) {
        0 => CONSENSUS_MANAGER.into(),
        1 => FAUCET.into(),
        2 | 3 => resource_address(rng).into(),
        4 => package_address(rng).into(),
        _ => {
            let et = *rng.pick(&GLOBAL_NON_RESOURCE);
            GlobalAddress::new_or_panic(node_bytes(rng, et))
        }
    }
}
pub fn internal_address(rng: &mut Rng) -> InternalAddress {
    let et = *rng.pick(&INTERNAL);
    InternalAddress::new_or_panic(node_bytes(rng, et))
}
/// Any static node id with a valid entity type (global or internal).
pub fn static_node(rng: &mut Rng) -> NodeId {
    if rng.chance(1, 6) {
        internal_address(rng).into_node_id()
    } else {
        global_address(rng).into_node_id()
    }
}

pub fn decimal(rng: &mut Rng) -> Decimal {
    match rng.below(14) {
        0 => Decimal::ZERO,
        1 => Decimal::ONE,
        2 => Decimal::MAX,
        3 => Decimal::MIN,
        4 => Decimal::from_attos(I192::ONE),
        5 => Decimal::from_attos(-I192::ONE),
        6 => Decimal::from(rng.u32()),
        7 => -Decimal::from(rng.u32()),
        8 => Decimal::MAX - Decimal::from_attos(I192::ONE),
        9 => Decimal::MIN + Decimal::from_attos(I192::ONE),
        10 => {
            // small number of attos, positive or negative
            let v = I192::from(rng.below(2_000_000_000_000_000_000u64));
            Decimal::from_attos(if rng.bool() { v } else { -v })
        }
        _ => {
            let b = rng.bytes(24);
            Decimal::try_from(b.as_slice()).unwrap()
        }
    }
}
pub fn precise_decimal(rng: &mut Rng) -> PreciseDecimal {
    match rng.below(8) {
        0 => PreciseDecimal::ZERO,
        1 => PreciseDecimal::ONE,
        2 => PreciseDecimal::MAX,
        3 => PreciseDecimal::MIN,
        4 => PreciseDecimal::from_precise_subunits(I256::ONE),
        5 => PreciseDecimal::from_precise_subunits(-I256::ONE),
        _ => {
            let b = rng.bytes(32);
            PreciseDecimal::try_from(b.as_slice()).unwrap()
        }
    }
}

const ID_CHARS: &[u8] = b"abcdefghijklmnopqrstuvwxyzABCDEFGHIJKLMNOPQRSTUVWXYZ0123456789_";
pub fn ident(rng: &mut Rng, min: usize, max: usize) -> String {
    let n = rng.range(min as u64, max as u64) as usize;
    (0..n).map(|_| *rng.pick(ID_CHARS) as char).collect()
}

pub fn nf_local_id(rng: &mut Rng) -> NonFungibleLocalId {
    match rng.below(12) {
        0 => NonFungibleLocalId::integer(0),
        1 => NonFungibleLocalId::integer(u64::MAX),
        2 => NonFungibleLocalId::integer(rng.u64()),
        3 => NonFungibleLocalId::string(ident(rng, 1, 1)).unwrap(),
        4 => NonFungibleLocalId::string(ident(rng, 64, 64)).unwrap(),
        5 | 6 => NonFungibleLocalId::string(ident(rng, 1, 20)).unwrap(),
        7 => NonFungibleLocalId::bytes(rng.bytes(1)).unwrap(),
        8 => NonFungibleLocalId::bytes(rng.bytes(64)).unwrap(),
        9 => {
            let n = rng.range(1, 64) as usize;
            NonFungibleLocalId::bytes(rng.bytes(n)).unwrap()
        }
        10 => NonFungibleLocalId::ruid([0u8; 32]),
        _ => {
            let mut b = [0u8; 32];
            rng.fill(&mut b);
            NonFungibleLocalId::ruid(b)
        }
    }
}
pub fn nf_local_ids(rng: &mut Rng, max: usize) -> Vec<NonFungibleLocalId> {
    let n = rng.size(max);
    (0..n).map(|_| nf_local_id(rng)).collect()
}
fn manifest_nf_id(id: NonFungibleLocalId) -> ManifestNonFungibleLocalId {
    radix_transactions::data::from_non_fungible_local_id(id)
}

/// Hostile characters for string literals.
const SPECIAL_CHARS: &[char] = &[
    '"', '\\', '/', '\n', '\r', '\t', '\u{8}', '\u{c}', '\0', '\u{1}', '\u{1f}', '\u{7f}', '\u{80}', '\u{85}',
    '\u{9f}', '\u{a0}', '\u{ad}', '\u{301}', '\u{200b}', '\u{200f}', '\u{202e}', '\u{2028}', '\u{2029}',
    '\u{feff}', '\u{fffd}', '\u{ffff}', '\u{d7ff}', '\u{e000}', '\u{10000}', '\u{1f600}', '\u{e0001}',
    '\u{10ffff}', '\u{f0000}', 'é', 'ß', '中', '#', ';', '(', ')', '<', '>', ',', '=', '\'', ' ', 'u', 'n',
];
pub fn hostile_string(rng: &mut Rng) -> String {
    match rng.below(12) {
        0 => String::new(),
        1 | 2 => ident(rng, 1, 12),
        3 => {
            // things that look like escapes / literals
            let parts = ["\\u0041", "\\n", "\\\"", "\\\\", "\"", "\\ud83d\\ude00", "\\u", "1u8", ";", "\r\n", "# c"];
            let n = rng.range(1, 4);
            (0..n).map(|_| *rng.pick(&parts)).collect()
        }
        4 => {
            // any scalar values
            let n = rng.size(24);
            (0..n)
                .map(|_| loop {
                    let c = rng.below(0x110000) as u32;
                    if let Some(c) = char::from_u32(c) {
                        break c;
                    }
                })
                .collect()
        }
        5 => {
            let n = rng.range(100, 600) as usize;
            (0..n).map(|_| if rng.chance(1, 20) { *rng.pick(SPECIAL_CHARS) } else { *rng.pick(ID_CHARS) as char }).collect()
        }
        _ => {
            let n = rng.size(20);
            (0..n).map(|_| if rng.bool() { *rng.pick(SPECIAL_CHARS) } else { *rng.pick(ID_CHARS) as char }).collect()
        }
    }
}

// ---------------------------------------------------------------------------------------------
// Steering state
// ---------------------------------------------------------------------------------------------
#[derive(Clone, Debug, Default)]
pub struct Life {
    /// None = consumed, Some(locks)
    pub buckets: Vec<Option<u32>>,
    /// None = consumed, Some(source bucket)
    pub proofs: Vec<Option<Option<u32>>>,
    /// true = live
    pub reservations: Vec<bool>,
    pub named_addresses: u32,
    pub blobs: Vec<[u8; 32]>,
    pub children: u32,
    /// probability (per mille) that an id choice ignores the state
    pub fault_pm: u64,
    pub faults_injected: u32,
}

impl Life {
    fn fault(&mut self, rng: &mut Rng) -> bool {
        if self.fault_pm > 0 && rng.below(1000) < self.fault_pm {
            self.faults_injected += 1;
            true
        } else {
            false
        }
    }
    fn wild(rng: &mut Rng, len: usize) -> u32 {
        match rng.below(8) {
            0 => u32::MAX,
            1 => len as u32,
            2 => len as u32 + 1 + rng.below(3) as u32,
            _ => rng.below(len as u64 + 1) as u32,
        }
    }
    pub fn live_unlocked_buckets(&self) -> Vec<u32> {
        self.buckets.iter().enumerate().filter(|(_, s)| **s == Some(0)).map(|(i, _)| i as u32).collect()
    }
    pub fn live_buckets(&self) -> Vec<u32> {
        self.buckets.iter().enumerate().filter(|(_, s)| s.is_some()).map(|(i, _)| i as u32).collect()
    }
    pub fn live_proofs(&self) -> Vec<u32> {
        self.proofs.iter().enumerate().filter(|(_, s)| s.is_some()).map(|(i, _)| i as u32).collect()
    }
    pub fn live_reservations(&self) -> Vec<u32> {
        self.reservations.iter().enumerate().filter(|(_, s)| **s).map(|(i, _)| i as u32).collect()
    }
    /// A bucket to consume. Updates the steering state as if the consumption succeeded.
    pub fn take_bucket(&mut self, rng: &mut Rng) -> Option<u32> {
        if self.fault(rng) {
            let id = Self::wild(rng, self.buckets.len());
            if let Some(s) = self.buckets.get_mut(id as usize) {
                if *s == Some(0) {
                    *s = None;
                }
            }
            return Some(id);
        }
        let live = self.live_unlocked_buckets();
        if live.is_empty() {
            return None;
        }
        let id = *rng.pick(&live);
        self.buckets[id as usize] = None;
        Some(id)
    }
    /// A bucket to reference without consuming.
    pub fn ref_bucket(&mut self, rng: &mut Rng) -> Option<u32> {
        if self.fault(rng) {
            return Some(Self::wild(rng, self.buckets.len()));
        }
        let live = self.live_buckets();
        if live.is_empty() {
            None
        } else {
            Some(*rng.pick(&live))
        }
    }
    pub fn new_bucket(&mut self) {
        self.buckets.push(Some(0));
    }
    pub fn new_proof(&mut self, from_bucket: Option<u32>) {
        if let Some(b) = from_bucket {
            if let Some(Some(l)) = self.buckets.get_mut(b as usize) {
                *l += 1;
            }
        }
        self.proofs.push(Some(from_bucket));
    }
    fn release_proof(&mut self, id: u32) {
        if let Some(s) = self.proofs.get_mut(id as usize) {
            if let Some(src) = s.take() {
                if let Some(b) = src {
                    if let Some(Some(l)) = self.buckets.get_mut(b as usize) {
                        *l = l.saturating_sub(1);
                    }
                }
            }
        }
    }
    pub fn take_proof(&mut self, rng: &mut Rng) -> Option<u32> {
        if self.fault(rng) {
            let id = Self::wild(rng, self.proofs.len());
            self.release_proof(id);
            return Some(id);
        }
        let live = self.live_proofs();
        if live.is_empty() {
            return None;
        }
        let id = *rng.pick(&live);
        self.release_proof(id);
        Some(id)
    }
    pub fn ref_proof(&mut self, rng: &mut Rng) -> Option<u32> {
        if self.fault(rng) {
            return Some(Self::wild(rng, self.proofs.len()));
        }
        let live = self.live_proofs();
        if live.is_empty() {
            None
        } else {
            Some(*rng.pick(&live))
        }
    }
    pub fn proof_source(&self, id: u32) -> Option<u32> {
        self.proofs.get(id as usize).copied().flatten().flatten()
    }
    pub fn drop_all_proofs(&mut self) {
        for i in 0..self.proofs.len() {
            self.release_proof(i as u32);
        }
    }
    pub fn take_reservation(&mut self, rng: &mut Rng) -> Option<u32> {
        if self.fault(rng) {
            let id = Self::wild(rng, self.reservations.len());
            if let Some(s) = self.reservations.get_mut(id as usize) {
                *s = false;
            }
            return Some(id);
        }
        let live = self.live_reservations();
        if live.is_empty() {
            return None;
        }
        let id = *rng.pick(&live);
        self.reservations[id as usize] = false;
        Some(id)
    }
    pub fn named_address(&mut self, rng: &mut Rng) -> Option<u32> {
        if self.fault(rng) {
            return Some(Self::wild(rng, self.named_addresses as usize));
        }
        if self.named_addresses == 0 {
            None
        } else {
            Some(rng.below(self.named_addresses as u64) as u32)
        }
    }
    pub fn blob(&mut self, rng: &mut Rng) -> Option<[u8; 32]> {
        if self.fault(rng) {
            let mut b = [0u8; 32];
            rng.fill(&mut b);
            return Some(b);
        }
        if self.blobs.is_empty() {
            None
        } else {
            Some(*rng.pick(&self.blobs))
        }
    }
    pub fn child(&mut self, rng: &mut Rng) -> Option<u32> {
        if self.fault(rng) {
            return Some(Self::wild(rng, self.children as usize));
        }
        if self.children == 0 {
            None
        } else {
            Some(rng.below(self.children as u64) as u32)
        }
    }
}

// ---------------------------------------------------------------------------------------------
// Values
// ---------------------------------------------------------------------------------------------
#[derive(Clone, Copy, Debug)]
pub struct ValueCfg {
    pub max_depth: usize,
    /// proofs may appear (false for yields)
    pub allow_proofs: bool,
    /// buckets / proofs / reservations may appear at all
    pub allow_owned: bool,
    pub max_width: usize,
}

type VK = ManifestValueKind;
const CUSTOM_KINDS: [ManifestCustomValueKind; 9] = [
    ManifestCustomValueKind::Address,
    ManifestCustomValueKind::Bucket,
    ManifestCustomValueKind::Proof,
    ManifestCustomValueKind::Expression,
    ManifestCustomValueKind::Blob,
    ManifestCustomValueKind::Decimal,
    ManifestCustomValueKind::PreciseDecimal,
    ManifestCustomValueKind::NonFungibleLocalId,
    ManifestCustomValueKind::AddressReservation,
];

pub fn random_kind(rng: &mut Rng, depth_left: usize) -> VK {
    let leaf = |rng: &mut Rng| match rng.below(22) {
        0 => VK::Bool,
        1 => VK::I8,
        2 => VK::I16,
        3 => VK::I32,
        4 => VK::I64,
        5 => VK::I128,
        6 => VK::U8,
        7 => VK::U16,
        8 => VK::U32,
        9 => VK::U64,
        10 => VK::U128,
        11 | 12 => VK::String,
        _ => VK::Custom(*rng.pick(&CUSTOM_KINDS)),
    };
    if depth_left <= 1 {
        return leaf(rng);
    }
    match rng.below(10) {
        0 | 1 => VK::Tuple,
        2 | 3 => VK::Enum,
        4 | 5 => VK::Array,
        6 => VK::Map,
        _ => leaf(rng),
    }
}

fn custom(v: ManifestCustomValue) -> MV {
    MV::Custom { value: v }
}

/// Generates a value of the requested kind; `None` if the kind needs an object the lifecycle
/// cannot supply (no live bucket ...). Depth counts SBOR nesting levels still available
/// (>= 1).
pub fn value_of_kind(rng: &mut Rng, kind: VK, depth_left: usize, life: &mut Life, cfg: &ValueCfg) -> Option<MV> {
    Some(match kind {
        VK::Bool => MV::Bool { value: rng.bool() },
        VK::I8 => {
            let r = rng.u8() as i8;
            MV::I8 { value: *rng.pick(&[0, 1, -1, i8::MIN, i8::MAX, r]) }
        }
        VK::I16 => {
            let r = rng.u64() as i16;
            MV::I16 { value: *rng.pick(&[0, -1, i16::MIN, i16::MAX, r]) }
        }
        VK::I32 => {
            let r = rng.u64() as i32;
            MV::I32 { value: *rng.pick(&[0, -1, i32::MIN, i32::MAX, r]) }
        }
        VK::I64 => {
            let r = rng.u64() as i64;
            MV::I64 { value: *rng.pick(&[0, -1, i64::MIN, i64::MAX, r]) }
        }
        VK::I128 => {
            let r = rng.u128() as i128;
            MV::I128 { value: *rng.pick(&[0, -1, i128::MIN, i128::MAX, r]) }
        }
        VK::U8 => {
            let r = rng.u8();
            MV::U8 { value: *rng.pick(&[0, 1, u8::MAX, r]) }
        }
        VK::U16 => {
            let r = rng.u64() as u16;
            MV::U16 { value: *rng.pick(&[0, u16::MAX, r]) }
        }
        VK::U32 => {
            let r = rng.u32();
            MV::U32 { value: *rng.pick(&[0, u32::MAX, r]) }
        }
        VK::U64 => {
            let r = rng.u64();
            MV::U64 { value: *rng.pick(&[0, u64::MAX, r]) }
        }
        VK::U128 => {
            let r = rng.u128();
            MV::U128 { value: *rng.pick(&[0, u128::MAX, r]) }
        }
        VK::String => MV::String { value: hostile_string(rng) },
        VK::Tuple => {
            if depth_left <= 1 {
                return Some(MV::Tuple { fields: vec![] });
            }
            // alias shapes
            match rng.below(10) {
                0 => {
                    // NonFungibleGlobalId shape
                    return Some(MV::Tuple {
                        fields: vec![
                            custom(ManifestCustomValue::Address(ManifestAddress::Static(resource_address(rng).into_node_id()))),
                            custom(ManifestCustomValue::NonFungibleLocalId(manifest_nf_id(nf_local_id(rng)))),
                        ],
                    });
                }
                1 => {
                    // near miss: non-resource static / named address + local id, or 3 fields
                    let first = if rng.bool() {
                        custom(ManifestCustomValue::Address(ManifestAddress::Static(static_node(rng))))
                    } else if let Some(a) = life.named_address(rng) {
                        custom(ManifestCustomValue::Address(ManifestAddress::Named(ManifestNamedAddress(a))))
                    } else {
                        custom(ManifestCustomValue::Address(ManifestAddress::Static(static_node(rng))))
                    };
                    let mut fields = vec![first, custom(ManifestCustomValue::NonFungibleLocalId(manifest_nf_id(nf_local_id(rng))))];
                    if rng.chance(1, 3) {
                        fields.push(custom(ManifestCustomValue::NonFungibleLocalId(manifest_nf_id(nf_local_id(rng)))));
                    }
                    return Some(MV::Tuple { fields });
                }
                _ => {}
            }
            let n = rng.size(cfg.max_width);
            let mut fields = vec![];
            for _ in 0..n {
                let k = random_kind(rng, depth_left - 1);
                if let Some(v) = value_of_kind(rng, k, depth_left - 1, life, cfg) {
                    fields.push(v);
                }
            }
            MV::Tuple { fields }
        }
        VK::Enum => {
            let discriminator = match rng.below(6) {
                0 => 0,
                1 => 1,
                2 => 255,
                3 => 2,
                _ => rng.u8(),
            };
            if depth_left <= 1 {
                return Some(MV::Enum { discriminator, fields: vec![] });
            }
            let n = match rng.below(6) {
                0 => 0,
                1 | 2 | 3 => 1,
                _ => rng.size(cfg.max_width),
            };
            let mut fields = vec![];
            for _ in 0..n {
                let k = random_kind(rng, depth_left - 1);
                if let Some(v) = value_of_kind(rng, k, depth_left - 1, life, cfg) {
                    fields.push(v);
                }
            }
            MV::Enum { discriminator, fields }
        }
        VK::Array => {
            let ek = if depth_left <= 1 { VK::U8 } else if rng.chance(1, 4) { VK::U8 } else { random_kind(rng, depth_left - 1) };
            let n = if ek == VK::U8 { rng.size(40) } else { rng.size(cfg.max_width) };
            let mut elements = vec![];
            if depth_left > 1 {
                for _ in 0..n {
                    match value_of_kind(rng, ek, depth_left - 1, life, cfg) {
                        Some(v) => elements.push(v),
                        None => break,
                    }
                }
            }
            MV::Array { element_value_kind: ek, elements }
        }
        VK::Map => {
            let (kk, vk) = if depth_left <= 1 { (VK::U8, VK::U8) } else { (random_kind(rng, depth_left - 1), random_kind(rng, depth_left - 1)) };
            let n = rng.size(cfg.max_width);
            let mut entries = vec![];
            if depth_left > 1 {
                for _ in 0..n {
                    // an entry is all-or-nothing: undo the steering effects of a key whose value
                    // cannot be produced
                    let snapshot = life.clone();
                    let k = value_of_kind(rng, kk, depth_left - 1, life, cfg);
                    let Some(k) = k else {
                        *life = snapshot;
                        break;
                    };
                    let v = value_of_kind(rng, vk, depth_left - 1, life, cfg);
                    let Some(v) = v else {
                        *life = snapshot;
                        break;
                    };
                    entries.push((k, v));
                }
            }
            MV::Map { key_value_kind: kk, value_value_kind: vk, entries }
        }
        VK::Custom(ck) => match ck {
            ManifestCustomValueKind::Address => {
                if rng.chance(1, 3) {
                    if let Some(a) = life.named_address(rng) {
                        return Some(custom(ManifestCustomValue::Address(ManifestAddress::Named(ManifestNamedAddress(a)))));
                    }
                }
                custom(ManifestCustomValue::Address(ManifestAddress::Static(static_node(rng))))
            }
            ManifestCustomValueKind::Bucket => {
                if !cfg.allow_owned {
                    return None;
                }
                custom(ManifestCustomValue::Bucket(ManifestBucket(life.take_bucket(rng)?)))
            }
            ManifestCustomValueKind::Proof => {
                if !cfg.allow_owned || !cfg.allow_proofs {
                    return None;
                }
                custom(ManifestCustomValue::Proof(ManifestProof(life.take_proof(rng)?)))
            }
            ManifestCustomValueKind::AddressReservation => {
                if !cfg.allow_owned {
                    return None;
                }
                custom(ManifestCustomValue::AddressReservation(ManifestAddressReservation(life.take_reservation(rng)?)))
            }
            ManifestCustomValueKind::Expression => custom(ManifestCustomValue::Expression(if rng.bool() {
                ManifestExpression::EntireWorktop
            } else {
                ManifestExpression::EntireAuthZone
            })),
            ManifestCustomValueKind::Blob => custom(ManifestCustomValue::Blob(ManifestBlobRef(life.blob(rng)?))),
            ManifestCustomValueKind::Decimal => {
                custom(ManifestCustomValue::Decimal(radix_transactions::data::from_decimal(decimal(rng))))
            }
            ManifestCustomValueKind::PreciseDecimal => custom(ManifestCustomValue::PreciseDecimal(
                radix_transactions::data::from_precise_decimal(precise_decimal(rng)),
            )),
            ManifestCustomValueKind::NonFungibleLocalId => {
                custom(ManifestCustomValue::NonFungibleLocalId(manifest_nf_id(nf_local_id(rng))))
            }
        },
    })
}

#[allow(dead_code)]
fn is_owned_kind(k: VK) -> bool {
    matches!(
        k,
        VK::Custom(ManifestCustomValueKind::Bucket)
            | VK::Custom(ManifestCustomValueKind::Proof)
            | VK::Custom(ManifestCustomValueKind::AddressReservation)
    )
}

/// A chain that reaches exactly `depth` SBOR levels below (and including) the returned value.
pub fn deep_chain(rng: &mut Rng, depth: usize, life: &mut Life, cfg: &ValueCfg) -> MV {
    if depth <= 1 {
        let k = random_kind(rng, 1);
        return value_of_kind(rng, k, 1, life, cfg).unwrap_or(MV::U8 { value: 7 });
    }
    let inner = deep_chain(rng, depth - 1, life, cfg);
    match rng.below(5) {
        0 => MV::Tuple { fields: vec![inner] },
        1 => MV::Enum { discriminator: rng.u8(), fields: vec![inner] },
        2 => MV::Array { element_value_kind: kind_of(&inner), elements: vec![inner] },
        3 => MV::Map { key_value_kind: VK::U8, value_value_kind: kind_of(&inner), entries: vec![(MV::U8 { value: 1 }, inner)] },
        _ => MV::Enum { discriminator: 1, fields: vec![inner] },
    }
}

pub fn kind_of(v: &MV) -> VK {
    match v {
        MV::Bool { .. } => VK::Bool,
        MV::I8 { .. } => VK::I8,
        MV::I16 { .. } => VK::I16,
        MV::I32 { .. } => VK::I32,
        MV::I64 { .. } => VK::I64,
        MV::I128 { .. } => VK::I128,
        MV::U8 { .. } => VK::U8,
        MV::U16 { .. } => VK::U16,
        MV::U32 { .. } => VK::U32,
        MV::U64 { .. } => VK::U64,
        MV::U128 { .. } => VK::U128,
        MV::String { .. } => VK::String,
        MV::Enum { .. } => VK::Enum,
        MV::Array { .. } => VK::Array,
        MV::Tuple { .. } => VK::Tuple,
        MV::Map { .. } => VK::Map,
        MV::Custom { value } => VK::Custom(match value {
            ManifestCustomValue::Address(_) => ManifestCustomValueKind::Address,
            ManifestCustomValue::Bucket(_) => ManifestCustomValueKind::Bucket,
            ManifestCustomValue::Proof(_) => ManifestCustomValueKind::Proof,
            ManifestCustomValue::Expression(_) => ManifestCustomValueKind::Expression,
            ManifestCustomValue::Blob(_) => ManifestCustomValueKind::Blob,
            ManifestCustomValue::Decimal(_) => ManifestCustomValueKind::Decimal,
            ManifestCustomValue::PreciseDecimal(_) => ManifestCustomValueKind::PreciseDecimal,
            ManifestCustomValue::NonFungibleLocalId(_) => ManifestCustomValueKind::NonFungibleLocalId,
            ManifestCustomValue::AddressReservation(_) => ManifestCustomValueKind::AddressReservation,
        }),
    }
}

pub fn value_depth(v: &MV) -> usize {
    match v {
        MV::Tuple { fields } | MV::Enum { fields, .. } => 1 + fields.iter().map(value_depth).max().unwrap_or(0),
        MV::Array { elements, .. } => 1 + elements.iter().map(value_depth).max().unwrap_or(0),
        MV::Map { entries, .. } => 1 + entries.iter().map(|(k, v)| value_depth(k).max(value_depth(v))).max().unwrap_or(0),
        _ => 1,
    }
}

/// Shape classes present in a value (for coverage counters).
pub fn value_shapes(v: &MV, out: &mut BTreeSet<&'static str>) {
    match v {
        MV::String { value } => {
            out.insert("string");
            if value.chars().any(|c| c == '"' || c == '\\') {
                out.insert("string:quote-or-backslash");
            }
            if value.chars().any(|c| (c as u32) < 0x20 || c == '\u{7f}') {
                out.insert("string:control");
            }
            if value.chars().any(|c| (c as u32) >= 0x10000) {
                out.insert("string:astral");
            }
            if value.chars().any(|c| (c as u32) >= 0x80 && (c as u32) < 0x10000) {
                out.insert("string:bmp-non-ascii");
            }
        }
        MV::Tuple { fields } => {
            out.insert("tuple");
            if fields.len() == 2 {
                if let (
                    MV::Custom { value: ManifestCustomValue::Address(ManifestAddress::Static(n)) },
                    MV::Custom { value: ManifestCustomValue::NonFungibleLocalId(_) },
                ) = (&fields[0], &fields[1])
                {
                    if n.is_global_resource_manager() {
                        out.insert("alias:NonFungibleGlobalId");
                    } else {
                        out.insert("near-alias:address+localid");
                    }
                }
            }
            fields.iter().for_each(|f| value_shapes(f, out));
        }
        MV::Enum { discriminator, fields } => {
            out.insert("enum");
            match (discriminator, fields.len()) {
                (0, 0) => {
                    out.insert("alias:None");
                }
                (1, 1) => {
                    out.insert("alias:Some/Err");
                }
                (0, 1) => {
                    out.insert("alias:Ok");
                }
                _ => {}
            }
            fields.iter().for_each(|f| value_shapes(f, out));
        }
        MV::Array { element_value_kind, elements } => {
            if *element_value_kind == VK::U8 {
                out.insert("alias:Bytes");
            } else {
                out.insert("array");
            }
            if elements.is_empty() {
                out.insert("array:empty");
            }
            elements.iter().for_each(|f| value_shapes(f, out));
        }
        MV::Map { entries, .. } => {
            out.insert("map");
            if entries.is_empty() {
                out.insert("map:empty");
            }
            entries.iter().for_each(|(k, v)| {
                value_shapes(k, out);
                value_shapes(v, out)
            });
        }
        MV::Custom { value } => {
            out.insert(match value {
                ManifestCustomValue::Address(ManifestAddress::Static(_)) => "custom:Address",
                ManifestCustomValue::Address(ManifestAddress::Named(_)) => "custom:NamedAddress",
                ManifestCustomValue::Bucket(_) => "custom:Bucket",
                ManifestCustomValue::Proof(_) => "custom:Proof",
                ManifestCustomValue::Expression(_) => "custom:Expression",
                ManifestCustomValue::Blob(_) => "custom:Blob",
                ManifestCustomValue::Decimal(_) => "custom:Decimal",
                ManifestCustomValue::PreciseDecimal(_) => "custom:PreciseDecimal",
                ManifestCustomValue::NonFungibleLocalId(_) => "custom:NonFungibleLocalId",
                ManifestCustomValue::AddressReservation(_) => "custom:AddressReservation",
            });
        }
        _ => {
            out.insert("primitive");
        }
    }
}

// ---------------------------------------------------------------------------------------------
// Manifests
// ---------------------------------------------------------------------------------------------
#[derive(Clone, Copy, Debug, PartialEq, Eq)]
pub enum NamePolicy {
    Unknown,
    KnownFull,
    KnownPartial,
    /// one name contains characters that need escaping inside a string literal
    KnownHostile,
    /// a known name equals the default name (`bucket2`) of another, unnamed object
    KnownCollidingWithDefault,
}

#[derive(Clone, Debug)]
pub struct ManifestCfg {
    pub kind: Kind,
    pub max_instructions: usize,
    pub fault_pm: u64,
    /// probability (percent) to run the clean-up epilogue (consume what is left, final yield)
    pub cleanup_pct: u64,
    pub value: ValueCfg,
    /// args of invocations are always tuples (required by the decompiler)
    pub tuple_args_only: bool,
    pub names: NamePolicy,
    /// generate resource assertions whose constraints are invalid (C36 only)
    pub invalid_constraints: bool,
    /// put an unreferenced extra blob / duplicate blob handling
    pub extra_blobs: bool,
    /// allow well-known alias headers (MINT_FUNGIBLE ...)
    pub aliases: bool,
    /// args may exceed what a transaction can hold (deep chains) - caller filters
    pub deep_chain_pct: u64,
    /// percent of argument lists that get a value the manifest SBOR encoder must reject
    /// (element kind mismatch, nesting beyond the SBOR depth limit) - C36 only
    pub ill_formed_pct: u64,
}

pub struct Generated {
    pub manifest: AnyManifest,
    pub life: Life,
    pub ops: Vec<&'static str>,
    #[allow(dead_code)]
    pub cleaned_up: bool,
}

fn gen_args(rng: &mut Rng, life: &mut Life, cfg: &ManifestCfg, allow_proofs: bool) -> MV {
    let mut vcfg = cfg.value;
    vcfg.allow_proofs = allow_proofs;
    if !cfg.tuple_args_only && rng.chance(1, 12) {
        // a bare, non-tuple value
        let k = random_kind(rng, vcfg.max_depth);
        if let Some(v) = value_of_kind(rng, k, vcfg.max_depth, life, &vcfg) {
            return v;
        }
    }
    let mut fields = vec![];
    if cfg.deep_chain_pct > 0 && rng.below(100) < cfg.deep_chain_pct {
        let d = rng.range(1, vcfg.max_depth as u64) as usize;
        fields.push(deep_chain(rng, d, life, &vcfg));
    }
    let n = rng.size(5);
    for _ in 0..n {
        let k = random_kind(rng, vcfg.max_depth);
        if let Some(v) = value_of_kind(rng, k, vcfg.max_depth, life, &vcfg) {
            fields.push(v);
        }
    }
    if cfg.ill_formed_pct > 0 && rng.below(100) < cfg.ill_formed_pct {
        fields.push(match rng.below(4) {
            0 => MV::Array { element_value_kind: VK::U8, elements: vec![MV::Bool { value: true }] },
            1 => MV::Map { key_value_kind: VK::String, value_value_kind: VK::U8, entries: vec![(MV::U8 { value: 1 }, MV::U8 { value: 2 })] },
            2 => {
                let mut v = MV::U8 { value: 0 };
                for _ in 0..26 {
                    v = MV::Tuple { fields: vec![v] };
                }
                v
            }
            _ => MV::Array {
                element_value_kind: VK::Custom(ManifestCustomValueKind::Bucket),
                elements: vec![custom(ManifestCustomValue::Proof(ManifestProof(0)))],
            },
        });
    }
    MV::Tuple { fields }
}

fn dyn_global(rng: &mut Rng, life: &mut Life) -> ManifestGlobalAddress {
    if rng.chance(1, 4) {
        if let Some(a) = life.named_address(rng) {
            return ManifestGlobalAddress::Named(ManifestNamedAddress(a));
        }
    }
    ManifestGlobalAddress::Static(global_address(rng))
}
fn dyn_package(rng: &mut Rng, life: &mut Life) -> ManifestPackageAddress {
    if rng.chance(1, 4) {
        if let Some(a) = life.named_address(rng) {
            return ManifestPackageAddress::Named(ManifestNamedAddress(a));
        }
    }
    ManifestPackageAddress::Static(package_address(rng))
}

fn constraint(rng: &mut Rng, fungible: bool, invalid: bool) -> ManifestResourceConstraint {
    let ids = |rng: &mut Rng| -> IndexSet<NonFungibleLocalId> { nf_local_ids(rng, 4).into_iter().collect() };
    let amount = |rng: &mut Rng| -> Decimal {
        if invalid && rng.chance(1, 2) {
            -Decimal::ONE
        } else {
            let d = decimal(rng);
            if d.is_negative() {
                Decimal::ZERO
            } else {
                d
            }
        }
    };
    let pick_fungible = fungible ^ (invalid && rng.chance(1, 3));
    if pick_fungible {
        match rng.below(4) {
            0 => ManifestResourceConstraint::NonZeroAmount,
            1 => ManifestResourceConstraint::ExactAmount(amount(rng)),
            2 => ManifestResourceConstraint::AtLeastAmount(amount(rng)),
            _ => ManifestResourceConstraint::General(GeneralResourceConstraint {
                required_ids: Default::default(),
                lower_bound: if rng.bool() { LowerBound::NonZero } else { LowerBound::Inclusive(Decimal::ZERO) },
                upper_bound: if rng.bool() { UpperBound::Unbounded } else { UpperBound::Inclusive(Decimal::MAX) },
                allowed_ids: AllowedIds::Any,
            }),
        }
    } else {
        match rng.below(5) {
            0 => ManifestResourceConstraint::NonZeroAmount,
            1 => ManifestResourceConstraint::ExactNonFungibles(ids(rng)),
            2 => ManifestResourceConstraint::AtLeastNonFungibles(ids(rng)),
            3 => ManifestResourceConstraint::AtLeastAmount(Decimal::from(rng.below(5) as u32)),
            _ => {
                let req = ids(rng);
                ManifestResourceConstraint::General(GeneralResourceConstraint {
                    lower_bound: LowerBound::Inclusive(Decimal::from(req.len() as u32)),
                    upper_bound: UpperBound::Unbounded,
                    allowed_ids: if rng.bool() { AllowedIds::Any } else { AllowedIds::Allowlist(req.clone()) },
                    required_ids: req,
                })
            }
        }
    }
}
fn constraints(rng: &mut Rng, invalid: bool, allow_empty: bool) -> ManifestResourceConstraints {
    let mut c = ManifestResourceConstraints::new();
    let n = if allow_empty { rng.size(4) } else { 1 + rng.size(3) };
    let mut seen = BTreeSet::new();
    for _ in 0..n {
        let addr = resource_address(rng);
        if !seen.insert(addr) {
            continue;
        }
        c = c.with_unchecked(addr, constraint(rng, addr.is_fungible(), invalid));
    }
    c
}

fn access_rule(rng: &mut Rng, depth: usize) -> AccessRule {
    fn rnf(rng: &mut Rng) -> ResourceOrNonFungible {
        if rng.bool() {
            ResourceOrNonFungible::Resource(resource_address(rng))
        } else {
            ResourceOrNonFungible::NonFungible(NonFungibleGlobalId::new(resource_address(rng), nf_local_id(rng)))
        }
    }
    fn basic(rng: &mut Rng) -> BasicRequirement {
        match rng.below(5) {
            0 => BasicRequirement::Require(rnf(rng)),
            1 => BasicRequirement::AmountOf(decimal(rng), resource_address(rng)),
            2 => BasicRequirement::CountOf(rng.u8(), (0..rng.size(3)).map(|_| rnf(rng)).collect()),
            3 => BasicRequirement::AllOf((0..rng.size(3)).map(|_| rnf(rng)).collect()),
            _ => BasicRequirement::AnyOf((0..rng.size(3)).map(|_| rnf(rng)).collect()),
        }
    }
    fn comp(rng: &mut Rng, depth: usize) -> CompositeRequirement {
        if depth == 0 || rng.chance(1, 2) {
            CompositeRequirement::BasicRequirement(basic(rng))
        } else if rng.bool() {
            CompositeRequirement::AnyOf((0..rng.size(3)).map(|_| comp(rng, depth - 1)).collect())
        } else {
            CompositeRequirement::AllOf((0..rng.size(3)).map(|_| comp(rng, depth - 1)).collect())
        }
    }
    match rng.below(4) {
        0 => AccessRule::AllowAll,
        1 => AccessRule::DenyAll,
        _ => AccessRule::Protected(comp(rng, depth)),
    }
}

const METHOD_NAMES: &[&str] = &[
    "mint", "mint_ruid", "claim_royalties", "create_validator", "set", "remove", "lock", "set_royalty", "lock_royalty",
    "set_owner_role", "lock_owner_role", "recall", "freeze", "unfreeze", "recall_non_fungibles", "deposit_batch",
    "withdraw", "lock_fee", "free", "get", "create", "create_advanced", "publish_wasm", "publish_wasm_advanced",
    "create_with_initial_supply", "try_deposit_or_abort",
];
fn method_name(rng: &mut Rng, aliases: bool) -> String {
    if aliases && rng.chance(2, 3) {
        (*rng.pick(METHOD_NAMES)).to_string()
    } else if rng.chance(1, 4) {
        hostile_string(rng)
    } else {
        ident(rng, 1, 16)
    }
}
const BLUEPRINTS: &[&str] = &[
    "Package", "Account", "Identity", "AccessController", "FungibleResourceManager", "NonFungibleResourceManager", "Faucet",
];

fn one_instruction(rng: &mut Rng, life: &mut Life, cfg: &ManifestCfg, ops: &mut Vec<&'static str>) -> Option<InstructionV2> {
    let v2 = cfg.kind.is_v2();
    let sub = cfg.kind == Kind::SubintentV2;
    // under fault injection, V2-only / subintent-only instructions are also tried in the kinds
    // that can express them (V1 kinds cannot hold them at all).
    let roll = rng.below(100);
    let ins: InstructionV2 = match roll {
        0..=9 => {
            ops.push("TakeFromWorktop");
            life.new_bucket();
            TakeFromWorktop { resource_address: resource_address(rng), amount: decimal(rng) }.into()
        }
        10..=13 => {
            ops.push("TakeNonFungiblesFromWorktop");
            life.new_bucket();
            TakeNonFungiblesFromWorktop { resource_address: resource_address(rng), ids: nf_local_ids(rng, 5) }.into()
        }
        14..=19 => {
            ops.push("TakeAllFromWorktop");
            life.new_bucket();
            TakeAllFromWorktop { resource_address: resource_address(rng) }.into()
        }
        20..=23 => {
            ops.push("ReturnToWorktop");
            ReturnToWorktop { bucket_id: ManifestBucket(life.take_bucket(rng)?) }.into()
        }
        24..=26 => {
            ops.push("BurnResource");
            BurnResource { bucket_id: ManifestBucket(life.take_bucket(rng)?) }.into()
        }
        27 => {
            ops.push("AssertWorktopContainsAny");
            AssertWorktopContainsAny { resource_address: resource_address(rng) }.into()
        }
        28 => {
            ops.push("AssertWorktopContains");
            let mut amount = decimal(rng);
            if amount.is_negative() && !cfg.invalid_constraints {
                amount = Decimal::ZERO;
            }
            AssertWorktopContains { resource_address: resource_address(rng), amount }.into()
        }
        29 => {
            ops.push("AssertWorktopContainsNonFungibles");
            let mut ra = resource_address(rng);
            if ra.is_fungible() && !cfg.invalid_constraints {
                ra = ResourceAddress::new_or_panic(node_bytes(rng, EntityType::GlobalNonFungibleResourceManager));
            }
            AssertWorktopContainsNonFungibles { resource_address: ra, ids: nf_local_ids(rng, 5) }.into()
        }
        30 | 31 if v2 => {
            ops.push("AssertWorktopResourcesOnly");
            AssertWorktopResourcesOnly { constraints: { let inv = cfg.invalid_constraints && rng.chance(1, 4); constraints(rng, inv, true) } }.into()
        }
        32 if v2 => {
            ops.push("AssertWorktopResourcesInclude");
            AssertWorktopResourcesInclude { constraints: { let inv = cfg.invalid_constraints && rng.chance(1, 4); constraints(rng, inv, true) } }.into()
        }
        33 | 34 if v2 => {
            // must be followed by an invocation: handled by the caller through `ops`
            if rng.bool() {
                ops.push("AssertNextCallReturnsOnly");
                AssertNextCallReturnsOnly { constraints: { let inv = cfg.invalid_constraints && rng.chance(1, 4); constraints(rng, inv, true) } }.into()
            } else {
                ops.push("AssertNextCallReturnsInclude");
                AssertNextCallReturnsInclude { constraints: { let inv = cfg.invalid_constraints && rng.chance(1, 4); constraints(rng, inv, true) } }.into()
            }
        }
        35 | 36 if v2 => {
            ops.push("AssertBucketContents");
            let b = life.ref_bucket(rng)?;
            let fungible = rng.bool();
            AssertBucketContents { bucket_id: ManifestBucket(b), constraint: { let inv = cfg.invalid_constraints && rng.chance(1, 4); constraint(rng, fungible, inv) } }.into()
        }
        30..=36 => return None,
        37..=40 => {
            let b = life.ref_bucket(rng)?;
            life.new_proof(Some(b));
            match rng.below(3) {
                0 => {
                    ops.push("CreateProofFromBucketOfAmount");
                    CreateProofFromBucketOfAmount { bucket_id: ManifestBucket(b), amount: decimal(rng) }.into()
                }
                1 => {
                    ops.push("CreateProofFromBucketOfNonFungibles");
                    CreateProofFromBucketOfNonFungibles { bucket_id: ManifestBucket(b), ids: nf_local_ids(rng, 4) }.into()
                }
                _ => {
                    ops.push("CreateProofFromBucketOfAll");
                    CreateProofFromBucketOfAll { bucket_id: ManifestBucket(b) }.into()
                }
            }
        }
        41..=44 => {
            life.new_proof(None);
            match rng.below(4) {
                0 => {
                    ops.push("CreateProofFromAuthZoneOfAmount");
                    CreateProofFromAuthZoneOfAmount { resource_address: resource_address(rng), amount: decimal(rng) }.into()
                }
                1 => {
                    ops.push("CreateProofFromAuthZoneOfNonFungibles");
                    CreateProofFromAuthZoneOfNonFungibles { resource_address: resource_address(rng), ids: nf_local_ids(rng, 4) }.into()
                }
                2 => {
                    ops.push("CreateProofFromAuthZoneOfAll");
                    CreateProofFromAuthZoneOfAll { resource_address: resource_address(rng) }.into()
                }
                _ => {
                    ops.push("PopFromAuthZone");
                    PopFromAuthZone.into()
                }
            }
        }
        45 | 46 => {
            ops.push("CloneProof");
            let p = life.ref_proof(rng)?;
            let src = life.proof_source(p);
            life.new_proof(src);
            CloneProof { proof_id: ManifestProof(p) }.into()
        }
        47..=49 => {
            ops.push("DropProof");
            DropProof { proof_id: ManifestProof(life.take_proof(rng)?) }.into()
        }
        50 | 51 => {
            ops.push("PushToAuthZone");
            PushToAuthZone { proof_id: ManifestProof(life.take_proof(rng)?) }.into()
        }
        52 => {
            ops.push("DropAuthZoneProofs");
            DropAuthZoneProofs.into()
        }
        53 => {
            ops.push("DropAuthZoneRegularProofs");
            DropAuthZoneRegularProofs.into()
        }
        54 => {
            ops.push("DropAuthZoneSignatureProofs");
            DropAuthZoneSignatureProofs.into()
        }
        55 => {
            ops.push("DropNamedProofs");
            life.drop_all_proofs();
            DropNamedProofs.into()
        }
        56 => {
            ops.push("DropAllProofs");
            life.drop_all_proofs();
            DropAllProofs.into()
        }
        57..=62 => {
            ops.push("CallFunction");
            let (package_address, blueprint_name, function_name) = if cfg.aliases && rng.chance(1, 3) {
                (
                    dyn_package(rng, life),
                    (*rng.pick(BLUEPRINTS)).to_string(),
                    method_name(rng, true),
                )
            } else {
                (dyn_package(rng, life), if rng.chance(1, 5) { hostile_string(rng) } else { ident(rng, 1, 12) }, method_name(rng, false))
            };
            CallFunction { package_address, blueprint_name, function_name, args: gen_args(rng, life, cfg, true) }.into()
        }
        63..=72 => {
            ops.push("CallMethod");
            CallMethod { address: dyn_global(rng, life), method_name: method_name(rng, cfg.aliases), args: gen_args(rng, life, cfg, true) }.into()
        }
        73 | 74 => {
            ops.push("CallRoyaltyMethod");
            CallRoyaltyMethod { address: dyn_global(rng, life), method_name: method_name(rng, cfg.aliases), args: gen_args(rng, life, cfg, true) }
                .into()
        }
        75 | 76 => {
            ops.push("CallMetadataMethod");
            CallMetadataMethod { address: dyn_global(rng, life), method_name: method_name(rng, cfg.aliases), args: gen_args(rng, life, cfg, true) }
                .into()
        }
        77 | 78 => {
            ops.push("CallRoleAssignmentMethod");
            CallRoleAssignmentMethod {
                address: dyn_global(rng, life),
                method_name: method_name(rng, cfg.aliases),
                args: gen_args(rng, life, cfg, true),
            }
            .into()
        }
        79 | 80 => {
            ops.push("CallDirectVaultMethod");
            CallDirectVaultMethod { address: internal_address(rng), method_name: method_name(rng, cfg.aliases), args: gen_args(rng, life, cfg, true) }
                .into()
        }
        81..=86 => {
            ops.push("AllocateGlobalAddress");
            life.reservations.push(true);
            life.named_addresses += 1;
            AllocateGlobalAddress {
                package_address: package_address(rng),
                blueprint_name: if rng.chance(1, 5) { hostile_string(rng) } else { ident(rng, 1, 12) },
            }
            .into()
        }
        87..=90 if v2 => {
            ops.push("YieldToChild");
            let c = life.child(rng)?;
            let allow_proofs = life.fault_pm > 0 && rng.chance(1, 4);
            YieldToChild { child_index: ManifestNamedIntentIndex(c), args: gen_args(rng, life, cfg, allow_proofs) }.into()
        }
        91..=93 if sub || (v2 && life.fault_pm > 0 && rng.chance(1, 3)) => {
            ops.push("YieldToParent");
            let allow_proofs = life.fault_pm > 0 && rng.chance(1, 4);
            YieldToParent { args: gen_args(rng, life, cfg, allow_proofs) }.into()
        }
        94 | 95 if sub || (v2 && life.fault_pm > 0 && rng.chance(1, 3)) => {
            ops.push("VerifyParent");
            VerifyParent { access_rule: access_rule(rng, 2) }.into()
        }
        _ => return None,
    };
    Some(ins)
}

fn is_invocation(op: &str) -> bool {
    op.starts_with("Call") || op.starts_with("Yield")
}

pub fn default_name(class: &str, id: u32) -> String {
    format!("{class}{}", id + 1)
}

/// Builds the known-names table for the policy. Counts are the number of objects the manifest
/// creates (the generator knows them from its steering state).
fn make_names(rng: &mut Rng, policy: NamePolicy, life: &Life) -> ManifestObjectNames {
    if policy == NamePolicy::Unknown {
        return ManifestObjectNames::Unknown;
    }
    let counts = [
        ("bucket", life.buckets.len()),
        ("proof", life.proofs.len()),
        ("reservation", life.reservations.len()),
        ("address", life.named_addresses as usize),
        ("intent", life.children as usize),
    ];
    let mut tables: Vec<IndexMap<u32, String>> = vec![IndexMap::new(); 5];
    let mut serial = 0u32;
    for (t, (class, n)) in counts.iter().enumerate() {
        for id in 0..*n as u32 {
            let named = match policy {
                NamePolicy::KnownPartial | NamePolicy::KnownCollidingWithDefault => rng.bool(),
                _ => true,
            };
            if named {
                serial += 1;
                // unique, never of the default-name form (class + number)
                let name = match rng.below(4) {
                    0 => format!("{}_{}", ident(rng, 1, 6), serial),
                    1 => format!("my {class} #{serial}"),
                    2 => format!("{class}_{serial}x"),
                    _ => format!("n{serial}é中"),
                };
                tables[t].insert(id, name);
            }
        }
    }
    match policy {
        NamePolicy::KnownHostile => {
            // replace one name by a hostile one (still unique thanks to the serial suffix)
            let candidates: Vec<usize> = (0..5).filter(|t| !tables[*t].is_empty()).collect();
            if !candidates.is_empty() {
                let t = *rng.pick(&candidates);
                let idx = rng.usize_below(tables[t].len());
                let hostile = ["a\"b", "back\\slash", "line\nbreak", "tab\there", "q\"", "\\", "cr\rlf"];
                let v = format!("{}{}", rng.pick(&hostile), serial + 1);
                *tables[t].get_index_mut(idx).unwrap().1 = v;
            }
        }
        NamePolicy::KnownCollidingWithDefault => {
            // name a named object after the default name of an unnamed object of the same class
            for (t, (class, n)) in counts.iter().enumerate() {
                let unnamed: Vec<u32> = (0..*n as u32).filter(|id| !tables[t].contains_key(id)).collect();
                let named: Vec<u32> = tables[t].keys().copied().collect();
                if !unnamed.is_empty() && !named.is_empty() {
                    let victim = *rng.pick(&named);
                    let other = *rng.pick(&unnamed);
                    tables[t].insert(victim, default_name(class, other));
                    break;
                }
            }
        }
        _ => {}
    }
    let mut it = tables.into_iter();
    ManifestObjectNames::Known(KnownManifestObjectNames {
        bucket_names: it.next().unwrap().into_iter().map(|(k, v)| (ManifestBucket(k), v)).collect(),
        proof_names: it.next().unwrap().into_iter().map(|(k, v)| (ManifestProof(k), v)).collect(),
        address_reservation_names: it.next().unwrap().into_iter().map(|(k, v)| (ManifestAddressReservation(k), v)).collect(),
        address_names: it.next().unwrap().into_iter().map(|(k, v)| (ManifestNamedAddress(k), v)).collect(),
        intent_names: it.next().unwrap().into_iter().map(|(k, v)| (ManifestNamedIntent(k), v)).collect(),
    })
}

pub fn gen_manifest(rng: &mut Rng, cfg: &ManifestCfg) -> Generated {
    let mut life = Life { fault_pm: cfg.fault_pm, ..Default::default() };
    let mut ops: Vec<&'static str> = vec![];
    // header: blobs, children, preallocated addresses
    let mut blobs: IndexMap<Hash, Vec<u8>> = IndexMap::new();
    let nblobs = rng.size(3);
    for _ in 0..nblobs {
        let n = rng.size(48);
        let content = rng.bytes(n);
        let h = hash(&content);
        life.blobs.push(h.0);
        blobs.insert(h, content);
    }
    let mut children: IndexSet<ChildSubintentSpecifier> = IndexSet::new();
    if cfg.kind.is_v2() {
        let n = rng.size(3);
        for _ in 0..n {
            let mut b = [0u8; 32];
            rng.fill(&mut b);
            if children.insert(ChildSubintentSpecifier { hash: SubintentHash::from_hash(Hash(b)) }) {
                life.children += 1;
            }
        }
    }
    let mut prealloc: Vec<PreAllocatedAddress> = vec![];
    if cfg.kind == Kind::SystemV1 {
        let n = rng.size(3);
        for _ in 0..n {
            prealloc.push(PreAllocatedAddress {
                blueprint_id: BlueprintId { package_address: package_address(rng), blueprint_name: ident(rng, 1, 12) },
                address: global_address(rng),
            });
            life.reservations.push(true);
        }
    }
    // mostly at least one instruction; the empty manifest is kept as a rare boundary case
    let n_ins = if rng.chance(1, 150) { 0 } else { 1 + rng.size(cfg.max_instructions.saturating_sub(1)) };
    let mut instructions: Vec<InstructionV2> = vec![];
    let mut pending_next_call = false;
    let mut guard = 0;
    while instructions.len() < n_ins && guard < n_ins * 6 + 10 {
        guard += 1;
        let before = ops.len();
        let snapshot = life.clone();
        let Some(ins) = one_instruction(rng, &mut life, cfg, &mut ops) else {
            ops.truncate(before);
            let f = life.faults_injected;
            life = snapshot;
            life.faults_injected = f;
            continue;
        };
        let op = *ops.last().unwrap();
        if pending_next_call && !is_invocation(op) && cfg.fault_pm == 0 {
            // keep valid workloads valid: the instruction after ASSERT_NEXT_CALL_* must be a call
            ops.truncate(before);
            let f = life.faults_injected;
            life = snapshot;
            life.faults_injected = f;
            continue;
        }
        pending_next_call = op.starts_with("AssertNextCall");
        instructions.push(ins);
    }
    if pending_next_call && (cfg.fault_pm == 0 || rng.chance(3, 4)) {
        ops.push("CallMethod");
        instructions.push(CallMethod { address: dyn_global(rng, &mut life), method_name: ident(rng, 1, 8), args: MV::Tuple { fields: vec![] } }.into());
    }
    // epilogue
    let cleaned_up = rng.below(100) < cfg.cleanup_pct;
    if cleaned_up {
        let saved = life.fault_pm;
        life.fault_pm = 0;
        if !life.live_proofs().is_empty() {
            if rng.bool() {
                ops.push("DropAllProofs");
                life.drop_all_proofs();
                instructions.push(DropAllProofs.into());
            } else {
                for p in life.live_proofs() {
                    ops.push("DropProof");
                    life.release_proof(p);
                    instructions.push(DropProof { proof_id: ManifestProof(p) }.into());
                }
            }
        }
        let mut rest: Vec<MV> = vec![];
        for b in life.live_unlocked_buckets() {
            life.buckets[b as usize] = None;
            if rng.chance(1, 3) {
                ops.push("ReturnToWorktop");
                instructions.push(ReturnToWorktop { bucket_id: ManifestBucket(b) }.into());
            } else {
                rest.push(custom(ManifestCustomValue::Bucket(ManifestBucket(b))));
            }
        }
        for r in life.live_reservations() {
            life.reservations[r as usize] = false;
            rest.push(custom(ManifestCustomValue::AddressReservation(ManifestAddressReservation(r))));
        }
        if !rest.is_empty() {
            ops.push("CallMethod");
            instructions.push(
                CallMethod { address: ManifestGlobalAddress::Static(global_address(rng)), method_name: "deposit_batch".into(), args: MV::Tuple { fields: rest } }
                    .into(),
            );
        }
        if cfg.kind == Kind::SubintentV2 {
            ops.push("YieldToParent");
            instructions.push(YieldToParent { args: MV::Tuple { fields: vec![] } }.into());
        }
        life.fault_pm = saved;
    }
    if cfg.extra_blobs && rng.chance(1, 3) {
        let content = rng.bytes(5);
        blobs.insert(hash(&content), content);
    }
    let object_names = make_names(rng, cfg.names, &life);
    let to_v1 = |v: Vec<InstructionV2>| -> Vec<InstructionV1> { v.into_iter().map(|i| InstructionV1::try_from(i).expect("v1-compatible")).collect() };
    let manifest = match cfg.kind {
        Kind::V1 => AnyManifest::V1(TransactionManifestV1 { instructions: to_v1(instructions), blobs, object_names }),
        Kind::SystemV1 => AnyManifest::SystemV1(SystemTransactionManifestV1 {
            instructions: to_v1(instructions),
            blobs,
            preallocated_addresses: prealloc,
            object_names,
        }),
        Kind::V2 => AnyManifest::V2(TransactionManifestV2 { instructions, blobs, children, object_names }),
        Kind::SubintentV2 => AnyManifest::SubintentV2(SubintentManifestV2 { instructions, blobs, children, object_names }),
    };
    Generated { manifest, life, ops, cleaned_up }
}

/// file:line of a panic, independent of where the repository / cargo registry lives.
pub fn panic_site(p: &rv_common::PanicInfo) -> String {
    let loc = p.location.as_str();
    if let Some(i) = loc.rfind("/repo/") {
        return loc[i + 6..].to_string();
    }
    if let Some(i) = loc.find("/registry/src/") {
        let rest = &loc[i + 14..];
        return rest.split_once('/').map(|(_, r)| r.to_string()).unwrap_or_else(|| rest.to_string());
    }
    loc.to_string()
}

pub fn manifest_hex(m: &AnyManifest) -> Option<String> {
    m.to_raw().ok().map(|r| rv_common::hex(r.as_slice()))
}
pub fn manifest_from_hex(h: &str) -> Result<AnyManifest, String> {
    let bytes = rv_common::unhex(h);
    manifest_decode::<AnyManifest>(&bytes).map_err(|e| format!("{e:?}"))
}
