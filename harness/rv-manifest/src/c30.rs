//! C30: compile(decompile(m)) == m for V1 / V2 / subintent / system manifests.
use crate::gen::*;
use radix_common::prelude::*;
use radix_transactions::manifest::*;
use radix_transactions::prelude::*;
use rv_common::*;
use serde_json::{json, Value as J};
use std::time::Duration;

fn network() -> NetworkDefinition {
    NetworkDefinition::simulator()
}

/// Number of objects of each class the manifest creates (counted here by scanning the
/// instruction list) and the known names of those objects.
fn expected_names(m: &AnyManifest) -> ([u32; 5], KnownManifestObjectNames) {
    let (ins, prealloc, children): (Vec<InstructionV2>, usize, usize) = match m {
        AnyManifest::V1(m) => (m.instructions.iter().cloned().map(Into::into).collect(), 0, 0),
        AnyManifest::SystemV1(m) => (m.instructions.iter().cloned().map(Into::into).collect(), m.preallocated_addresses.len(), 0),
        AnyManifest::V2(m) => (m.instructions.clone(), 0, m.children.len()),
        AnyManifest::SubintentV2(m) => (m.instructions.clone(), 0, m.children.len()),
    };
    let (mut nb, mut np, mut nr, mut na) = (0u32, 0u32, prealloc as u32, 0u32);
    for i in &ins {
        use InstructionV2 as I;
        match i {
            I::TakeFromWorktop(_) | I::TakeNonFungiblesFromWorktop(_) | I::TakeAllFromWorktop(_) => nb += 1,
            I::CreateProofFromBucketOfAmount(_)
            | I::CreateProofFromBucketOfNonFungibles(_)
            | I::CreateProofFromBucketOfAll(_)
            | I::CreateProofFromAuthZoneOfAmount(_)
            | I::CreateProofFromAuthZoneOfNonFungibles(_)
            | I::CreateProofFromAuthZoneOfAll(_)
            | I::PopFromAuthZone(_)
            | I::CloneProof(_) => np += 1,
            I::AllocateGlobalAddress(_) => {
                nr += 1;
                na += 1;
            }
            _ => {}
        }
    }
    let k = match m.get_known_object_names_ref() {
        ManifestObjectNamesRef::Known(k) => k.clone(),
        ManifestObjectNamesRef::Unknown => Default::default(),
    };
    let known = KnownManifestObjectNames {
        bucket_names: k.bucket_names.into_iter().filter(|(i, _)| i.0 < nb).collect(),
        proof_names: k.proof_names.into_iter().filter(|(i, _)| i.0 < np).collect(),
        address_reservation_names: k.address_reservation_names.into_iter().filter(|(i, _)| i.0 < nr).collect(),
        address_names: k.address_names.into_iter().filter(|(i, _)| i.0 < na).collect(),
        intent_names: k.intent_names.into_iter().filter(|(i, _)| (i.0 as usize) < children).collect(),
    };
    ([nb, np, nr, na, children as u32], known)
}

fn sorted<K: Ord + Clone, V: Clone>(m: &IndexMap<K, V>) -> Vec<(K, V)> {
    let mut v: Vec<(K, V)> = m.iter().map(|(k, v)| (k.clone(), v.clone())).collect();
    v.sort_by(|a, b| a.0.cmp(&b.0));
    v
}

struct Parts {
    instructions: Vec<InstructionV2>,
    blobs: Vec<(Hash, Vec<u8>)>,
    children: Vec<ChildSubintentSpecifier>,
    prealloc: Vec<PreAllocatedAddress>,
    names: ManifestObjectNames,
}
fn parts(m: &AnyManifest) -> Parts {
    match m {
        AnyManifest::V1(m) => Parts {
            instructions: m.instructions.iter().cloned().map(Into::into).collect(),
            blobs: sorted(&m.blobs),
            children: vec![],
            prealloc: vec![],
            names: m.object_names.clone(),
        },
        AnyManifest::SystemV1(m) => Parts {
            instructions: m.instructions.iter().cloned().map(Into::into).collect(),
            blobs: sorted(&m.blobs),
            children: vec![],
            prealloc: m.preallocated_addresses.clone(),
            names: m.object_names.clone(),
        },
        AnyManifest::V2(m) => Parts {
            instructions: m.instructions.clone(),
            blobs: sorted(&m.blobs),
            children: m.children.iter().cloned().collect(),
            prealloc: vec![],
            names: m.object_names.clone(),
        },
        AnyManifest::SubintentV2(m) => Parts {
            instructions: m.instructions.clone(),
            blobs: sorted(&m.blobs),
            children: m.children.iter().cloned().collect(),
            prealloc: vec![],
            names: m.object_names.clone(),
        },
    }
}

fn names_sorted(k: &KnownManifestObjectNames) -> (Vec<(u32, String)>, Vec<(u32, String)>, Vec<(u32, String)>, Vec<(u32, String)>, Vec<(u32, String)>) {
    let s = |mut v: Vec<(u32, String)>| {
        v.sort();
        v
    };
    (
        s(k.bucket_names.iter().map(|(k, v)| (k.0, v.clone())).collect()),
        s(k.proof_names.iter().map(|(k, v)| (k.0, v.clone())).collect()),
        s(k.address_reservation_names.iter().map(|(k, v)| (k.0, v.clone())).collect()),
        s(k.address_names.iter().map(|(k, v)| (k.0, v.clone())).collect()),
        s(k.intent_names.iter().map(|(k, v)| (k.0, v.clone())).collect()),
    )
}

const TABLE_NAMES: [&str; 5] = ["buckets", "proofs", "reservations", "addresses", "intents"];

pub enum Outcome {
    Identical,
    /// (signature, detail)
    Broken(String, J),
}

fn variant_name<T: std::fmt::Debug>(t: &T) -> String {
    let s = format!("{t:?}");
    s.split(|c: char| !(c.is_alphanumeric() || c == '_')).next().unwrap_or("").to_string()
}

/// A finer class for an instruction difference: which instruction kind, and whether only the
/// callee address differs (alias that drops its address).
fn instruction_diff_class(a: &InstructionV2, b: &InstructionV2) -> String {
    let an = variant_name(a);
    let bn = variant_name(b);
    if an != bn {
        return format!("{an}-became-{bn}");
    }
    if let (InstructionV2::CallMethod(x), InstructionV2::CallMethod(y)) = (a, b) {
        if x.address != y.address && x.method_name == y.method_name && x.args == y.args {
            return format!("CallMethod:{}:address-replaced", x.method_name);
        }
    }
    an
}

fn check_plain(m: &AnyManifest) -> Outcome {
    let net = network();
    let kind = Kind::of(m);
    let text = match catch(std::panic::AssertUnwindSafe(|| decompile_any(m, &net))) {
        Err(p) => return Outcome::Broken(format!("decompile-panic:{}", panic_site(&p)), json!({"panic": p.summary()})),
        Ok(Err(e)) => return Outcome::Broken(format!("decompile-error:{}", variant_name(&e)), json!({"error": format!("{e:?}")})),
        Ok(Ok(t)) => t,
    };
    let p0 = parts(m);
    let blobs = BlobProvider::new_with_prehashed_blobs(p0.blobs.iter().cloned().collect());
    let compiled = match catch(std::panic::AssertUnwindSafe(|| compile_any_manifest(&text, kind.manifest_kind(), &net, blobs))) {
        Err(p) => return Outcome::Broken(format!("recompile-panic:{}", panic_site(&p)), json!({"panic": p.summary(), "text": text})),
        Ok(Err(e)) => {
            if text.trim().is_empty() {
                return Outcome::Broken("recompile-error:empty-manifest-text-rejected".into(), json!({"error": format!("{e:?}"), "text": text}));
            }
            let class = match &e {
                CompileError::LexerError(l) => format!("Lexer:{}", variant_name(&l.error_kind)),
                CompileError::ParserError(p) => format!("Parser:{}", variant_name(&p.error_kind)),
                CompileError::GeneratorError(g) => match &g.error_kind {
                    radix_transactions::manifest::generator::GeneratorErrorKind::NameResolverError(n) => {
                        format!("Generator:NameResolverError:{}", variant_name(n))
                    }
                    radix_transactions::manifest::generator::GeneratorErrorKind::IdValidationError { err, .. } => {
                        format!("Generator:IdValidationError:{}", variant_name(err))
                    }
                    k => format!("Generator:{}", variant_name(k)),
                },
            };
            return Outcome::Broken(format!("recompile-error:{class}"), json!({"error": format!("{e:?}"), "text": text}));
        }
        Ok(Ok(c)) => c,
    };
    if Kind::of(&compiled) != kind {
        return Outcome::Broken("mismatch:kind".into(), json!({"text": text}));
    }
    let p1 = parts(&compiled);
    if p0.instructions != p1.instructions {
        let idx = p0.instructions.iter().zip(p1.instructions.iter()).position(|(a, b)| a != b);
        let class = match idx {
            Some(i) => instruction_diff_class(&p0.instructions[i], &p1.instructions[i]),
            None => "count".to_string(),
        };
        let (a, b) = match idx {
            Some(i) => (format!("{:?}", p0.instructions[i]), format!("{:?}", p1.instructions[i])),
            None => (format!("{} instructions", p0.instructions.len()), format!("{} instructions", p1.instructions.len())),
        };
        return Outcome::Broken(format!("mismatch:instructions:{class}"), json!({"index": idx, "original": a, "recompiled": b, "text": text}));
    }
    if p0.blobs != p1.blobs {
        return Outcome::Broken("mismatch:blobs".into(), json!({"original": p0.blobs.len(), "recompiled": p1.blobs.len(), "text": text}));
    }
    if p0.children != p1.children {
        return Outcome::Broken("mismatch:children".into(), json!({"text": text}));
    }
    if p0.prealloc != p1.prealloc {
        return Outcome::Broken("mismatch:preallocated-addresses".into(), json!({"text": text}));
    }
    // Object names: every object the manifest creates must carry a name after recompiling; an
    // object with a known name in the original must keep exactly that name. (Objects without a
    // known name get a decompiler-chosen name - any name will do.)
    let (counts, known) = expected_names(m);
    let got = match &p1.names {
        ManifestObjectNames::Known(k) => names_sorted(k),
        ManifestObjectNames::Unknown => {
            return Outcome::Broken("mismatch:object-names".into(), json!({"recompiled": "Unknown", "text": text}));
        }
    };
    let want = names_sorted(&known);
    let tables = [(&got.0, &want.0, counts[0]), (&got.1, &want.1, counts[1]), (&got.2, &want.2, counts[2]), (&got.3, &want.3, counts[3]), (&got.4, &want.4, counts[4])];
    for (t, (got, want, count)) in tables.iter().enumerate() {
        let ids: Vec<u32> = got.iter().map(|(i, _)| *i).collect();
        let all_ids: Vec<u32> = (0..*count).collect();
        let known_kept = want.iter().all(|(id, name)| got.iter().any(|(i, n)| i == id && n == name));
        if ids != all_ids || !known_kept {
            return Outcome::Broken(
                "mismatch:object-names".into(),
                json!({"table": TABLE_NAMES[t], "expected_known": format!("{want:?}"), "object_count": count,
                       "recompiled": format!("{got:?}"), "text": text}),
            );
        }
    }
    let _ = &p0.names;
    Outcome::Identical
}

fn strip_names(m: &AnyManifest) -> AnyManifest {
    let mut m = m.clone();
    match &mut m {
        AnyManifest::V1(x) => x.object_names = ManifestObjectNames::Unknown,
        AnyManifest::SystemV1(x) => x.object_names = ManifestObjectNames::Unknown,
        AnyManifest::V2(x) => x.object_names = ManifestObjectNames::Unknown,
        AnyManifest::SubintentV2(x) => x.object_names = ManifestObjectNames::Unknown,
    }
    m
}

fn all_known_names(m: &AnyManifest) -> Vec<String> {
    match m.get_known_object_names_ref() {
        ManifestObjectNamesRef::Unknown => vec![],
        ManifestObjectNamesRef::Known(k) => k
            .bucket_names
            .values()
            .chain(k.proof_names.values())
            .chain(k.address_reservation_names.values())
            .chain(k.address_names.values())
            .chain(k.intent_names.values())
            .cloned()
            .collect(),
    }
}

/// Round-trip check; a failure that disappears when the known object names are removed is
/// attributed to the names (own signature classes).
pub fn check_one(m: &AnyManifest) -> Outcome {
    match check_plain(m) {
        Outcome::Identical => Outcome::Identical,
        Outcome::Broken(sig, mut detail) => {
            let names = all_known_names(m);
            if !names.is_empty() {
                let without_names = check_plain(&strip_names(m));
                let caused_by_names = match &without_names {
                    Outcome::Identical => true,
                    Outcome::Broken(other, _) => *other != sig,
                };
                if caused_by_names {
                    let needs_escape = names.iter().any(|n| n.chars().any(|c| c == '"' || c == '\\' || (c as u32) < 0x20));
                    let new_sig = if needs_escape {
                        "object-names:name-needing-escape-breaks-text".to_string()
                    } else if sig.ends_with("NamedAlreadyDefined") {
                        "object-names:known-name-collides-with-default-name".to_string()
                    } else {
                        format!("object-names:{sig}")
                    };
                    detail["underlying"] = json!(sig);
                    detail["known_names"] = json!(names);
                    return Outcome::Broken(new_sig, detail);
                }
            }
            Outcome::Broken(sig, detail)
        }
    }
}

fn cfg_for(rng: &mut Rng, kind: Kind) -> ManifestCfg {
    // 19 = deepest argument nesting an encodable AnyManifest can hold (measured in probe());
    // a real transaction payload has one more wrapper level, i.e. 18.
    let max_depth = *rng.pick(&[2usize, 3, 4, 6, 9, 14, 18, 19]);
    let names = match rng.below(100) {
        0..=24 => NamePolicy::Unknown,
        25..=62 => NamePolicy::KnownFull,
        63..=95 => NamePolicy::KnownPartial,
        96 | 97 => NamePolicy::KnownHostile,
        _ => NamePolicy::KnownCollidingWithDefault,
    };
    ManifestCfg {
        kind,
        max_instructions: *rng.pick(&[3usize, 8, 20, 60]),
        fault_pm: 0,
        cleanup_pct: 70,
        value: ValueCfg { max_depth, allow_proofs: true, allow_owned: true, max_width: if max_depth > 9 { 3 } else { 6 } },
        tuple_args_only: true,
        names,
        invalid_constraints: false,
        extra_blobs: true,
        aliases: true,
        deep_chain_pct: 10,
        ill_formed_pct: 0,
    }
}

pub fn spec() -> Spec {
    Spec::new(
        "C30",
        "exploration",
        "compile_any_manifest(decompile_any(m)) reproduces m: instructions (with all argument values), blobs, preallocated addresses / \
         reservations, child subintents and the known name of every named object (objects without a known name receive some name)",
    )
    .assume("manifests have a valid object lifecycle (the compiler's id validator rejects others by design)")
    .assume("invocation arguments are tuples (decompile documents InvalidArguments otherwise) and well-formed ManifestValues")
    .assume("static addresses carry a valid entity type; the manifest is encodable as AnyManifest (argument nesting <= 19 levels; a transaction payload holds 18)")
    .assume("known object names are unique per class")
    .floor("evaluations", 4000)
    .floor("kind:V1", 500)
    .floor("kind:SystemV1", 500)
    .floor("kind:V2", 500)
    .floor("kind:SubintentV2", 500)
    .floor("distinct_nontrivial", 3000)
    .floor("with_alias_header", 200)
    .floor("names:KnownPartial", 300)
    .floor("source:ManifestBuilder", 300)
    .floor("shape_classes_seen", 25)
    .explain(
        "Each case: generate a manifest of one of the four kinds with a valid bucket/proof/reservation/named-address/child lifecycle and \
         arguments drawn from generated ManifestValue trees, decompile it, compile the text with the manifest's own blobs, compare \
         structurally. distinct_nontrivial counts distinct decompiled texts.",
    )
}

fn record_case(shard: &mut Shard, g: &Generated, kind: Kind, text_hash: u64) {
    shard.eval();
    shard.nontrivial(&text_hash);
    shard.count(&format!("kind:{}", kind.name()));
    for op in &g.ops {
        shard.seen("instructions", op);
    }
    shard.add("instructions_total", g.ops.len() as u64);
    shard.max("instructions_per_manifest", g.ops.len() as u64);
}

fn args_of(i: &InstructionV2) -> Option<&ManifestValue> {
    use InstructionV2 as I;
    Some(match i {
        I::CallFunction(x) => &x.args,
        I::CallMethod(x) => &x.args,
        I::CallRoyaltyMethod(x) => &x.args,
        I::CallMetadataMethod(x) => &x.args,
        I::CallRoleAssignmentMethod(x) => &x.args,
        I::CallDirectVaultMethod(x) => &x.args,
        I::YieldToParent(x) => &x.args,
        I::YieldToChild(x) => &x.args,
        _ => return None,
    })
}

const ALIAS_HEADERS: &[&str] = &[
    "PUBLISH_PACKAGE", "PUBLISH_PACKAGE_ADVANCED", "CREATE_ACCOUNT", "CREATE_ACCOUNT_ADVANCED", "CREATE_IDENTITY", "CREATE_IDENTITY_ADVANCED",
    "CREATE_ACCESS_CONTROLLER", "CREATE_FUNGIBLE_RESOURCE", "CREATE_FUNGIBLE_RESOURCE_WITH_INITIAL_SUPPLY", "CREATE_NON_FUNGIBLE_RESOURCE",
    "CREATE_NON_FUNGIBLE_RESOURCE_WITH_INITIAL_SUPPLY", "CLAIM_PACKAGE_ROYALTIES", "MINT_FUNGIBLE", "MINT_NON_FUNGIBLE", "MINT_RUID_NON_FUNGIBLE",
    "CREATE_VALIDATOR", "SET_COMPONENT_ROYALTY", "LOCK_COMPONENT_ROYALTY", "CLAIM_COMPONENT_ROYALTIES", "SET_METADATA", "REMOVE_METADATA",
    "LOCK_METADATA", "SET_OWNER_ROLE", "LOCK_OWNER_ROLE", "SET_ROLE", "RECALL_FROM_VAULT", "FREEZE_VAULT", "UNFREEZE_VAULT",
    "RECALL_NON_FUNGIBLES_FROM_VAULT", "ASSERT_WORKTOP_IS_EMPTY", "USE_CHILD", "USE_PREALLOCATED_ADDRESS",
];

pub fn run(args: &Args) -> Report {
    let mut report = Report::new(args, spec());
    let budget = Duration::from_secs(budget_secs(args.tier, 35, 540));
    let cap = scaled(args, args.tier.pick(1_500_000, 40_000_000)) / args.threads as u64 + 1;
    report.run_shards(30, args.threads, budget, |idx, rng, shard| {
        let net = network();
        let mut i = 0u64;
        while i < cap && !shard.time_up() {
            i += 1;
            let kind = KINDS[(i as usize + idx) % 4];
            let mut crng = rng.fork();
            let from_builder = crng.chance(1, 10);
            let cfg = cfg_for(&mut crng, kind);
            let g = if from_builder {
                let (manifest, ops) = crate::built::build(&mut crng, kind);
                Generated { manifest, life: Default::default(), ops, cleaned_up: true }
            } else {
                gen_manifest(&mut crng, &cfg)
            };
            // precondition: the manifest itself is encodable (depth / size limits of manifest SBOR)
            let Some(hex) = manifest_hex(&g.manifest) else {
                shard.count("skipped:manifest-not-encodable");
                continue;
            };
            let text_hash = decompile_any(&g.manifest, &net).map(|t| h64(&t)).unwrap_or(i);
            shard.count(if from_builder { "source:ManifestBuilder" } else { "source:direct-construction" });
            record_case(shard, &g, kind, text_hash);
            if from_builder {
                shard.count("names:BuilderRegistered");
            } else {
                shard.count(&format!("names:{:?}", cfg.names));
            }
            // coverage of argument shapes
            let p = parts(&g.manifest);
            let mut shapes = BTreeSet::new();
            let mut deepest = 0;
            for ins in &p.instructions {
                if let Some(a) = args_of(ins) {
                    value_shapes(a, &mut shapes);
                    deepest = deepest.max(value_depth(a));
                }
            }
            for s in &shapes {
                shard.seen("value_shapes", s);
            }
            shard.max("arg_depth", deepest as u64);
            if let Ok(t) = decompile_any(&g.manifest, &net) {
                let mut any_alias = false;
                for line in t.lines() {
                    if let Some(h) = ALIAS_HEADERS.iter().find(|h| line == **h || line.trim_end_matches(';') == **h) {
                        shard.seen("alias_headers", h);
                        any_alias = true;
                    }
                }
                if any_alias {
                    shard.count("with_alias_header");
                }
            }
            match check_one(&g.manifest) {
                Outcome::Identical => {
                    shard.count("identical");
                    shard.sample(|| json!({"kind": kind.name(), "instructions": g.ops.len(), "names": format!("{:?}", cfg.names), "arg_depth": deepest}));
                }
                Outcome::Broken(sig, mut detail) => {
                    detail["manifest_hex"] = json!(hex);
                    detail["kind"] = json!(kind.name());
                    detail["shard"] = json!(idx);
                    detail["iteration"] = json!(i);
                    shard.violation(sig, detail);
                }
            }
        }
    });
    let n = report.sets.get("value_shapes").map(|s| s.len()).unwrap_or(0) as u64;
    report.counters.insert("shape_classes_seen".into(), n);
    report
}

pub fn replay(args: &Args, doc: &J) -> i32 {
    let _ = args;
    let hex = doc["detail"]["manifest_hex"].as_str().unwrap_or("");
    let m = match manifest_from_hex(hex) {
        Ok(m) => m,
        Err(e) => {
            println!("REPLAY cannot decode manifest: {e}");
            return 2;
        }
    };
    match check_one(&m) {
        Outcome::Identical => {
            println!("REPLAY C30: round trip is identical now (no violation)");
            0
        }
        Outcome::Broken(sig, detail) => {
            println!("REPLAY C30: still violates: {sig}\n{}", serde_json::to_string_pretty(&detail).unwrap());
            1
        }
    }
}

/// Calibration helper: `rv-manifest C30 quick probe` prints depth limits.
pub fn probe() {
    let net = network();
    for depth in 1..=26usize {
        let mut v = ManifestValue::U8 { value: 1 };
        for _ in 1..depth {
            v = ManifestValue::Tuple { fields: vec![v] };
        }
        let mut d = ManifestValue::Custom { value: ManifestCustomValue::Decimal(radix_transactions::data::from_decimal(Decimal::ONE)) };
        for _ in 1..depth {
            d = ManifestValue::Tuple { fields: vec![d] };
        }
        for (label, val) in [("u8-leaf", v), ("decimal-leaf", d)] {
            let m = AnyManifest::V1(TransactionManifestV1 {
                instructions: vec![CallMethod { address: ManifestGlobalAddress::Static(FAUCET.into()), method_name: "x".into(), args: ManifestValue::Tuple { fields: vec![val] } }
                    .into()],
                blobs: Default::default(),
                object_names: Default::default(),
            });
            let enc = m.to_raw().is_ok();
            let rt = match check_one(&m) {
                Outcome::Identical => "identical".to_string(),
                Outcome::Broken(s, _) => s,
            };
            let valid = m.validate(ValidationRuleset::all());
            println!("arg depth {depth:2} {label:13} encodable={enc} roundtrip={rt} static-validate={:?}", valid.map_err(|e| variant_name(&e)));
        }
    }
    let _ = net;
}
