//! C36 (static half): StaticManifestInterpreter accepts only manifests whose object lifecycle is
//! valid according to an independent checker (soundness direction: accepted => valid).
use crate::gen::*;
use crate::lifecycle::{self, Rules};
use radix_transactions::manifest::*;
use rv_common::*;
use serde_json::{json, Value as J};
use std::time::Duration;

pub const RULESETS: [&str; 3] = ["babylon_equivalent", "cuttlefish", "all"];

pub fn ruleset(name: &str) -> ValidationRuleset {
    match name {
        "babylon_equivalent" => ValidationRuleset::babylon_equivalent(),
        "cuttlefish" => ValidationRuleset::cuttlefish(),
        _ => ValidationRuleset::all(),
    }
}

/// The clauses of the property that the ruleset's documented switches turn on.
/// `validate_resource_assertions` is about the *constraints* of assertions; whether the bucket
/// named by ASSERT_BUCKET_CONTENTS exists is part of the bucket lifecycle and is always demanded.
pub fn rules_of(rs: &ValidationRuleset) -> Rules {
    Rules {
        blob_refs: rs.validate_blob_refs,
        bucket_proof_lock: rs.validate_bucket_proof_lock,
        no_dangling_nodes: rs.validate_no_dangling_nodes,
        dynamic_address_in_command_part: rs.validate_dynamic_address_in_command_part,
    }
}

fn variant_name<T: std::fmt::Debug>(t: &T) -> String {
    let s = format!("{t:?}");
    s.split(|c: char| !(c.is_alphanumeric() || c == '_')).next().unwrap_or("").to_string()
}

pub struct Verdict {
    pub accepted: bool,
    pub error: Option<String>,
    pub oracle: Result<(), lifecycle::Invalid>,
    /// Some(signature) when accepted although the oracle finds the lifecycle invalid
    pub violation: Option<String>,
    pub panic: Option<PanicInfo>,
}

pub fn check_one(m: &AnyManifest, ruleset_name: &str) -> Verdict {
    let rs = ruleset(ruleset_name);
    let rules = rules_of(&rs);
    let oracle = lifecycle::check(m, &rules);
    let res = catch(std::panic::AssertUnwindSafe(|| StaticManifestInterpreter::new(rs, m).validate()));
    match res {
        Err(p) => Verdict { accepted: false, error: None, oracle, violation: Some(format!("interpreter-panic:{}", panic_site(&p))), panic: Some(p) },
        Ok(Ok(())) => {
            let violation = oracle.as_ref().err().map(|inv| format!("accepted-invalid:{}:{}", inv.cause(), ruleset_name));
            Verdict { accepted: true, error: None, oracle, violation, panic: None }
        }
        Ok(Err(e)) => Verdict { accepted: false, error: Some(variant_name(&e)), oracle, violation: None, panic: None },
    }
}

pub fn spec() -> Spec {
    Spec::new(
        "C36",
        "exploration",
        "every manifest accepted by StaticManifestInterpreter::validate (rulesets babylon_equivalent, cuttlefish, all; manifest kinds V1, SystemV1, V2, \
         SubintentV2) passes an independent linear-scan lifecycle check: buckets / proofs / reservations / named addresses / blobs / children are \
         created or declared before use, nothing is consumed twice, buckets are not consumed while locked by a proof, subintents end with \
         YIELD_TO_PARENT, yields/verify only where the kind allows, nothing dangling at the end",
    )
    .assume("static half only (soundness: accepted => lifecycle valid); the run-time half of C36 lives in rv-engine")
    .assume("clauses switched off by a ruleset's documented flags (blob refs, dangling nodes, named address in the command part) are not demanded for that ruleset")
    .floor("evaluations", 60_000)
    .floor("accepted", 10_000)
    .floor("rejected", 10_000)
    .floor("accepted:with-faults-injected", 300)
    .floor("error_variants_seen", 15)
    .floor("distinct_nontrivial", 10_000)
    .explain(
        "Each case = one generated manifest x one ruleset. Manifests are random instruction sequences steered by a lifecycle model with a per-manifest \
         fault rate (0, 2%, 10%, 35% of the id choices ignore the model: unknown, consumed, locked, out-of-range ids), optional clean-up epilogue. \
         distinct_nontrivial counts distinct (encoded manifest, ruleset) pairs. rejected-but-oracle-valid cases are listed per error variant \
         (completeness is not claimed by the property).",
    )
}

fn cfg_for(rng: &mut Rng, kind: Kind) -> ManifestCfg {
    let fault_pm = *rng.pick(&[0u64, 0, 20, 20, 100, 350]);
    let max_depth = *rng.pick(&[2usize, 3, 4, 6, 10]);
    ManifestCfg {
        kind,
        max_instructions: *rng.pick(&[2usize, 6, 15, 40, 120]),
        fault_pm,
        cleanup_pct: 75,
        value: ValueCfg { max_depth, allow_proofs: true, allow_owned: true, max_width: 5 },
        tuple_args_only: false,
        names: if rng.bool() { NamePolicy::Unknown } else { NamePolicy::KnownPartial },
        invalid_constraints: rng.chance(1, 4),
        extra_blobs: true,
        aliases: rng.bool(),
        deep_chain_pct: 5,
        ill_formed_pct: 3,
    }
}

pub fn run(args: &Args) -> Report {
    let mut report = Report::new(args, spec());
    let budget = Duration::from_secs(budget_secs(args.tier, 30, 480));
    let cap = scaled(args, args.tier.pick(4_000_000, 150_000_000)) / args.threads as u64 + 1;
    report.run_shards(36, args.threads, budget, |idx, rng, shard| {
        let mut i = 0u64;
        let mut evals = 0u64;
        while evals < cap && !shard.time_up() {
            i += 1;
            let kind = KINDS[(i as usize + idx) % 4];
            let mut crng = rng.fork();
            let cfg = cfg_for(&mut crng, kind);
            let g = gen_manifest(&mut crng, &cfg);
            let hex = manifest_hex(&g.manifest);
            let mh = hex.as_ref().map(|h| h64(h)).unwrap_or(i ^ ((idx as u64) << 48));
            for op in &g.ops {
                shard.seen("instructions", op);
            }
            shard.max("instructions_per_manifest", g.ops.len() as u64);
            for rsn in RULESETS {
                evals += 1;
                shard.eval();
                shard.nontrivial(&(mh, rsn));
                let v = check_one(&g.manifest, rsn);
                let faults = if g.life.faults_injected > 0 { "with-faults-injected" } else { "no-faults" };
                shard.count(&format!("kind:{}:{}", kind.name(), if v.accepted { "accepted" } else { "rejected" }));
                shard.count(&format!("ruleset:{}:{}", rsn, if v.accepted { "accepted" } else { "rejected" }));
                if v.accepted {
                    shard.count("accepted");
                    shard.count(&format!("accepted:{faults}"));
                    shard.sample(|| json!({"kind": kind.name(), "ruleset": rsn, "instructions": g.ops.len(), "faults_injected": g.life.faults_injected, "outcome": "accepted"}));
                } else {
                    shard.count("rejected");
                    if let Some(e) = &v.error {
                        shard.seen("error_variants", e);
                        shard.count(&format!("error:{e}"));
                        match &v.oracle {
                            Ok(()) => {
                                shard.count("rejected:oracle-finds-lifecycle-valid");
                                shard.seen("rejected_but_lifecycle_valid_by_error", e);
                            }
                            Err(inv) => {
                                shard.count("rejected:oracle-agrees-invalid");
                                shard.seen("oracle_invalid_classes", inv.class);
                            }
                        }
                    }
                }
                if let Some(sig) = v.violation {
                    shard.violation(
                        sig,
                        json!({
                            "manifest_hex": hex, "kind": kind.name(), "ruleset": rsn, "shard": idx, "iteration": i,
                            "oracle": v.oracle.as_ref().err().map(|e| json!({"class": e.class, "at_instruction": e.at, "instruction": e.at_op, "detail": e.detail})),
                            "panic": v.panic.as_ref().map(|p| p.summary()),
                            "instructions": g.ops,
                        }),
                    );
                }
            }
        }
    });
    let n = report.sets.get("error_variants").map(|s| s.len()).unwrap_or(0) as u64;
    report.counters.insert("error_variants_seen".into(), n);
    report
}

pub fn replay(_args: &Args, doc: &J) -> i32 {
    let hex = doc["detail"]["manifest_hex"].as_str().unwrap_or("");
    let rsn = doc["detail"]["ruleset"].as_str().unwrap_or("all").to_string();
    let m = match manifest_from_hex(hex) {
        Ok(m) => m,
        Err(e) => {
            println!("REPLAY cannot decode manifest: {e}");
            return 2;
        }
    };
    let v = check_one(&m, &rsn);
    println!("REPLAY C36 ruleset={rsn} accepted={} error={:?} oracle={:?}", v.accepted, v.error, v.oracle);
    match v.violation {
        Some(sig) => {
            println!("REPLAY C36: still violates: {sig}");
            1
        }
        None => {
            println!("REPLAY C36: no violation now");
            0
        }
    }
}
