//! Manifests produced through `ManifestBuilder` (new_v1 / new_v2 / new_subintent_v2 /
//! new_system_v1): realistic typed arguments (owner roles, metadata, role assignments, package
//! definitions, access rules ...) and builder-registered object names. Complements gen.rs, which
//! builds instruction vectors directly from random ManifestValue trees.
use crate::gen::*;
use crate::gen::{package_address, resource_address};
use radix_common::prelude::*;
use radix_engine_interface::blueprints::package::PackageDefinition;
use radix_engine_interface::prelude::*;
use radix_transactions::manifest::*;
use radix_transactions::prelude::*;
use rv_common::Rng;

#[derive(Default)]
struct Names {
    serial: u32,
    /// live buckets: (name, number of live proofs)
    buckets: Vec<(String, u32)>,
    /// live proofs: (name, source bucket)
    proofs: Vec<(String, Option<String>)>,
    reservations: Vec<String>,
    addresses: Vec<String>,
    children: Vec<String>,
}

impl Names {
    fn fresh(&mut self, rng: &mut Rng, class: &str) -> String {
        self.serial += 1;
        let s = self.serial;
        match rng.below(6) {
            0 => format!("{class}{s}"), // looks like a default name
            1 => format!("my {class} {s}"),
            2 => format!("{}_{s}", ident(rng, 1, 8)),
            3 => format!("näme-{s}-中"),
            4 => format!("{class}_{s}_\u{1f600}"),
            _ => format!("x{s}"),
        }
    }
    fn unlock(&mut self, source: &Option<String>) {
        if let Some(b) = source {
            if let Some(e) = self.buckets.iter_mut().find(|(n, _)| n == b) {
                e.1 = e.1.saturating_sub(1);
            }
        }
    }
    fn take_unlocked_bucket(&mut self, rng: &mut Rng) -> Option<String> {
        let idx: Vec<usize> = self.buckets.iter().enumerate().filter(|(_, (_, l))| *l == 0).map(|(i, _)| i).collect();
        if idx.is_empty() {
            return None;
        }
        let i = *rng.pick(&idx);
        Some(self.buckets.remove(i).0)
    }
    fn take_proof(&mut self, rng: &mut Rng) -> Option<String> {
        if self.proofs.is_empty() {
            return None;
        }
        let i = rng.usize_below(self.proofs.len());
        let (n, src) = self.proofs.remove(i);
        self.unlock(&src);
        Some(n)
    }
}

fn account(rng: &mut Rng) -> ComponentAddress {
    ComponentAddress::new_or_panic(node_bytes(rng, EntityType::GlobalAccount))
}
fn component(rng: &mut Rng) -> ComponentAddress {
    if rng.bool() {
        FAUCET
    } else {
        ComponentAddress::new_or_panic(node_bytes(rng, EntityType::GlobalGenericComponent))
    }
}
fn nf_resource(rng: &mut Rng) -> ResourceAddress {
    ResourceAddress::new_or_panic(node_bytes(rng, EntityType::GlobalNonFungibleResourceManager))
}
fn f_resource(rng: &mut Rng) -> ResourceAddress {
    if rng.bool() {
        XRD
    } else {
        ResourceAddress::new_or_panic(node_bytes(rng, EntityType::GlobalFungibleResourceManager))
    }
}
fn amount(rng: &mut Rng) -> Decimal {
    let d = decimal(rng);
    if d.is_negative() {
        Decimal::ONE
    } else {
        d
    }
}
fn rule(rng: &mut Rng) -> AccessRule {
    match rng.below(4) {
        0 => AccessRule::AllowAll,
        1 => AccessRule::DenyAll,
        2 => rule!(require(NonFungibleGlobalId::new(nf_resource(rng), nf_local_id(rng)))),
        _ => rule!(require(f_resource(rng))),
    }
}
fn owner(rng: &mut Rng) -> OwnerRole {
    match rng.below(3) {
        0 => OwnerRole::None,
        1 => OwnerRole::Fixed(rule(rng)),
        _ => OwnerRole::Updatable(rule(rng)),
    }
}
fn metadata(rng: &mut Rng) -> ModuleConfig<MetadataInit> {
    let mut init = MetadataInit::new();
    let n = rng.size(4);
    for _ in 0..n {
        let key = if rng.chance(1, 3) { hostile_string(rng) } else { ident(rng, 1, 10) };
        match rng.below(6) {
            0 => init.set_metadata(key, MetadataValue::String(hostile_string(rng))),
            1 => init.set_metadata(key, MetadataValue::Bool(rng.bool())),
            2 => init.set_metadata(key, MetadataValue::U64(rng.u64())),
            3 => init.set_metadata(key, MetadataValue::Decimal(decimal(rng))),
            4 => init.set_metadata(key, MetadataValue::GlobalAddress(global_address(rng))),
            _ => init.set_metadata(key, MetadataValue::StringArray(vec![hostile_string(rng), ident(rng, 0, 5)])),
        }
    }
    ModuleConfig { init, roles: RoleAssignmentInit::default() }
}

/// Steps every manifest kind supports (InstructionV1 subset).
fn common_steps<M: BuildableManifest>(mut b: ManifestBuilder<M>, rng: &mut Rng, st: &mut Names, steps: usize, ops: &mut Vec<&'static str>) -> ManifestBuilder<M>
where
    M::Instruction: From<InstructionV1>,
{
    for _ in 0..steps {
        let lookup = b.name_lookup();
        b = match rng.below(34) {
            0 => {
                ops.push("builder:lock_fee_from_faucet");
                b.lock_fee_from_faucet()
            }
            1 => {
                ops.push("builder:get_free_xrd_from_faucet");
                b.get_free_xrd_from_faucet()
            }
            2 | 3 => {
                ops.push("builder:take_from_worktop");
                let n = st.fresh(rng, "bucket");
                st.buckets.push((n.clone(), 0));
                b.take_from_worktop(f_resource(rng), amount(rng), n)
            }
            4 => {
                ops.push("builder:take_all_from_worktop");
                let n = st.fresh(rng, "bucket");
                st.buckets.push((n.clone(), 0));
                b.take_all_from_worktop(resource_address(rng), n)
            }
            5 => {
                ops.push("builder:take_non_fungibles_from_worktop");
                let n = st.fresh(rng, "bucket");
                st.buckets.push((n.clone(), 0));
                let ids: IndexSet<NonFungibleLocalId> = nf_local_ids(rng, 4).into_iter().collect();
                b.take_non_fungibles_from_worktop(nf_resource(rng), ids, n)
            }
            6 => match st.take_unlocked_bucket(rng) {
                Some(n) => {
                    ops.push("builder:return_to_worktop");
                    b.return_to_worktop(lookup.bucket(n))
                }
                None => b,
            },
            7 => match st.take_unlocked_bucket(rng) {
                Some(n) => {
                    ops.push("builder:burn_resource");
                    b.burn_resource(lookup.bucket(n))
                }
                None => b,
            },
            8 | 9 => {
                if st.buckets.is_empty() {
                    b
                } else {
                    let i = rng.usize_below(st.buckets.len());
                    st.buckets[i].1 += 1;
                    let bn = st.buckets[i].0.clone();
                    let pn = st.fresh(rng, "proof");
                    st.proofs.push((pn.clone(), Some(bn.clone())));
                    if rng.bool() {
                        ops.push("builder:create_proof_from_bucket_of_all");
                        b.create_proof_from_bucket_of_all(lookup.bucket(bn), pn)
                    } else {
                        ops.push("builder:create_proof_from_bucket_of_amount");
                        b.create_proof_from_bucket_of_amount(lookup.bucket(bn), amount(rng), pn)
                    }
                }
            }
            10 => {
                let pn = st.fresh(rng, "proof");
                st.proofs.push((pn.clone(), None));
                if rng.bool() {
                    ops.push("builder:create_proof_from_auth_zone_of_all");
                    b.create_proof_from_auth_zone_of_all(resource_address(rng), pn)
                } else {
                    ops.push("builder:pop_from_auth_zone");
                    b.pop_from_auth_zone(pn)
                }
            }
            11 => {
                if st.proofs.is_empty() {
                    b
                } else {
                    ops.push("builder:clone_proof");
                    let (src_name, src_bucket) = st.proofs[rng.usize_below(st.proofs.len())].clone();
                    if let Some(bn) = &src_bucket {
                        if let Some(e) = st.buckets.iter_mut().find(|(n, _)| n == bn) {
                            e.1 += 1;
                        }
                    }
                    let pn = st.fresh(rng, "proof");
                    st.proofs.push((pn.clone(), src_bucket));
                    b.clone_proof(lookup.proof(src_name), pn)
                }
            }
            12 => match st.take_proof(rng) {
                Some(p) => {
                    if rng.bool() {
                        ops.push("builder:drop_proof");
                        b.drop_proof(lookup.proof(p))
                    } else {
                        ops.push("builder:push_to_auth_zone");
                        b.push_to_auth_zone(lookup.proof(p))
                    }
                }
                None => b,
            },
            13 => {
                ops.push("builder:drop_all_proofs");
                while st.take_proof(rng).is_some() {}
                b.drop_all_proofs()
            }
            14 | 15 => {
                ops.push("builder:allocate_global_address");
                let r = st.fresh(rng, "reservation");
                let a = st.fresh(rng, "address");
                st.reservations.push(r.clone());
                st.addresses.push(a.clone());
                b.allocate_global_address(package_address(rng), ident(rng, 1, 10), r, a)
            }
            16 | 17 => {
                // typed arguments with a bucket / proof / named address from the lookup
                let bucket = if rng.bool() { st.take_unlocked_bucket(rng) } else { None };
                let proof = if rng.bool() { st.take_proof(rng) } else { None };
                let named = if !st.addresses.is_empty() && rng.bool() { Some(st.addresses[rng.usize_below(st.addresses.len())].clone()) } else { None };
                ops.push("builder:call_method_with_name_lookup");
                let s = hostile_string(rng);
                let d = decimal(rng);
                let ids = nf_local_ids(rng, 3);
                let gid = NonFungibleGlobalId::new(nf_resource(rng), nf_local_id(rng));
                let target = component(rng);
                b.call_method_with_name_lookup(target, ident(rng, 1, 10), move |l| {
                    (
                        bucket.map(|n| l.bucket(n)),
                        proof.map(|n| l.proof(n)),
                        named.map(|n| ManifestAddress::Named(l.named_address(n))),
                        s,
                        d,
                        ids,
                        gid,
                    )
                })
            }
            18 => {
                if st.addresses.is_empty() {
                    b
                } else {
                    ops.push("builder:call_method(named address)");
                    let a = st.addresses[rng.usize_below(st.addresses.len())].clone();
                    b.call_method(lookup.named_address(a), ident(rng, 1, 8), (rng.u64(), Some(hostile_string(rng))))
                }
            }
            19 => {
                ops.push("builder:new_account_advanced");
                let r = if !st.reservations.is_empty() && rng.bool() {
                    let i = rng.usize_below(st.reservations.len());
                    Some(lookup.address_reservation(st.reservations.remove(i)))
                } else {
                    None
                };
                b.new_account_advanced(owner(rng), r)
            }
            20 => {
                ops.push("builder:create_fungible_resource");
                b.create_fungible_resource(
                    owner(rng),
                    rng.bool(),
                    rng.below(19) as u8,
                    FungibleResourceRoles::default(),
                    metadata(rng),
                    if rng.bool() { Some(amount(rng)) } else { None },
                )
            }
            21 => {
                ops.push("builder:new_token_fixed");
                b.new_token_fixed(owner(rng), metadata(rng), amount(rng))
            }
            22 => {
                ops.push("builder:set_metadata");
                let key = if rng.bool() { hostile_string(rng) } else { ident(rng, 1, 8) };
                match rng.below(3) {
                    0 => b.set_metadata(global_address(rng), key, MetadataValue::String(hostile_string(rng))),
                    1 => b.set_metadata(global_address(rng), key, MetadataValue::Decimal(decimal(rng))),
                    _ => b.set_metadata(global_address(rng), key, MetadataValue::NonFungibleLocalId(nf_local_id(rng))),
                }
            }
            23 => match st.take_unlocked_bucket(rng) {
                Some(n) => {
                    ops.push("builder:create_access_controller");
                    b.create_access_controller(lookup.bucket(n), rule(rng), rule(rng), rule(rng), if rng.bool() { Some(rng.u32()) } else { None })
                }
                None => b,
            },
            24 => {
                ops.push("builder:mint_fungible");
                b.mint_fungible(f_resource(rng), amount(rng))
            }
            25 => {
                ops.push("builder:try_deposit_entire_worktop_or_abort");
                let badge = match rng.below(3) {
                    0 => None,
                    1 => Some(ResourceOrNonFungible::Resource(f_resource(rng))),
                    _ => Some(ResourceOrNonFungible::NonFungible(NonFungibleGlobalId::new(nf_resource(rng), nf_local_id(rng)))),
                };
                b.try_deposit_entire_worktop_or_abort(account(rng), badge)
            }
            26 => {
                ops.push("builder:withdraw_from_account");
                b.withdraw_from_account(account(rng), f_resource(rng), amount(rng))
            }
            27 => {
                ops.push("builder:create_proof_from_account_of_amount");
                b.create_proof_from_account_of_amount(account(rng), f_resource(rng), amount(rng))
            }
            28 => {
                ops.push("builder:set_component_royalty");
                let amt = match rng.below(3) {
                    0 => RoyaltyAmount::Free,
                    1 => RoyaltyAmount::Xrd(amount(rng)),
                    _ => RoyaltyAmount::Usd(amount(rng)),
                };
                b.set_component_royalty(component(rng), ident(rng, 1, 8), amt)
            }
            29 => {
                ops.push("builder:recall");
                let vault = InternalAddress::new_or_panic(node_bytes(rng, EntityType::InternalFungibleVault));
                b.recall(vault, amount(rng))
            }
            30 => {
                ops.push("builder:claim_package_royalties");
                b.claim_package_royalties(package_address(rng))
            }
            31 => {
                ops.push("builder:publish_package_advanced");
                let r = if !st.reservations.is_empty() && rng.bool() {
                    let i = rng.usize_below(st.reservations.len());
                    Some(lookup.address_reservation(st.reservations.remove(i)))
                } else {
                    None
                };
                let n = rng.size(64);
                let code = rng.bytes(n);
                b.publish_package_advanced(r, code, PackageDefinition::default(), metadata_init!(), owner(rng))
            }
            32 => {
                ops.push("builder:set_role");
                b.set_role(global_address(rng), ModuleId::Main, RoleKey::new(ident(rng, 1, 8)), rule(rng))
            }
            _ => {
                ops.push("builder:create_identity");
                b.create_identity()
            }
        };
    }
    b
}

/// Consumes whatever the script left behind so that `build()` (which runs the static validator
/// and panics on failure) is happy; we use build_no_validate anyway, but keep manifests valid.
fn epilogue<M: BuildableManifest>(mut b: ManifestBuilder<M>, rng: &mut Rng, st: &mut Names, ops: &mut Vec<&'static str>) -> ManifestBuilder<M>
where
    M::Instruction: From<InstructionV1>,
{
    if !st.proofs.is_empty() {
        ops.push("builder:drop_all_proofs");
        while st.take_proof(rng).is_some() {}
        b = b.drop_all_proofs();
    }
    let lookup = b.name_lookup();
    while let Some(n) = st.take_unlocked_bucket(rng) {
        ops.push("builder:return_to_worktop");
        b = b.return_to_worktop(lookup.bucket(n));
    }
    for r in std::mem::take(&mut st.reservations) {
        ops.push("builder:new_account_advanced");
        b = b.new_account_advanced(OwnerRole::None, Some(lookup.address_reservation(r)));
    }
    ops.push("builder:try_deposit_entire_worktop_or_abort");
    b.try_deposit_entire_worktop_or_abort(account(rng), None)
}

fn v2_steps<M: BuildableManifestSupportingChildren>(mut b: ManifestBuilder<M>, rng: &mut Rng, st: &mut Names, steps: usize, ops: &mut Vec<&'static str>) -> ManifestBuilder<M>
where
    M::Instruction: From<InstructionV2> + From<InstructionV1>,
{
    for _ in 0..steps {
        let lookup = b.name_lookup();
        b = match rng.below(6) {
            0 if !st.children.is_empty() => {
                ops.push("builder:yield_to_child");
                let c = st.children[rng.usize_below(st.children.len())].clone();
                let bucket = if rng.bool() { st.take_unlocked_bucket(rng) } else { None };
                let d = decimal(rng);
                b.yield_to_child_with_name_lookup(lookup.intent(c), move |l| (bucket.map(|n| l.bucket(n)), d))
            }
            1 => {
                ops.push("builder:assert_worktop_resources_only");
                b.assert_worktop_resources_only(ManifestResourceConstraints::new().with_at_least_amount(f_resource(rng), amount(rng)))
            }
            2 => {
                ops.push("builder:assert_next_call_returns_only+call");
                b.assert_next_call_returns_only(ManifestResourceConstraints::new().with_exact_amount(f_resource(rng), amount(rng)))
                    .call_method(component(rng), ident(rng, 1, 8), (rng.u8(),))
            }
            3 => {
                if st.buckets.is_empty() {
                    b
                } else {
                    ops.push("builder:assert_bucket_contents");
                    let bn = st.buckets[rng.usize_below(st.buckets.len())].0.clone();
                    b.assert_bucket_contents(lookup.bucket(bn), ManifestResourceConstraint::NonZeroAmount)
                }
            }
            4 => {
                ops.push("builder:assert_worktop_is_empty");
                b.assert_worktop_is_empty()
            }
            _ => common_steps(b, rng, st, 1, ops),
        };
    }
    b
}

fn child_hash(rng: &mut Rng) -> SubintentHash {
    let mut h = [0u8; 32];
    rng.fill(&mut h);
    SubintentHash::from_hash(Hash(h))
}

pub fn build(rng: &mut Rng, kind: Kind) -> (AnyManifest, Vec<&'static str>) {
    let mut st = Names::default();
    let mut ops = vec![];
    let steps = *rng.pick(&[2usize, 5, 12, 30]);
    let m: AnyManifest = match kind {
        Kind::V1 => {
            let b = ManifestBuilder::new_v1();
            let b = common_steps(b, rng, &mut st, steps, &mut ops);
            epilogue(b, rng, &mut st, &mut ops).build_no_validate().into()
        }
        Kind::SystemV1 => {
            let mut b = ManifestBuilder::new_system_v1();
            let n = rng.size(3);
            for _ in 0..n {
                ops.push("builder:preallocate_address");
                let r = st.fresh(rng, "reservation");
                st.reservations.push(r.clone());
                b = b.preallocate_address(r, global_address(rng), package_address(rng), ident(rng, 1, 10));
            }
            let b = common_steps(b, rng, &mut st, steps, &mut ops);
            epilogue(b, rng, &mut st, &mut ops).build_no_validate().into()
        }
        Kind::V2 => {
            let mut b = ManifestBuilder::new_v2();
            let n = rng.size(3);
            for _ in 0..n {
                ops.push("builder:use_child");
                let c = st.fresh(rng, "intent");
                st.children.push(c.clone());
                b = b.use_child(c, child_hash(rng));
            }
            let b = v2_steps(b, rng, &mut st, steps, &mut ops);
            epilogue(b, rng, &mut st, &mut ops).build_no_validate().into()
        }
        Kind::SubintentV2 => {
            let mut b = ManifestBuilder::new_subintent_v2();
            let n = rng.size(3);
            for _ in 0..n {
                ops.push("builder:use_child");
                let c = st.fresh(rng, "intent");
                st.children.push(c.clone());
                b = b.use_child(c, child_hash(rng));
            }
            if rng.bool() {
                ops.push("builder:verify_parent");
                b = b.verify_parent(rule(rng));
            }
            let b = v2_steps(b, rng, &mut st, steps, &mut ops);
            let b = epilogue(b, rng, &mut st, &mut ops);
            ops.push("builder:yield_to_parent");
            b.yield_to_parent((decimal(rng), hostile_string(rng))).build_no_validate().into()
        }
    };
    (m, ops)
}
