//! C31: compiling any text as any manifest kind returns a manifest or an error, rendering the
//! error succeeds in both styles, nothing panics, and the answers are repeatable.
use crate::gen::*;
use radix_common::prelude::*;
use radix_transactions::manifest::*;
use rv_common::*;
use serde_json::{json, Value as J};
use std::time::Duration;

fn network() -> NetworkDefinition {
    NetworkDefinition::simulator()
}

fn variant_name<T: std::fmt::Debug>(t: &T) -> String {
    let s = format!("{t:?}");
    s.split(|c: char| !(c.is_alphanumeric() || c == '_')).next().unwrap_or("").to_string()
}

pub fn error_class(e: &CompileError) -> String {
    match e {
        CompileError::LexerError(l) => format!("lexer:{}", variant_name(&l.error_kind)),
        CompileError::ParserError(p) => format!("parser:{}", variant_name(&p.error_kind)),
        CompileError::GeneratorError(g) => match &g.error_kind {
            generator::GeneratorErrorKind::NameResolverError(n) => format!("generator:NameResolverError:{}", variant_name(n)),
            generator::GeneratorErrorKind::IdValidationError { err, .. } => format!("generator:IdValidationError:{}", variant_name(err)),
            generator::GeneratorErrorKind::ManifestBuildError(b) => format!("generator:ManifestBuildError:{}", variant_name(b)),
            k => format!("generator:{}", variant_name(k)),
        },
    }
}

const STYLES: [(CompileErrorDiagnosticsStyle, &str); 2] =
    [(CompileErrorDiagnosticsStyle::PlainText, "plain"), (CompileErrorDiagnosticsStyle::TextTerminalColors, "colors")];

#[derive(Default)]
pub struct CaseResult {
    /// "ok" or the error class
    pub outcome: String,
    /// (signature, detail)
    pub violations: Vec<(String, J)>,
    pub rendered: u32,
}

fn compile(text: &str, kind: Kind, mock_blobs: bool) -> Result<Result<AnyManifest, CompileError>, PanicInfo> {
    let net = network();
    catch(std::panic::AssertUnwindSafe(|| {
        if mock_blobs {
            compile_any_manifest(text, kind.manifest_kind(), &net, MockBlobProvider::new())
        } else {
            compile_any_manifest(text, kind.manifest_kind(), &net, BlobProvider::new())
        }
    }))
}

fn render(text: &str, e: &CompileError, style: CompileErrorDiagnosticsStyle) -> Result<String, PanicInfo> {
    let e = e.clone();
    catch(std::panic::AssertUnwindSafe(|| compile_error_diagnostics(text, e, style)))
}

/// Does the diagnostics panic disappear when every '\r' is replaced by a space (same number of
/// characters, so the same spans; the lexer treats both as white space)? Then the carriage
/// returns are what breaks the renderer.
fn is_cr_specific(text: &str, kind: Kind, mock_blobs: bool, style: CompileErrorDiagnosticsStyle) -> bool {
    if !text.contains('\r') {
        return false;
    }
    let control: String = text.chars().map(|c| if c == '\r' { ' ' } else { c }).collect();
    match compile(&control, kind, mock_blobs) {
        Ok(Err(e)) => render(&control, &e, style).is_ok(),
        _ => false,
    }
}

pub fn check_case(text: &str, kind: Kind, mock_blobs: bool) -> CaseResult {
    let mut out = CaseResult::default();
    let r1 = compile(text, kind, mock_blobs);
    let r2 = compile(text, kind, mock_blobs);
    let r1 = match r1 {
        Err(p) => {
            out.outcome = "compile-panic".into();
            out.violations.push((format!("compile-panic:{}", panic_site(&p)), json!({"panic": p.summary()})));
            return out;
        }
        Ok(r) => r,
    };
    match r2 {
        Ok(r2) if r2 == r1 => {}
        Ok(_) => out.violations.push(("nondeterministic:compile".into(), json!({}))),
        Err(p) => out.violations.push((format!("compile-panic:{}", panic_site(&p)), json!({"panic": p.summary(), "second_call_only": true}))),
    }
    let e = match r1 {
        Ok(_) => {
            out.outcome = "ok".into();
            return out;
        }
        Err(e) => e,
    };
    out.outcome = error_class(&e);
    for (style, sname) in STYLES {
        let d1 = render(text, &e, style);
        let d2 = render(text, &e, style);
        match (&d1, &d2) {
            (Ok(a), Ok(b)) => {
                out.rendered += 1;
                if a != b {
                    out.violations.push((format!("nondeterministic:diagnostics:{sname}"), json!({"first": a, "second": b})));
                }
                if a.is_empty() {
                    out.violations.push((format!("diagnostics-empty:{sname}"), json!({})));
                }
            }
            (Err(p), _) | (_, Err(p)) => {
                let sig = if is_cr_specific(text, kind, mock_blobs, style) {
                    "diagnostics-panic:crlf-line-endings".to_string()
                } else {
                    format!("diagnostics-panic:{}", panic_site(&p))
                };
                out.violations.push((sig, json!({"panic": p.summary(), "style": sname, "error": format!("{e:?}")})));
            }
        }
    }
    // the convenience entry point must agree with the two-step path
    let net = network();
    let pretty = catch(std::panic::AssertUnwindSafe(|| {
        if mock_blobs {
            compile_any_manifest_with_pretty_error(text, kind.manifest_kind(), &net, MockBlobProvider::new(), CompileErrorDiagnosticsStyle::PlainText)
        } else {
            compile_any_manifest_with_pretty_error(text, kind.manifest_kind(), &net, BlobProvider::new(), CompileErrorDiagnosticsStyle::PlainText)
        }
    }));
    match pretty {
        Ok(Err(s)) => {
            if let Ok(d) = render(text, &e, CompileErrorDiagnosticsStyle::PlainText) {
                if d != s {
                    out.violations.push(("nondeterministic:pretty-error-differs".into(), json!({"pretty": s, "two_step": d})));
                }
            }
        }
        Ok(Ok(_)) => out.violations.push(("nondeterministic:pretty-error-compiled".into(), json!({}))),
        Err(p) => {
            // already reported by the two-step path when it is the same panic; report only if the two-step path rendered fine
            if out.violations.is_empty() {
                let sig = if is_cr_specific(text, kind, mock_blobs, CompileErrorDiagnosticsStyle::PlainText) {
                    "diagnostics-panic:crlf-line-endings".to_string()
                } else {
                    format!("diagnostics-panic:{}", panic_site(&p))
                };
                out.violations.push((sig, json!({"panic": p.summary(), "entry": "compile_any_manifest_with_pretty_error"})));
            }
        }
    }
    out
}

// ---------------------------------------------------------------------------------------------
// W-TEXT
// ---------------------------------------------------------------------------------------------
const INSTRUCTIONS: &[&str] = &[
    "USE_CHILD", "USE_PREALLOCATED_ADDRESS", "TAKE_FROM_WORKTOP", "TAKE_NON_FUNGIBLES_FROM_WORKTOP", "TAKE_ALL_FROM_WORKTOP", "RETURN_TO_WORKTOP",
    "BURN_RESOURCE", "ASSERT_WORKTOP_CONTAINS_ANY", "ASSERT_WORKTOP_CONTAINS", "ASSERT_WORKTOP_CONTAINS_NON_FUNGIBLES", "ASSERT_WORKTOP_IS_EMPTY",
    "ASSERT_WORKTOP_RESOURCES_ONLY", "ASSERT_WORKTOP_RESOURCES_INCLUDE", "ASSERT_NEXT_CALL_RETURNS_ONLY", "ASSERT_NEXT_CALL_RETURNS_INCLUDE",
    "ASSERT_BUCKET_CONTENTS", "CREATE_PROOF_FROM_BUCKET_OF_AMOUNT", "CREATE_PROOF_FROM_BUCKET_OF_NON_FUNGIBLES", "CREATE_PROOF_FROM_BUCKET_OF_ALL",
    "CREATE_PROOF_FROM_AUTH_ZONE_OF_AMOUNT", "CREATE_PROOF_FROM_AUTH_ZONE_OF_NON_FUNGIBLES", "CREATE_PROOF_FROM_AUTH_ZONE_OF_ALL", "CLONE_PROOF",
    "DROP_PROOF", "PUSH_TO_AUTH_ZONE", "POP_FROM_AUTH_ZONE", "DROP_AUTH_ZONE_PROOFS", "DROP_AUTH_ZONE_REGULAR_PROOFS",
    "DROP_AUTH_ZONE_SIGNATURE_PROOFS", "DROP_NAMED_PROOFS", "DROP_ALL_PROOFS", "CALL_FUNCTION", "CALL_METHOD", "CALL_ROYALTY_METHOD",
    "CALL_METADATA_METHOD", "CALL_ROLE_ASSIGNMENT_METHOD", "CALL_DIRECT_VAULT_METHOD", "ALLOCATE_GLOBAL_ADDRESS", "YIELD_TO_PARENT", "YIELD_TO_CHILD",
    "VERIFY_PARENT", "RECALL_FROM_VAULT", "FREEZE_VAULT", "UNFREEZE_VAULT", "RECALL_NON_FUNGIBLES_FROM_VAULT", "PUBLISH_PACKAGE",
    "PUBLISH_PACKAGE_ADVANCED", "CREATE_FUNGIBLE_RESOURCE", "CREATE_FUNGIBLE_RESOURCE_WITH_INITIAL_SUPPLY", "CREATE_NON_FUNGIBLE_RESOURCE",
    "CREATE_NON_FUNGIBLE_RESOURCE_WITH_INITIAL_SUPPLY", "CREATE_ACCESS_CONTROLLER", "CREATE_IDENTITY", "CREATE_IDENTITY_ADVANCED", "CREATE_ACCOUNT",
    "CREATE_ACCOUNT_ADVANCED", "SET_METADATA", "REMOVE_METADATA", "LOCK_METADATA", "SET_COMPONENT_ROYALTY", "LOCK_COMPONENT_ROYALTY",
    "CLAIM_COMPONENT_ROYALTIES", "SET_OWNER_ROLE", "LOCK_OWNER_ROLE", "SET_ROLE", "CLAIM_PACKAGE_ROYALTIES", "MINT_FUNGIBLE", "MINT_NON_FUNGIBLE",
    "MINT_RUID_NON_FUNGIBLE", "CREATE_VALIDATOR",
];
const VALUE_IDENTS: &[&str] = &[
    "Enum", "Array", "Tuple", "Map", "Some", "None", "Ok", "Err", "Bytes", "NonFungibleGlobalId", "Address", "Bucket", "Proof", "Expression", "Blob",
    "Decimal", "PreciseDecimal", "NonFungibleLocalId", "AddressReservation", "NamedAddress", "Intent", "NamedIntent", "Bool", "I8", "I16", "I32", "I64",
    "I128", "U8", "U16", "U32", "U64", "U128", "String", "true", "false", "Option::Some", "Option::None", "Result::Ok", "Metadata::String",
    "AccessRule::AllowAll", "Nope::Nope", "Metadata::",
];
const PUNCT: &[&str] = &["(", ")", "<", ">", ",", ";", "=>", "=", "&", "{", "}", "#", "\"", "-", ":", "::", "\\"];
const LITERALS: &[&str] = &[
    "0u8", "255u8", "256u8", "-1i8", "-129i8", "1u32", "01u32", "-0i32", "1i128", "340282366920938463463374607431768211455u128",
    "340282366920938463463374607431768211456u128", "-170141183460469231731687303715884105728i128", "1u7", "1i", "1", "-", "12ab", "1u128x",
    "\"\"", "\"a\"", "\"\\n\"", "\"\\u0041\"", "\"\\ud83d\\ude00\"", "\"\\ud83d\"", "\"\\ud83dx\"", "\"\\udc00\\udc00\"", "\"\\uZZZZ\"", "\"\\q\"",
    "\"unterminated", "\"ENTIRE_WORKTOP\"", "\"ENTIRE_AUTH_ZONE\"", "\"1.5\"", "\"#1#\"", "\"<abc>\"", "\"[abcd]\"", "\"{1111111111111111-1111111111111111-1111111111111111-1111111111111111}\"",
    "\"resource_sim1tknxxxxxxxxxradxrdxxxxxxxxx009923554798xxxxxxxxxakj8n3\"", "\"resource_sim1tknxxxxxxxxxradxrdxxxxxxxxx009923554798xxxxxxxxxakj8n3:#1#\"",
    "\"package_sim1pkgxxxxxxxxxpackgexxxxxxxxx000726633226xxxxxxxxxlk8hc9\"", "\"5b4b01a4a3892ea3751793da57f072ae08eec694ddcda872239fc8239e4bcd1b\"", "\"deadbeef\"", "\"xyz\"",
    "\"bucket1\"", "\"proof1\"", "\"reservation1\"", "\"address1\"", "\"intent1\"",
];
/// Statements that reach rarer generator errors (each is LF text; they get mutated / re-ended too).
const CRAFTED: &[&str] = &[
    "CALL_METHOD Address(\"component_sim1cptxxxxxxxxxfaucetxxxxxxxxx000527798379xxxxxxxxxhkrefh\") \"f\" Array<Intent>();\n",
    "CALL_METHOD Address(\"component_sim1cptxxxxxxxxxfaucetxxxxxxxxx000527798379xxxxxxxxxhkrefh\") \"f\" Map<NamedIntent, U8>();\n",
    "CALL_METHOD Address(\"component_sim1cptxxxxxxxxxfaucetxxxxxxxxx000527798379xxxxxxxxxhkrefh\") \"f\" Tuple(Intent(\"x\"));\n",
    "CALL_METHOD Address(\"component_sim1cptxxxxxxxxxfaucetxxxxxxxxx000527798379xxxxxxxxxhkrefh\") \"f\" NamedIntent(\"x\");\n",
    "TAKE_NON_FUNGIBLES_FROM_WORKTOP\n    Address(\"resource_sim1tknxxxxxxxxxradxrdxxxxxxxxx009923554798xxxxxxxxxakj8n3\")\n    Array<U8>()\n    Bucket(\"b\")\n;\n",
    "RETURN_TO_WORKTOP Bucket(5u32);\n",
    "DROP_PROOF Proof(3u32);\n",
    "CLONE_PROOF Proof(3u32) Proof(\"p\");\n",
    "CALL_METHOD Address(\"component_sim1cptxxxxxxxxxfaucetxxxxxxxxx000527798379xxxxxxxxxhkrefh\") \"f\" AddressReservation(9u32) NamedAddress(7u32);\n",
    "CALL_METHOD Address(\"component_sim1cptxxxxxxxxxfaucetxxxxxxxxx000527798379xxxxxxxxxhkrefh\") \"f\" NamedAddress(7u32);\n",
    "CALL_METHOD NamedAddress(7u32) \"f\";\n",
    "CALL_FUNCTION NamedAddress(\"nope\") \"B\" \"f\";\n",
    "USE_CHILD NamedIntent(\"a\") Intent(\"subtxid_sim1lgheg0xznpqxzaes25pppu9409wur2pqwgl958yy6ncyjc9r9v8sxu2lxx\");\nUSE_CHILD NamedIntent(\"b\") Intent(\"subtxid_sim1lgheg0xznpqxzaes25pppu9409wur2pqwgl958yy6ncyjc9r9v8sxu2lxx\");\n",
    "USE_CHILD NamedIntent(\"a\") Intent(\"subtxid_sim1lgheg0xznpqxzaes25pppu9409wur2pqwgl958yy6ncyjc9r9v8sxu2lxx\");\nYIELD_TO_CHILD NamedIntent(\"a\") Proof(0u32);\nYIELD_TO_CHILD NamedIntent(\"zz\");\n",
    "TAKE_ALL_FROM_WORKTOP Address(\"resource_sim1tknxxxxxxxxxradxrdxxxxxxxxx009923554798xxxxxxxxxakj8n3\") Bucket(\"b\");\nCREATE_PROOF_FROM_BUCKET_OF_ALL Bucket(\"b\") Proof(\"p\");\nRETURN_TO_WORKTOP Bucket(\"b\");\n",
    "ASSERT_BUCKET_CONTENTS Bucket(1u32) Enum<0u8>();\n",
    "VERIFY_PARENT Enum<9u8>();\n",
    "ASSERT_WORKTOP_RESOURCES_ONLY Map<Address, Enum>(Address(\"resource_sim1tknxxxxxxxxxradxrdxxxxxxxxx009923554798xxxxxxxxxakj8n3\") => Enum<77u8>());\n",
    "CALL_METHOD Address(\"component_sim1cptxxxxxxxxxfaucetxxxxxxxxx000527798379xxxxxxxxxhkrefh\") \"f\" Array<U8>(1u16);\n",
    "CALL_METHOD Address(\"component_sim1cptxxxxxxxxxfaucetxxxxxxxxx000527798379xxxxxxxxxhkrefh\") \"f\" Bytes(1u8) Decimal(1u8) PreciseDecimal(Tuple()) Blob(\"00\") Expression(\"X\") NonFungibleLocalId(\"?\") NonFungibleGlobalId(\"x:y\");\n",
];
const WIDE_CHARS: &[char] = &['é', 'ß', '中', '\u{1f600}', '\u{10ffff}', '\u{301}', '\u{200f}', '\u{feff}', '\u{a0}', '\u{fffd}'];
const BREAK_CHARS: &[&str] = &["\n", "\r\n", "\r", "\u{85}", "\u{2028}", "\u{2029}", "\u{b}", "\u{c}", "\n\r", "\r\r\n"];

fn vocab_token(rng: &mut Rng) -> String {
    match rng.below(10) {
        0 | 1 => (*rng.pick(INSTRUCTIONS)).to_string(),
        2 | 3 => (*rng.pick(VALUE_IDENTS)).to_string(),
        4 | 5 => (*rng.pick(PUNCT)).to_string(),
        6 | 7 => (*rng.pick(LITERALS)).to_string(),
        8 => format!("\"{}\"", hostile_string(rng).replace('"', "\\\"")),
        _ => ident(rng, 1, 10),
    }
}

/// Splits into tokens the way a reader would: words, string literals, single punctuation marks,
/// runs of white space (kept, so that join() reproduces the text).
fn rough_tokens(s: &str) -> Vec<String> {
    let cs: Vec<char> = s.chars().collect();
    let mut out = vec![];
    let mut i = 0;
    while i < cs.len() {
        let c = cs[i];
        let start = i;
        if c.is_alphanumeric() || c == '_' {
            while i < cs.len() && (cs[i].is_alphanumeric() || cs[i] == '_' || cs[i] == ':') {
                i += 1;
            }
        } else if c == '"' {
            i += 1;
            while i < cs.len() && cs[i] != '"' {
                if cs[i] == '\\' {
                    i += 1;
                }
                i += 1;
            }
            i = (i + 1).min(cs.len());
        } else if c.is_whitespace() {
            while i < cs.len() && cs[i].is_whitespace() {
                i += 1;
            }
        } else {
            i += 1;
        }
        out.push(cs[start..i].iter().collect());
    }
    out
}

fn seed_text(rng: &mut Rng) -> (String, Kind) {
    let net = network();
    for _ in 0..20 {
        let kind = *rng.pick(&KINDS);
        let cfg = ManifestCfg {
            kind,
            max_instructions: *rng.pick(&[2usize, 6, 14, 30]),
            fault_pm: 0,
            cleanup_pct: 60,
            value: ValueCfg { max_depth: *rng.pick(&[2usize, 3, 5]), allow_proofs: true, allow_owned: true, max_width: 4 },
            tuple_args_only: true,
            names: if rng.bool() { NamePolicy::Unknown } else { NamePolicy::KnownFull },
            invalid_constraints: false,
            extra_blobs: false,
            aliases: true,
            deep_chain_pct: 0,
            ill_formed_pct: 0,
        };
        let g = gen_manifest(rng, &cfg);
        if let Ok(t) = decompile_any(&g.manifest, &net) {
            if !t.is_empty() {
                return (t, kind);
            }
        }
    }
    ("CALL_METHOD\n    Address(\"component_sim1cptxxxxxxxxxfaucetxxxxxxxxx000527798379xxxxxxxxxhkrefh\")\n    \"free\"\n;\n".to_string(), Kind::V1)
}

fn mutate_chars(rng: &mut Rng, s: &str, n: usize) -> String {
    let mut cs: Vec<char> = s.chars().collect();
    for _ in 0..n {
        if cs.is_empty() {
            cs.push('x');
        }
        let pos = rng.usize_below(cs.len());
        match rng.below(9) {
            0 => {
                cs.remove(pos);
            }
            1 => cs.insert(pos, *rng.pick(WIDE_CHARS)),
            2 => cs[pos] = *rng.pick(WIDE_CHARS),
            3 => cs.insert(pos, *rng.pick(&['"', '\\', '(', ')', '<', '>', ',', ';', '#', '=', '-', '0', 'u', ' '])),
            4 => cs[pos] = *rng.pick(&['"', '\\', '(', ')', '<', '>', ',', ';', '#', '=', '-', '0', 'x', ' ']),
            5 => cs.truncate(pos),
            6 => {
                // wide char right before and after an ASCII edit
                cs.insert(pos, *rng.pick(WIDE_CHARS));
                cs.insert(pos, '?');
                cs.insert(pos, *rng.pick(WIDE_CHARS));
            }
            7 => {
                let len = rng.size(30).min(cs.len() - pos);
                let slice: Vec<char> = cs[pos..pos + len].to_vec();
                let at = rng.usize_below(cs.len() + 1);
                for (k, c) in slice.into_iter().enumerate() {
                    cs.insert((at + k).min(cs.len()), c);
                }
            }
            _ => {
                let b: Vec<char> = rng.pick(BREAK_CHARS).chars().collect();
                for (k, c) in b.into_iter().enumerate() {
                    cs.insert(pos + k, c);
                }
            }
        }
    }
    cs.into_iter().collect()
}

fn mutate_tokens(rng: &mut Rng, s: &str, n: usize) -> String {
    let mut toks = rough_tokens(s);
    for _ in 0..n {
        if toks.is_empty() {
            toks.push(vocab_token(rng));
        }
        let pos = rng.usize_below(toks.len());
        match rng.below(8) {
            6 | 7 => {
                // edit inside a string literal (contents of addresses, decimals, hex, ids ...):
                // wide characters, truncation, doubling
                let lits: Vec<usize> = (0..toks.len()).filter(|i| toks[*i].starts_with('"') && toks[*i].chars().count() >= 2).collect();
                if let Some(&li) = lits.get(rng.usize_below(lits.len().max(1))) {
                    let mut cs: Vec<char> = toks[li].chars().collect();
                    let inner = cs.len() - 1;
                    let at = 1 + rng.usize_below(inner.max(1));
                    match rng.below(5) {
                        0 | 1 => cs.insert(at.min(cs.len() - 1), *rng.pick(WIDE_CHARS)),
                        2 => {
                            if at < cs.len() - 1 {
                                cs[at] = *rng.pick(WIDE_CHARS)
                            }
                        }
                        3 => {
                            cs.truncate(at);
                            cs.push('"');
                        }
                        _ => {
                            let w = *rng.pick(WIDE_CHARS);
                            for k in (1..cs.len() - 1).rev().step_by(7) {
                                cs.insert(k, w);
                            }
                        }
                    }
                    toks[li] = cs.into_iter().collect();
                }
            }
            0 => {
                toks.remove(pos);
            }
            1 => {
                let t = toks[pos].clone();
                toks.insert(pos, t);
            }
            2 => toks[pos] = vocab_token(rng),
            3 => {
                let other = rng.usize_below(toks.len());
                toks.swap(pos, other);
            }
            4 => toks.insert(pos, vocab_token(rng)),
            _ => toks.truncate(pos + 1),
        }
    }
    toks.concat()
}

/// Re-writes the line endings of an LF text.
fn line_endings(rng: &mut Rng, s: &str, mode: u64) -> String {
    let mut out = String::with_capacity(s.len() + 64);
    for c in s.chars() {
        if c == '\n' {
            match mode {
                0 => out.push_str("\r\n"),
                1 => out.push('\r'),
                2 => out.push_str(*rng.pick(&["\n", "\r\n", "\r"])),
                3 => out.push('\u{85}'),
                4 => out.push('\u{2028}'),
                5 => out.push_str(*rng.pick(BREAK_CHARS)),
                _ => out.push_str(if rng.chance(1, 10) { "\r\n" } else { "\n" }),
            }
        } else {
            out.push(c);
        }
    }
    out
}

fn deep_text(rng: &mut Rng) -> String {
    let depth = *rng.pick(&[5usize, 18, 19, 20, 21, 22, 24, 25, 40, 200, 2000]);
    let (open, close): (&str, &str) = match rng.below(6) {
        0 => ("Tuple(", ")"),
        1 => ("Enum<1u8>(", ")"),
        2 => ("Some(", ")"),
        3 => ("Array<Array>(", ")"),
        4 => ("Map<U8, Map>(1u8 => ", ")"),
        _ => ("Array<", ">"),
    };
    let mut s = String::from("CALL_METHOD Address(\"component_sim1cptxxxxxxxxxfaucetxxxxxxxxx000527798379xxxxxxxxxhkrefh\") \"f\" ");
    for _ in 0..depth {
        s.push_str(open);
    }
    s.push_str(*rng.pick(&["1u8", "Decimal(\"1\")", "", "Bytes(\"00\")", "\"é\""]));
    let closes = match rng.below(4) {
        0 => depth.saturating_sub(1),
        1 => depth + 1,
        _ => depth,
    };
    for _ in 0..closes {
        s.push_str(close);
    }
    s.push_str(*rng.pick(&[";", ";\n", "", "\r\n;"]));
    s
}

const FAUCET_ADDR: &str = "component_sim1cptxxxxxxxxxfaucetxxxxxxxxx000527798379xxxxxxxxxhkrefh";
const TWO_BYTE: &[char] = &['é', 'ß', 'Ω', 'ñ', 'ж', '\u{a0}'];
const THREE_BYTE: &[char] = &['中', '€', '∑', '한', '\u{2028}', '\u{fffd}'];
const FOUR_BYTE: &[char] = &['\u{1f600}', '\u{1d11e}', '\u{10ffff}', '\u{20000}', '\u{1f1e9}'];

fn wide_run(rng: &mut Rng, n: usize) -> String {
    let mode = rng.below(4);
    (0..n)
        .map(|_| match mode {
            0 => *rng.pick(TWO_BYTE),
            1 => *rng.pick(THREE_BYTE),
            2 => *rng.pick(FOUR_BYTE),
            _ => match rng.below(3) {
                0 => *rng.pick(TWO_BYTE),
                1 => *rng.pick(THREE_BYTE),
                _ => *rng.pick(FOUR_BYTE),
            },
        })
        .collect()
}

/// LF text of 8-40 lines: lines full of multi-byte characters (comments, long string literals in
/// valid instructions) first, then plain valid lines, then ONE injected error. The diagnostics
/// excerpt starts 5 lines above the error: the heavy lines sit `gap` lines above it, i.e. outside
/// the excerpt (gap >= 6: their characters are only *counted*) or inside it (gap <= 5). The
/// surplus of bytes over chars in the skipped lines (50-2000 chars of 2-4 bytes) is far larger
/// than the excerpt, so a byte/char mix-up in the skipped-line arithmetic cannot stay in range.
/// Returns (text, heavy lines are outside the excerpt).
fn multibyte_above_excerpt(rng: &mut Rng) -> (String, bool) {
    let mut lines: Vec<String> = vec![];
    let plain = ["DROP_ALL_PROOFS;", "DROP_AUTH_ZONE_PROOFS;", "DROP_NAMED_PROOFS;", "", "# plain comment", "DROP_AUTH_ZONE_REGULAR_PROOFS;"];
    // optional plain preamble
    for _ in 0..rng.below(3) {
        lines.push((*rng.pick(&plain)).to_string());
    }
    let total_wide = *rng.pick(&[50usize, 80, 150, 300, 600, 1200, 2000]);
    let heavy = rng.range(1, 4) as usize;
    for h in 0..heavy {
        let n = if h + 1 == heavy { total_wide - (total_wide / heavy) * (heavy - 1) } else { total_wide / heavy };
        let w = wide_run(rng, n.max(1));
        lines.push(match rng.below(5) {
            0 | 1 => format!("# {w}"),
            2 => format!("CALL_METHOD Address(\"{FAUCET_ADDR}\") \"f\" \"{w}\";"),
            3 => format!("SET_METADATA Address(\"{FAUCET_ADDR}\") \"k\" Enum<Metadata::String>(\"{w}\");"),
            _ => format!("CALL_METHOD Address(\"{FAUCET_ADDR}\") \"{w}\" Tuple(\"{w}\", 1u8); # {w}"),
        });
    }
    // distance between the last heavy line and the faulty line
    let gap = *rng.pick(&[3usize, 4, 5, 6, 6, 6, 7, 7, 8, 10, 14, 20]);
    for _ in 1..gap {
        lines.push((*rng.pick(&plain)).to_string());
    }
    let indent = " ".repeat(rng.below(4) as usize);
    let (bad, eof_kind): (String, bool) = match rng.below(16) {
        // lexer
        0 => ("DROP_ALL_PROOFS; ~".into(), false),
        1 => ("DROP_ALL_PROOFS; 1u7;".into(), false),
        2 => (format!("CALL_METHOD Address(\"{FAUCET_ADDR}\") \"\\q\";"), false),
        3 => (format!("CALL_METHOD Address(\"{FAUCET_ADDR}\") \"f\" 300u8;"), false),
        4 => (format!("CALL_METHOD Address(\"{FAUCET_ADDR}\") \"unterminated"), true),
        // parser
        5 => ("FOO;".into(), false),
        6 => ("DROP_PROOF;".into(), false),
        7 => (format!("CALL_METHOD Address() \"f\";"), false),
        8 => (format!("CALL_METHOD Address(\"{FAUCET_ADDR}\") \"f\" Tuple(1u8"), true),
        9 => (format!("CALL_METHOD Address(\"{FAUCET_ADDR}\") \"f\""), true),
        10 => (format!("CALL_METHOD Address(\"{FAUCET_ADDR}\") \"f\" Enum<Nope::Nope>();"), false),
        // generator
        11 => ("DROP_PROOF Proof(\"nope\");".into(), false),
        12 => ("CALL_METHOD Address(\"bad\") \"f\";".into(), false),
        13 => ("RETURN_TO_WORKTOP Bucket(5u32);".into(), false),
        14 => (format!("CALL_METHOD Address(\"{FAUCET_ADDR}\") \"f\" Bytes(\"zz\") Decimal(\"x\");"), false),
        _ => (format!("CALL_METHOD Address(\"{FAUCET_ADDR}\") \"f\" Array<U8>(1u16);"), false),
    };
    lines.push(format!("{indent}{bad}"));
    // what follows the error: nothing (error at the very end), or a few plain lines
    let at_end = eof_kind || rng.chance(1, 3);
    let mut text = lines.join("\n");
    if !at_end {
        text.push('\n');
        let tail = rng.range(1, 8);
        for _ in 0..tail {
            text.push_str(*rng.pick(&plain));
            text.push('\n');
        }
    } else if rng.bool() {
        text.push('\n');
    }
    // pad to at least 8 lines in front if needed (keeps the gap)
    let have = text.lines().count();
    if have < 8 {
        let pad: String = (0..8 - have).map(|_| "DROP_ALL_PROOFS;\n").collect();
        text = format!("{pad}{text}");
    }
    (text, gap >= 6)
}

fn long_line_text(rng: &mut Rng) -> String {
    let n = *rng.pick(&[1_000usize, 10_000, 70_000]);
    let filler: String = match rng.below(5) {
        0 => "a".repeat(n),
        1 => "9".repeat(n),
        2 => "é".repeat(n),
        3 => "\u{1f600}".repeat(n / 4),
        _ => " ".repeat(n),
    };
    match rng.below(6) {
        0 => format!("CALL_METHOD Address(\"{filler}\") \"x\";"),
        1 => format!("CALL_METHOD Address(\"x\") \"{filler}\" {filler};"),
        2 => format!("{filler}u8;"),
        3 => format!("# {filler}\nDROP_ALL_PROOFS;{filler}?"),
        4 => format!("DROP_ALL_PROOFS;{filler}\"{filler}"),
        _ => format!("TAKE_ALL_FROM_WORKTOP Address(\"{filler}\") Bucket(\"b\"){filler};;"),
    }
}

/// Returns (class, text, suggested kind).
pub fn gen_text(rng: &mut Rng) -> (&'static str, String, Kind) {
    let any_kind = *rng.pick(&KINDS);
    match rng.below(100) {
        0..=4 => {
            let n = rng.size(200);
            let b = rng.bytes(n);
            ("random-bytes-lossy", String::from_utf8_lossy(&b).into_owned(), any_kind)
        }
        5..=7 => {
            let n = rng.size(60);
            let s: String = (0..n).map(|_| char::from_u32(rng.below(0x110000) as u32).unwrap_or('\u{fffd}')).collect();
            ("random-scalars", s, any_kind)
        }
        8..=19 => {
            let n = rng.size(40);
            let mut s = String::new();
            for _ in 0..n {
                s.push_str(&vocab_token(rng));
                s.push_str(match rng.below(8) {
                    0 => "\n",
                    1 => "\r\n",
                    2 => "",
                    3 => "\t",
                    4 => "\r",
                    _ => " ",
                });
            }
            ("token-soup", s, any_kind)
        }
        20..=24 => ("deep-nesting", deep_text(rng), any_kind),
        25..=26 => ("long-line", long_line_text(rng), any_kind),
        27..=29 => {
            let (t, k) = seed_text(rng);
            ("valid-lf", t, k)
        }
        30..=37 => {
            let (t, k) = seed_text(rng);
            let mode = rng.below(7);
            ("valid-other-line-endings", line_endings(rng, &t, mode), k)
        }
        38..=57 => {
            let (t, k) = seed_text(rng);
            let n = rng.range(1, 5) as usize;
            let m = if rng.bool() { mutate_chars(rng, &t, n) } else { mutate_tokens(rng, &t, n) };
            ("mutant-lf", m, k)
        }
        58..=63 => {
            let (t, outside) = multibyte_above_excerpt(rng);
            (if outside { "multibyte-above-excerpt:outside-window" } else { "multibyte-above-excerpt:inside-window" }, t, any_kind)
        }
        64..=89 => {
            let (t, k) = seed_text(rng);
            let n = rng.range(1, 5) as usize;
            let m = if rng.bool() { mutate_chars(rng, &t, n) } else { mutate_tokens(rng, &t, n) };
            let mode = rng.below(7);
            // mutation first (on LF text), line endings second, sometimes the other way round
            let m = if rng.chance(1, 4) {
                let le = line_endings(rng, &t, mode);
                if rng.bool() {
                    mutate_chars(rng, &le, n)
                } else {
                    mutate_tokens(rng, &le, n)
                }
            } else {
                line_endings(rng, &m, mode)
            };
            ("mutant-other-line-endings", m, k)
        }
        90..=91 => {
            let mut t = String::new();
            let n = rng.range(1, 3);
            for _ in 0..n {
                t.push_str(*rng.pick(CRAFTED));
            }
            if rng.bool() {
                let (s, _) = seed_text(rng);
                t = if rng.bool() { format!("{s}{t}") } else { format!("{t}{s}") };
            }
            let mode = rng.below(8);
            let t = if mode < 7 { line_endings(rng, &t, mode) } else { t };
            let t = if rng.chance(1, 3) { mutate_chars(rng, &t, 1) } else { t };
            ("crafted-rare-errors", t, any_kind)
        }
        92..=94 => {
            // wrong kind for a valid text, pseudo instructions in the wrong place
            let (t, _) = seed_text(rng);
            let t = match rng.below(3) {
                0 => format!("{t}USE_CHILD NamedIntent(\"late\") Intent(\"subtxid_sim1qqqqqq\");\n"),
                1 => format!("{t}{t}"),
                _ => t,
            };
            ("valid-text-other-kind", t, any_kind)
        }
        _ => {
            // comments and white space only, BOM, empty
            let s = match rng.below(6) {
                0 => String::new(),
                1 => "\u{feff}DROP_ALL_PROOFS;".to_string(),
                2 => "# only a comment".to_string(),
                3 => "# comment é\r\n# another\r\n".to_string(),
                4 => " \t\r\n ".to_string(),
                _ => "#\r#\r#".to_string(),
            };
            ("trivia", s, any_kind)
        }
    }
}

pub fn spec() -> Spec {
    Spec::new(
        "C31",
        "exploration",
        "for every text and manifest kind: compile_any_manifest returns Ok/Err without panicking and the same value on a second call; for an Err, \
         compile_error_diagnostics (PlainText and TextTerminalColors) and compile_any_manifest_with_pretty_error return a non-empty string without \
         panicking, identically on a second call",
    )
    .assume("texts are valid Rust strings (UTF-8); blob providers: empty BlobProvider and MockBlobProvider")
    .floor("evaluations", 40_000)
    .floor("outcome:ok", 1_000)
    .floor("outcome_family:lexer", 3_000)
    .floor("outcome_family:parser", 3_000)
    .floor("outcome_family:generator", 1_000)
    .floor("diagnostics_rendered", 50_000)
    .floor("error_with_cr_in_text", 4_000)
    .floor("error_with_non_ascii_in_text", 4_000)
    .floor("error_classes_seen", 40)
    .floor("text:multibyte-above-excerpt:outside-window", 5_000)
    .floor("error:multibyte-above-excerpt:outside-window", 4_000)
    .floor("distinct_nontrivial", 20_000)
    .explain(
        "Each case = (text, kind, blob provider): 2 compiles, 2 x 2 renderings of the error, 1 pretty-error call. Texts: random bytes / scalars, token \
         soup from the lexer+parser vocabulary, decompiled valid manifests with 1-5 character or token mutations, LF / CRLF / CR / NEL / U+2028 / mixed \
         line endings, multi-byte characters next to the edit, 8-40 line texts whose first lines carry 50-2000 multi-byte characters 3-20 lines above one injected error (outside / inside the 5-line excerpt window), deep nesting around the parser limit, very long lines. distinct_nontrivial counts \
         distinct (text, kind).",
    )
}

pub fn run(args: &Args) -> Report {
    let mut report = Report::new(args, spec());
    let budget = Duration::from_secs(budget_secs(args.tier, 35, 540));
    let cap = scaled(args, args.tier.pick(2_500_000, 80_000_000)) / args.threads as u64 + 1;
    report.run_shards(31, args.threads, budget, |idx, rng, shard| {
        let mut i = 0u64;
        let mut evals = 0u64;
        while evals < cap && !shard.time_up() {
            i += 1;
            let mut crng = rng.fork();
            let (class, text, kind) = gen_text(&mut crng);
            let kinds: Vec<Kind> = if crng.chance(1, 8) { KINDS.to_vec() } else { vec![kind] };
            let mock = crng.chance(1, 3);
            let has_cr = text.contains('\r');
            let non_ascii = !text.is_ascii();
            for k in kinds {
                evals += 1;
                shard.eval();
                shard.nontrivial(&(&text, k.name()));
                shard.count(&format!("text:{class}"));
                shard.count(&format!("kind:{}", k.name()));
                let r = check_case(&text, k, mock);
                shard.seen("error_classes", &r.outcome);
                if r.outcome == "ok" {
                    shard.count("outcome:ok");
                } else {
                    let fam = r.outcome.split(':').next().unwrap_or("?").to_string();
                    shard.count(&format!("outcome_family:{fam}"));
                    if class.starts_with("multibyte-above-excerpt") {
                        shard.count(&format!("error:{class}"));
                        shard.seen("multibyte_above_excerpt_error_classes", &r.outcome);
                    }
                    if has_cr {
                        shard.count("error_with_cr_in_text");
                    }
                    if non_ascii {
                        shard.count("error_with_non_ascii_in_text");
                    }
                }
                shard.add("diagnostics_rendered", r.rendered as u64);
                shard.max("text_chars", text.chars().count() as u64);
                if r.outcome != "ok" {
                    shard.sample(|| json!({"class": class, "kind": k.name(), "outcome": r.outcome, "text_prefix": text.chars().take(80).collect::<String>()}));
                }
                for (sig, mut detail) in r.violations {
                    detail["text"] = json!(text);
                    detail["text_hex"] = json!(hex(text.as_bytes()));
                    detail["kind"] = json!(k.name());
                    detail["mock_blobs"] = json!(mock);
                    detail["class"] = json!(class);
                    detail["shard"] = json!(idx);
                    detail["iteration"] = json!(i);
                    shard.violation(sig, detail);
                }
            }
        }
    });
    let n = report.sets.get("error_classes").map(|s| s.len()).unwrap_or(0) as u64;
    report.counters.insert("error_classes_seen".into(), n);
    report
}

pub fn replay(_args: &Args, doc: &J) -> i32 {
    let bytes = unhex(doc["detail"]["text_hex"].as_str().unwrap_or(""));
    let text = String::from_utf8_lossy(&bytes).into_owned();
    let kind = Kind::from_name(doc["detail"]["kind"].as_str().unwrap_or("V1")).unwrap_or(Kind::V1);
    let mock = doc["detail"]["mock_blobs"].as_bool().unwrap_or(false);
    let r = check_case(&text, kind, mock);
    println!("REPLAY C31 kind={} outcome={} text={:?}", kind.name(), r.outcome, text.chars().take(200).collect::<String>());
    if r.violations.is_empty() {
        println!("REPLAY C31: no violation now");
        0
    } else {
        for (sig, d) in &r.violations {
            println!("REPLAY C31: still violates: {sig} {}", d);
        }
        1
    }
}

/// Shrinks a failing text: drops lines / characters while the same signature is reported.
pub fn minimize(text: &str, kind: Kind, mock: bool, sig: &str) -> String {
    let fails = |t: &str| check_case(t, kind, mock).violations.iter().any(|(s, _)| s == sig);
    let mut cur: Vec<char> = text.chars().collect();
    let mut chunk = (cur.len() / 2).max(1);
    while chunk >= 1 {
        let mut i = 0;
        let mut progressed = false;
        while i < cur.len() {
            let end = (i + chunk).min(cur.len());
            let mut cand = cur.clone();
            cand.drain(i..end);
            let s: String = cand.iter().collect();
            if fails(&s) {
                cur = cand;
                progressed = true;
            } else {
                i += chunk;
            }
        }
        if chunk == 1 && !progressed {
            break;
        }
        if !progressed {
            chunk /= 2;
        }
    }
    cur.into_iter().collect()
}
