//! C36 oracle: an independent, linear-scan lifecycle checker written from the property text.
//!
//! "A manifest passes static validation only if every bucket, proof, address reservation, named
//!  address, blob and child intent it uses was created or declared earlier and not yet consumed,
//!  nothing is consumed twice, and the manifest ends as its kind requires."
//!
//! The checker does not use `ManifestInstruction::effect()` nor any code of the static
//! interpreter / id validator: it pattern-matches the instruction structs and walks the argument
//! `ManifestValue` trees itself (in encoding order: tuple/enum fields and array elements left to
//! right, map entries key before value).
//!
//! `Rules` mirrors the *documented* switches of a `ValidationRuleset`: a clause whose switch is
//! off in the ruleset under test is not demanded (e.g. `validate_blob_refs = false`).
use radix_common::prelude::*;
use radix_transactions::manifest::*;
use radix_transactions::prelude::*;

#[derive(Clone, Copy, Debug)]
pub struct Rules {
    pub blob_refs: bool,
    pub bucket_proof_lock: bool,
    pub no_dangling_nodes: bool,
    pub dynamic_address_in_command_part: bool,
}

#[derive(Clone, Debug, PartialEq, Eq)]
pub struct Invalid {
    /// stable class, e.g. "bucket:unknown"
    pub class: &'static str,
    pub at: Option<usize>,
    /// name of the instruction at `at`
    pub at_op: String,
    pub detail: String,
}

impl Invalid {
    /// Coarse cause used in violation signatures: unknown / already consumed objects of one class
    /// are the same failure of the validator ("<object> not live").
    pub fn cause(&self) -> String {
        let coarse = match self.class {
            "bucket:unknown" | "bucket:already-consumed" => "bucket-not-live",
            "proof:unknown" | "proof:already-consumed" => "proof-not-live",
            "reservation:unknown" | "reservation:already-consumed" => "reservation-not-live",
            c => c,
        };
        if self.at.is_some() {
            format!("{coarse}@{}", self.at_op)
        } else {
            coarse.to_string()
        }
    }
}

#[derive(Default)]
struct State {
    /// per bucket: consumed?, number of live proofs created from it
    buckets: Vec<(bool, u32)>,
    /// per proof: consumed?, backing bucket
    proofs: Vec<(bool, Option<u32>)>,
    /// per reservation: consumed?
    reservations: Vec<bool>,
    named_addresses: u32,
    blobs: BTreeSet<[u8; 32]>,
    children: u32,
    is_subintent: bool,
}

type R = Result<(), Invalid>;
fn bad(class: &'static str, at: usize, detail: String) -> Invalid {
    Invalid { class, at: Some(at), at_op: String::new(), detail }
}

impl State {
    fn live_bucket(&self, at: usize, b: u32) -> R {
        match self.buckets.get(b as usize) {
            None => Err(bad("bucket:unknown", at, format!("bucket {b} was never created"))),
            Some((true, _)) => Err(bad("bucket:already-consumed", at, format!("bucket {b} already consumed"))),
            Some((false, _)) => Ok(()),
        }
    }
    fn consume_bucket(&mut self, at: usize, b: u32, rules: &Rules) -> R {
        self.live_bucket(at, b)?;
        if rules.bucket_proof_lock && self.buckets[b as usize].1 > 0 {
            return Err(bad("bucket:consumed-while-locked-by-proof", at, format!("bucket {b} has live proofs")));
        }
        self.buckets[b as usize].0 = true;
        Ok(())
    }
    fn live_proof(&self, at: usize, p: u32) -> R {
        match self.proofs.get(p as usize) {
            None => Err(bad("proof:unknown", at, format!("proof {p} was never created"))),
            Some((true, _)) => Err(bad("proof:already-consumed", at, format!("proof {p} already consumed"))),
            Some((false, _)) => Ok(()),
        }
    }
    fn consume_proof(&mut self, at: usize, p: u32) -> R {
        self.live_proof(at, p)?;
        self.proofs[p as usize].0 = true;
        if let Some(b) = self.proofs[p as usize].1 {
            let e = &mut self.buckets[b as usize];
            e.1 = e.1.saturating_sub(1);
        }
        Ok(())
    }
    fn new_proof(&mut self, at: usize, from: Option<u32>) -> R {
        if let Some(b) = from {
            self.live_bucket(at, b)?;
            self.buckets[b as usize].1 += 1;
        }
        self.proofs.push((false, from));
        Ok(())
    }
    fn consume_reservation(&mut self, at: usize, r: u32) -> R {
        match self.reservations.get(r as usize) {
            None => Err(bad("reservation:unknown", at, format!("reservation {r} was never created"))),
            Some(true) => Err(bad("reservation:already-consumed", at, format!("reservation {r} already consumed"))),
            Some(false) => {
                self.reservations[r as usize] = true;
                Ok(())
            }
        }
    }
    fn named_address(&self, at: usize, a: u32) -> R {
        if a < self.named_addresses {
            Ok(())
        } else {
            Err(bad("named-address:unknown", at, format!("named address {a} was never created")))
        }
    }

    fn walk(&mut self, at: usize, v: &ManifestValue, rules: &Rules) -> R {
        match v {
            ManifestValue::Tuple { fields } | ManifestValue::Enum { fields, .. } => {
                for f in fields {
                    self.walk(at, f, rules)?;
                }
            }
            ManifestValue::Array { elements, .. } => {
                for e in elements {
                    self.walk(at, e, rules)?;
                }
            }
            ManifestValue::Map { entries, .. } => {
                for (k, v) in entries {
                    self.walk(at, k, rules)?;
                    self.walk(at, v, rules)?;
                }
            }
            ManifestValue::Custom { value } => match value {
                ManifestCustomValue::Address(ManifestAddress::Named(a)) => self.named_address(at, a.0)?,
                ManifestCustomValue::Address(ManifestAddress::Static(_)) => {}
                ManifestCustomValue::Bucket(b) => self.consume_bucket(at, b.0, rules)?,
                ManifestCustomValue::Proof(p) => self.consume_proof(at, p.0)?,
                ManifestCustomValue::AddressReservation(r) => self.consume_reservation(at, r.0)?,
                ManifestCustomValue::Blob(b) => {
                    if rules.blob_refs && !self.blobs.contains(&b.0) {
                        return Err(bad("blob:undeclared", at, format!("blob {} not in the manifest", rv_common::hex(&b.0))));
                    }
                }
                ManifestCustomValue::Expression(_)
                | ManifestCustomValue::Decimal(_)
                | ManifestCustomValue::PreciseDecimal(_)
                | ManifestCustomValue::NonFungibleLocalId(_) => {}
            },
            _ => {}
        }
        Ok(())
    }
    fn dyn_global(&self, at: usize, a: &ManifestGlobalAddress, rules: &Rules) -> R {
        if let ManifestGlobalAddress::Named(n) = a {
            if rules.dynamic_address_in_command_part {
                self.named_address(at, n.0)?;
            }
        }
        Ok(())
    }
}

/// Checks the lifecycle of `manifest`. `Ok(())` = lifecycle valid as far as the property text
/// goes (it does not judge resource-constraint validity, proofs crossing intents etc.).
pub fn check(manifest: &AnyManifest, rules: &Rules) -> R {
    check_inner(manifest, rules).map_err(|mut e| {
        if let Some(at) = e.at {
            e.at_op = op_name(manifest, at);
        }
        e
    })
}

fn op_name(manifest: &AnyManifest, at: usize) -> String {
    let dbg = match manifest {
        AnyManifest::V1(m) => m.instructions.get(at).map(|i| format!("{i:?}")),
        AnyManifest::SystemV1(m) => m.instructions.get(at).map(|i| format!("{i:?}")),
        AnyManifest::V2(m) => m.instructions.get(at).map(|i| format!("{i:?}")),
        AnyManifest::SubintentV2(m) => m.instructions.get(at).map(|i| format!("{i:?}")),
    }
    .unwrap_or_default();
    dbg.split(|c: char| !(c.is_alphanumeric() || c == '_')).next().unwrap_or("").to_string()
}

fn check_inner(manifest: &AnyManifest, rules: &Rules) -> R {
    let mut st = State::default();
    let (instructions, n_prealloc): (Vec<InstructionV2>, usize) = match manifest {
        AnyManifest::V1(m) => {
            st.blobs = m.blobs.keys().map(|h| h.0).collect();
            (m.instructions.iter().cloned().map(Into::into).collect(), 0)
        }
        AnyManifest::SystemV1(m) => {
            st.blobs = m.blobs.keys().map(|h| h.0).collect();
            (m.instructions.iter().cloned().map(Into::into).collect(), m.preallocated_addresses.len())
        }
        AnyManifest::V2(m) => {
            st.blobs = m.blobs.keys().map(|h| h.0).collect();
            st.children = m.children.len() as u32;
            (m.instructions.clone(), 0)
        }
        AnyManifest::SubintentV2(m) => {
            st.blobs = m.blobs.keys().map(|h| h.0).collect();
            st.children = m.children.len() as u32;
            st.is_subintent = true;
            (m.instructions.clone(), 0)
        }
    };
    // pre-allocated addresses come with one reservation each, declared before instruction 0
    st.reservations = vec![false; n_prealloc];

    for (at, ins) in instructions.iter().enumerate() {
        use InstructionV2 as I;
        match ins {
            I::TakeFromWorktop(_) | I::TakeNonFungiblesFromWorktop(_) | I::TakeAllFromWorktop(_) => st.buckets.push((false, 0)),
            I::ReturnToWorktop(x) => st.consume_bucket(at, x.bucket_id.0, rules)?,
            I::BurnResource(x) => st.consume_bucket(at, x.bucket_id.0, rules)?,
            I::AssertWorktopContainsAny(_)
            | I::AssertWorktopContains(_)
            | I::AssertWorktopContainsNonFungibles(_)
            | I::AssertWorktopResourcesOnly(_)
            | I::AssertWorktopResourcesInclude(_)
            | I::AssertNextCallReturnsOnly(_)
            | I::AssertNextCallReturnsInclude(_) => {}
            I::AssertBucketContents(x) => st.live_bucket(at, x.bucket_id.0)?,
            I::CreateProofFromBucketOfAmount(x) => st.new_proof(at, Some(x.bucket_id.0))?,
            I::CreateProofFromBucketOfNonFungibles(x) => st.new_proof(at, Some(x.bucket_id.0))?,
            I::CreateProofFromBucketOfAll(x) => st.new_proof(at, Some(x.bucket_id.0))?,
            I::CreateProofFromAuthZoneOfAmount(_)
            | I::CreateProofFromAuthZoneOfNonFungibles(_)
            | I::CreateProofFromAuthZoneOfAll(_)
            | I::PopFromAuthZone(_) => st.new_proof(at, None)?,
            I::CloneProof(x) => {
                st.live_proof(at, x.proof_id.0)?;
                let from = st.proofs[x.proof_id.0 as usize].1;
                st.new_proof(at, from)?;
            }
            I::DropProof(x) => st.consume_proof(at, x.proof_id.0)?,
            I::PushToAuthZone(x) => st.consume_proof(at, x.proof_id.0)?,
            I::DropAuthZoneProofs(_) | I::DropAuthZoneRegularProofs(_) | I::DropAuthZoneSignatureProofs(_) => {}
            I::DropNamedProofs(_) | I::DropAllProofs(_) => {
                for p in 0..st.proofs.len() {
                    if !st.proofs[p].0 {
                        st.consume_proof(at, p as u32)?;
                    }
                }
            }
            I::CallFunction(x) => {
                if let ManifestPackageAddress::Named(n) = &x.package_address {
                    if rules.dynamic_address_in_command_part {
                        st.named_address(at, n.0)?;
                    }
                }
                st.walk(at, &x.args, rules)?;
            }
            I::CallMethod(x) => {
                st.dyn_global(at, &x.address, rules)?;
                st.walk(at, &x.args, rules)?;
            }
            I::CallRoyaltyMethod(x) => {
                st.dyn_global(at, &x.address, rules)?;
                st.walk(at, &x.args, rules)?;
            }
            I::CallMetadataMethod(x) => {
                st.dyn_global(at, &x.address, rules)?;
                st.walk(at, &x.args, rules)?;
            }
            I::CallRoleAssignmentMethod(x) => {
                st.dyn_global(at, &x.address, rules)?;
                st.walk(at, &x.args, rules)?;
            }
            I::CallDirectVaultMethod(x) => st.walk(at, &x.args, rules)?,
            I::AllocateGlobalAddress(_) => {
                st.reservations.push(false);
                st.named_addresses += 1;
            }
            I::YieldToParent(x) => {
                if !st.is_subintent {
                    return Err(bad("kind:yield-to-parent-outside-subintent", at, String::new()));
                }
                st.walk(at, &x.args, rules)?;
            }
            I::YieldToChild(x) => {
                if x.child_index.0 >= st.children {
                    return Err(bad("child:undeclared", at, format!("child {} of {}", x.child_index.0, st.children)));
                }
                st.walk(at, &x.args, rules)?;
            }
            I::VerifyParent(_) => {
                if !st.is_subintent {
                    return Err(bad("kind:verify-parent-outside-subintent", at, String::new()));
                }
            }
        }
    }
    // ending
    if st.is_subintent && !matches!(instructions.last(), Some(InstructionV2::YieldToParent(_))) {
        return Err(Invalid { class: "ending:subintent-without-final-yield-to-parent", at: None, at_op: String::new(), detail: String::new() });
    }
    if rules.no_dangling_nodes {
        if let Some(b) = st.buckets.iter().position(|(c, _)| !c) {
            return Err(Invalid { class: "ending:dangling-bucket", at: None, at_op: String::new(), detail: format!("bucket {b}") });
        }
        if let Some(r) = st.reservations.iter().position(|c| !c) {
            return Err(Invalid { class: "ending:dangling-reservation", at: None, at_op: String::new(), detail: format!("reservation {r}") });
        }
    }
    Ok(())
}
