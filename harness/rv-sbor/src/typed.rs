//! C21, typed decoders: total, bounded, and depth-consistent with the `Value` codec.
use crate::flav::*;
use crate::wire::{self, Flavour};
use radix_common::data::scrypto::model::*;
use radix_common::data::scrypto::*;
use radix_common::math::{Decimal, PreciseDecimal};
use radix_common::ScryptoSbor;
use rv_common::{alloc_count, catch, catch_mut, hex, unhex, Rng, Shard};
use sbor::rust::collections::{IndexMap, IndexSet};
use sbor::*;
use serde_json::json;
use std::collections::{BTreeMap, BTreeSet, HashMap, HashSet};
use std::fmt::Debug;
use std::rc::Rc;

/// Compositional generator of typed values.
pub trait G: Sized {
    fn g(rng: &mut Rng, fuel: &mut i32) -> Self;
}
macro_rules! g_int {
    ($($t:ty),*) => {$(impl G for $t { fn g(rng: &mut Rng, _: &mut i32) -> Self { wire::int_u128(rng) as $t } })*};
}
g_int!(u8, u16, u32, u64, u128, i8, i16, i32, i64, i128);
impl G for bool {
    fn g(rng: &mut Rng, _: &mut i32) -> Self {
        rng.bool()
    }
}
impl G for () {
    fn g(_: &mut Rng, _: &mut i32) -> Self {}
}
impl G for String {
    fn g(rng: &mut Rng, _: &mut i32) -> Self {
        wire::gen_string(rng, 8)
    }
}
fn len(rng: &mut Rng, fuel: &mut i32) -> usize {
    *fuel -= 1;
    if *fuel <= 0 {
        0
    } else {
        rng.size(6)
    }
}
impl<T: G> G for Vec<T> {
    fn g(rng: &mut Rng, fuel: &mut i32) -> Self {
        let n = len(rng, fuel);
        (0..n).map(|_| T::g(rng, fuel)).collect()
    }
}
impl<T: G> G for Option<T> {
    fn g(rng: &mut Rng, fuel: &mut i32) -> Self {
        *fuel -= 1;
        if *fuel > 0 && rng.chance(3, 4) {
            Some(T::g(rng, fuel))
        } else {
            None
        }
    }
}
impl<T: G, E: G> G for Result<T, E> {
    fn g(rng: &mut Rng, fuel: &mut i32) -> Self {
        if rng.bool() {
            Ok(T::g(rng, fuel))
        } else {
            Err(E::g(rng, fuel))
        }
    }
}
impl<T: G> G for Box<T> {
    fn g(rng: &mut Rng, fuel: &mut i32) -> Self {
        Box::new(T::g(rng, fuel))
    }
}
impl<T: G> G for Rc<T> {
    fn g(rng: &mut Rng, fuel: &mut i32) -> Self {
        Rc::new(T::g(rng, fuel))
    }
}
impl<T: G + Ord> G for BTreeSet<T> {
    fn g(rng: &mut Rng, fuel: &mut i32) -> Self {
        Vec::<T>::g(rng, fuel).into_iter().collect()
    }
}
impl<T: G + std::hash::Hash + Eq> G for HashSet<T> {
    fn g(rng: &mut Rng, fuel: &mut i32) -> Self {
        Vec::<T>::g(rng, fuel).into_iter().collect()
    }
}
impl<T: G + std::hash::Hash + Eq> G for IndexSet<T> {
    fn g(rng: &mut Rng, fuel: &mut i32) -> Self {
        Vec::<T>::g(rng, fuel).into_iter().collect()
    }
}
impl<K: G + Ord, V: G> G for BTreeMap<K, V> {
    fn g(rng: &mut Rng, fuel: &mut i32) -> Self {
        Vec::<(K, V)>::g(rng, fuel).into_iter().collect()
    }
}
impl<K: G + std::hash::Hash + Eq, V: G> G for HashMap<K, V> {
    fn g(rng: &mut Rng, fuel: &mut i32) -> Self {
        Vec::<(K, V)>::g(rng, fuel).into_iter().collect()
    }
}
impl<K: G + std::hash::Hash + Eq, V: G> G for IndexMap<K, V> {
    fn g(rng: &mut Rng, fuel: &mut i32) -> Self {
        Vec::<(K, V)>::g(rng, fuel).into_iter().collect()
    }
}
impl<A: G> G for (A,) {
    fn g(rng: &mut Rng, fuel: &mut i32) -> Self {
        (A::g(rng, fuel),)
    }
}
impl<A: G, B: G> G for (A, B) {
    fn g(rng: &mut Rng, fuel: &mut i32) -> Self {
        (A::g(rng, fuel), B::g(rng, fuel))
    }
}
impl<A: G, B: G, C: G> G for (A, B, C) {
    fn g(rng: &mut Rng, fuel: &mut i32) -> Self {
        (A::g(rng, fuel), B::g(rng, fuel), C::g(rng, fuel))
    }
}
impl<T: G, const N: usize> G for [T; N] {
    fn g(rng: &mut Rng, fuel: &mut i32) -> Self {
        std::array::from_fn(|_| T::g(rng, fuel))
    }
}
impl G for Decimal {
    fn g(rng: &mut Rng, _: &mut i32) -> Self {
        Decimal::try_from(&rng.bytes(24)[..]).unwrap()
    }
}
impl G for PreciseDecimal {
    fn g(rng: &mut Rng, _: &mut i32) -> Self {
        PreciseDecimal::try_from(&rng.bytes(32)[..]).unwrap()
    }
}
impl G for NonFungibleLocalId {
    fn g(rng: &mut Rng, _: &mut i32) -> Self {
        // the shared generator also emits near-miss (invalid) ids: keep the expressible ones
        for _ in 0..64 {
            if let wire::RV::Custom(k, b) = wire::gen_custom(rng, Flavour::Scrypto, 0xc0) {
                if let Some(ScryptoCustomValue::NonFungibleLocalId(id)) = ScryptoF::custom_from_rv(k, &b) {
                    return id;
                }
            }
        }
        NonFungibleLocalId::integer(rng.u64())
    }
}
/// A generated Scrypto tree that is expressible as a value of the code under test.
fn valid_scrypto_tree(rng: &mut Rng, mut make: impl FnMut(&mut Rng) -> wire::RV) -> (wire::RV, ScryptoValue) {
    for _ in 0..64 {
        let t = make(rng);
        if let Some(v) = to_real::<ScryptoF>(&t) {
            return (t, v);
        }
    }
    let t = wire::RV::Tuple(vec![]);
    let v = ScryptoValue::Tuple { fields: vec![] };
    (t, v)
}
/// an arbitrary well-formed Scrypto value embedded as raw bytes
impl G for ScryptoOwnedRawValue {
    fn g(rng: &mut Rng, fuel: &mut i32) -> Self {
        *fuel -= 4;
        let d = 1 + rng.usize_below(5);
        let (t, _) = valid_scrypto_tree(rng, |rng| {
            if rng.bool() {
                wire::gen_chain(rng, Flavour::Scrypto, d)
            } else {
                let mut b = 10usize;
                wire::gen_value(rng, Flavour::Scrypto, d, &mut b)
            }
        });
        let mut body = vec![];
        wire::write_body(&t, &mut body, &mut None);
        let kind = vk::<ScryptoF>(t.kind()).unwrap_or(ValueKind::Tuple);
        ScryptoOwnedRawValue::new_from_valid_owned_value_body(kind, body)
    }
}

#[derive(ScryptoSbor, Debug, PartialEq, Eq, Clone)]
pub struct Plain {
    pub a: u8,
    pub b: Vec<Option<(u16, String)>>,
    pub c: BTreeMap<u32, Vec<u8>>,
}
impl G for Plain {
    fn g(rng: &mut Rng, fuel: &mut i32) -> Self {
        Plain { a: G::g(rng, fuel), b: G::g(rng, fuel), c: G::g(rng, fuel) }
    }
}
#[derive(ScryptoSbor, Debug, PartialEq, Eq, Clone)]
pub enum Shape {
    Unit,
    One(Box<Shape>),
    Pair { l: Vec<Shape>, r: Option<Decimal> },
    Ids(BTreeSet<NonFungibleLocalId>),
}
impl G for Shape {
    fn g(rng: &mut Rng, fuel: &mut i32) -> Self {
        *fuel -= 1;
        if *fuel <= 0 {
            return Shape::Unit;
        }
        match rng.below(4) {
            0 => Shape::Unit,
            1 => Shape::One(G::g(rng, fuel)),
            2 => Shape::Pair { l: G::g(rng, fuel), r: G::g(rng, fuel) },
            _ => Shape::Ids(G::g(rng, fuel)),
        }
    }
}
#[derive(ScryptoSbor, Debug, Clone)]
pub struct WithRaw {
    pub tag: u8,
    pub raw: ScryptoOwnedRawValue,
    pub tail: Option<(ScryptoOwnedRawValue,)>,
}
impl G for WithRaw {
    fn g(rng: &mut Rng, fuel: &mut i32) -> Self {
        WithRaw { tag: G::g(rng, fuel), raw: G::g(rng, fuel), tail: G::g(rng, fuel) }
    }
}
#[derive(ScryptoSbor, Debug, PartialEq, Eq, Clone)]
#[sbor(transparent)]
pub struct Transparent(pub Vec<Vec<u8>>);
impl G for Transparent {
    fn g(rng: &mut Rng, fuel: &mut i32) -> Self {
        Transparent(G::g(rng, fuel))
    }
}

pub trait TypedCase {
    fn name(&self) -> &'static str;
    fn run(&self, rng: &mut Rng, sh: &mut Shard);
    fn replay(&self, p: &[u8], d: usize, sh: &mut Shard);
}

pub struct Case<T>(pub &'static str, pub std::marker::PhantomData<T>);

fn typed_bound(len: usize, d: usize) -> usize {
    // typed elements are at most 64 bytes here; same shape of bound as for `Value`
    4096 + 4 * 64 * len + d.min(len / 2 + 1) * 1024 * 2 * 64
}

impl<T> Case<T>
where
    T: G + ScryptoEncode + ScryptoDecode + Debug,
{
    fn decode_typed(&self, p: &[u8], d: usize, sh: &mut Shard, origin: &str) -> Option<Result<T, DecodeError>> {
        alloc_count::begin();
        let r = catch(|| scrypto_decode_with_depth_limit::<T>(p, d));
        let (peak, largest) = alloc_count::end();
        sh.eval();
        sh.count("typed_decodes");
        match r {
            Err(pi) => {
                sh.violation_for(
                    "C21",
                    format!("panic:typed-decoder:{}:{}", self.0, pi.site()),
                    json!({"kind":"typed","type":self.0,"payload":hex(p),"depth_limit":d,"origin":origin,"panic":pi.summary()}),
                );
                None
            }
            Ok(r) => {
                sh.max("typed_peak_heap_bytes", peak as u64);
                if peak > typed_bound(p.len(), d) {
                    sh.violation_for(
                        "C21",
                        format!("over-allocation:typed-decoder:{}", self.0),
                        json!({"kind":"typed","type":self.0,"payload":hex(&p[..p.len().min(4096)]),"payload_len":p.len(),"depth_limit":d,"origin":origin,
                               "peak_bytes":peak,"largest_request":largest,"bound":typed_bound(p.len(), d)}),
                    );
                }
                match &r {
                    Ok(_) => sh.count("typed_accepts"),
                    Err(e) => {
                        sh.count("typed_rejects");
                        sh.seen("typed_decode_errors", decode_err_name(e));
                    }
                }
                Some(r)
            }
        }
    }

    /// typed decode, typed encode and Value decode must share the depth threshold `depth` of `p`.
    fn thresholds(&self, v: &T, p: &[u8], depth: usize, ds: Vec<usize>, sh: &mut Shard, origin: &str) {
        let p = p.to_vec();
        for d in ds {
            let Some((t_ok, v_ok)) = self.check(&p, d, sh, origin, false) else { continue };
            let e_ok = match catch_mut(|| scrypto_encode_with_depth_limit(v, d)) {
                Ok(r) => r.is_ok(),
                Err(pi) => {
                    sh.violation_for(
                        "C21",
                        format!("panic:typed-encoder:{}:{}", self.0, pi.site()),
                        json!({"kind":"typed","type":self.0,"payload":hex(&p),"depth_limit":d,"origin":origin,"panic":pi.summary()}),
                    );
                    continue;
                }
            };
            sh.count("typed_threshold_probes");
            let should = d >= depth;
            let class = self.depth_class(&p, d);
            let rel = if d >= depth { "at-or-above-depth" } else { "below-depth" };
            let detail = json!({"kind":"typed","type":self.0,"payload":hex(&p),"depth_limit":d,"origin":origin,"wire_depth":depth,
                                "typed_decoder":t_ok,"typed_encoder":e_ok,"value_decoder":v_ok});
            if v_ok != should {
                // the Value decoder itself is off: that is the untyped monitor's (and C20's) business
                sh.count("typed_value_decoder_off_threshold");
            }
            if t_ok != should {
                sh.violation_for(
                    "C21",
                    format!("typed-depth:{class}:typed-decoder-{}-{rel}", if t_ok { "accepts" } else { "rejects" }),
                    detail.clone(),
                );
            }
            if e_ok != should {
                sh.violation_for(
                    "C21",
                    format!("typed-depth:{class}:typed-encoder-{}-{rel}", if e_ok { "accepts" } else { "rejects" }),
                    detail.clone(),
                );
            }
        }
    }

    /// Root-cause class of a depth disagreement at limit `d` for payload `p`.
    fn depth_class(&self, p: &[u8], d: usize) -> String {
        if self.0.contains("Raw") {
            return "raw-value".into();
        }
        if let Ok(r) = wire::read_payload(Flavour::Scrypto, p) {
            if r.tree.depth_without_byte_elements() <= d && d < r.depth {
                return "byte-array-elements-not-counted".into();
            }
        }
        format!("other:{}", self.0)
    }

    /// typed accept ⇒ Value accept (same limit); returns both verdicts.
    fn check(&self, p: &[u8], d: usize, sh: &mut Shard, origin: &str, report: bool) -> Option<(bool, bool)> {
        let t = self.decode_typed(p, d, sh, origin)?;
        let v = catch(|| decode::<ScryptoF>(p, d)).ok()?;
        if report && t.is_ok() && v.is_err() {
            let ve = v.as_ref().err().unwrap();
            let sig = if matches!(ve, DecodeError::MaxDepthExceeded(_)) {
                format!("typed-depth:{}:typed-decoder-accepts-below-depth", self.depth_class(p, d))
            } else {
                format!("typed-decoder-accepts-what-value-decoder-rejects:{}:{}", self.0, decode_err_name(ve))
            };
            sh.violation_for(
                "C21",
                sig,
                json!({"kind":"typed","type":self.0,"payload":hex(p),"depth_limit":d,"origin":origin}),
            );
        }
        Some((t.is_ok(), v.is_ok()))
    }
}

impl<T> TypedCase for Case<T>
where
    T: G + ScryptoEncode + ScryptoDecode + Debug,
{
    fn name(&self) -> &'static str {
        self.0
    }
    fn replay(&self, p: &[u8], d: usize, sh: &mut Shard) {
        self.check(p, d, sh, "replay", true);
        if let (Ok(Ok(v)), Ok(r)) = (catch(|| scrypto_decode_with_depth_limit::<T>(p, 64)), wire::read_payload(Flavour::Scrypto, p)) {
            self.thresholds(&v, p, r.depth, vec![d], sh, "replay");
        }
        // threshold sweep
        for dd in 1..=12 {
            if let Some((t, v)) = self.check(p, dd, sh, "replay", true) {
                if t != v {
                    println!("  limit {dd}: typed={t} value={v}");
                }
            }
        }
    }
    fn run(&self, rng: &mut Rng, sh: &mut Shard) {
        let mut fuel = 6 + rng.below(20) as i32;
        let v = T::g(rng, &mut fuel);
        let Ok(Ok(p)) = catch_mut(|| scrypto_encode_with_depth_limit(&v, 64)) else {
            sh.count("typed_values_not_encodable");
            return;
        };
        sh.seen("typed_roster", self.0);
        // the payload is type-conformant: typed decode, Value decode and typed encode must share
        // the same depth threshold
        let Ok(refr) = wire::read_payload(Flavour::Scrypto, &p) else {
            sh.count("typed_encoding_not_wire_format"); // C20's business; cannot define depth here
            return;
        };
        let depth = refr.depth;
        let mut ds = vec![depth, depth + 1, 64];
        if depth > 1 {
            ds.push(depth - 1);
            ds.push(1 + rng.usize_below(depth));
        }
        self.thresholds(&v, &p, depth, ds, sh, "typed-encoding");
        sh.nontrivial(&(self.0, rv_common::h64(&p)));
        // hostile variants of the conformant payload
        let (_, marks) = (0, None::<wire::Marks>);
        for _ in 0..3 {
            let mut q = p.clone();
            let n = 1 + rng.usize_below(2);
            let mut names = vec![];
            for _ in 0..n {
                names.push(wire::mutate(rng, Flavour::Scrypto, &mut q, marks.as_ref(), None));
            }
            let d = if rng.bool() { 64 } else { 1 + rng.usize_below(8) };
            self.check(&q, d, sh, &format!("typed-mutated:{}", names.join("+")), true);
        }
    }
}

macro_rules! case {
    ($t:ty) => {
        Box::new(Case::<$t>(stringify!($t), std::marker::PhantomData)) as Box<dyn TypedCase>
    };
}

pub fn roster() -> Vec<Box<dyn TypedCase>> {
    vec![
        case!(Vec<u8>),
        case!(Vec<i8>),
        case!([u8; 32]),
        case!([u16; 3]),
        case!([Vec<String>; 2]),
        case!(String),
        case!(Vec<Vec<Vec<u8>>>),
        case!(Vec<()>),
        case!(Option<Option<Box<(u8,)>>>),
        case!(Result<Vec<u32>, String>),
        case!(BTreeMap<u8, Vec<Option<String>>>),
        case!(BTreeSet<String>),
        case!(HashMap<u16, (bool, i128)>),
        case!(HashSet<u64>),
        case!(IndexMap<String, Vec<u8>>),
        case!(IndexSet<i32>),
        case!(Rc<Vec<Rc<u16>>>),
        case!(Vec<Box<u32>>),
        case!((u8, (u16, (u32, (u64,))))),
        case!(Vec<(Decimal, PreciseDecimal)>),
        case!(BTreeMap<NonFungibleLocalId, Vec<Decimal>>),
        case!(Plain),
        case!(Shape),
        case!(Transparent),
        case!(WithRaw),
        case!(ScryptoOwnedRawValue),
        case!((u8, ScryptoOwnedRawValue)),
        case!(Vec<(ScryptoOwnedRawValue,)>),
        case!(ScryptoValue),
    ]
}

impl G for ScryptoValue {
    fn g(rng: &mut Rng, fuel: &mut i32) -> Self {
        *fuel -= 4;
        let d = 1 + rng.usize_below(6);
        valid_scrypto_tree(rng, |rng| {
            let mut b = 12usize;
            wire::gen_value(rng, Flavour::Scrypto, d, &mut b)
        })
        .1
    }
}

thread_local! {
    static ROSTER: Vec<Box<dyn TypedCase>> = roster();
}

pub fn c21_typed(rng: &mut Rng, sh: &mut Shard) {
    ROSTER.with(|r| {
        let i = rng.usize_below(r.len());
        r[i].run(rng, sh);
    })
}

pub fn replay_typed(detail: &serde_json::Value, sh: &mut Shard) {
    if detail["kind"] == "typed-child" {
        run_child_probes(sh);
        return;
    }
    let name = detail["type"].as_str().unwrap_or("");
    let p = unhex(detail["payload"].as_str().unwrap_or(""));
    let d = detail["depth_limit"].as_u64().unwrap_or(64) as usize;
    ROSTER.with(|r| {
        for c in r.iter() {
            if c.name() == name {
                c.replay(&p, d, sh);
            }
        }
    });
    sh.nontrivial(&1u8);
    sh.nontrivial(&2u8);
}

// ---------------------------------------------------------------------------------------------
// Fault-contained probes: decodes whose failure mode is memory corruption are run in a child
// process (`rv-sbor __child <probe>`), so that a crash is an observation and not the end of the run.
// ---------------------------------------------------------------------------------------------
/// Run only when the decode/encode probes pass (i.e. these element types take the per-element path).
pub const DEPTH_PROBES: [&str; 3] = ["depth:Vec<Box<u8>>", "depth:Vec<Rc<i8>>", "depth:Vec<RefCell<u8>>"];
pub const CHILD_PROBES: [&str; 8] = [
    "decode:Vec<Box<u8>>",
    "decode:Vec<Rc<u8>>",
    "decode:Vec<Arc<u8>>",
    "decode:Vec<Box<i8>>",
    "decode:Vec<RefCell<u8>>",
    "encode:Vec<Box<u8>>",
    "encode:Vec<Rc<i8>>",
    "control:Vec<Box<u16>>",
];
const N_ELEMS: usize = 64;

fn byte_array_payload(kind: u8) -> Vec<u8> {
    let mut p = vec![0x5c, 0x20, kind];
    wire::write_size(N_ELEMS, &mut p);
    p.extend(std::iter::repeat(0x41u8).take(N_ELEMS));
    p
}

/// Runs inside the child. Prints "OK <checksum>" when the decode produced usable values.
pub fn child_main(name: &str) -> ! {
    use std::cell::RefCell;
    use std::sync::Arc;
    macro_rules! dec {
        ($t:ty, $kind:expr, $get:expr) => {{
            let p = byte_array_payload($kind);
            match scrypto_decode::<Vec<$t>>(&p) {
                Ok(v) => {
                    let mut sum: i64 = 0;
                    for x in v.iter() {
                        sum += $get(x) as i64;
                    }
                    println!("OK {} {}", v.len(), sum);
                    drop(v);
                }
                Err(e) => println!("ERR {e:?}"),
            }
        }};
    }
    match name {
        "decode:Vec<Box<u8>>" => dec!(Box<u8>, 0x07, |x: &Box<u8>| **x),
        "decode:Vec<Rc<u8>>" => dec!(Rc<u8>, 0x07, |x: &Rc<u8>| **x),
        "decode:Vec<Arc<u8>>" => dec!(Arc<u8>, 0x07, |x: &Arc<u8>| **x),
        "decode:Vec<Box<i8>>" => dec!(Box<i8>, 0x02, |x: &Box<i8>| **x),
        "decode:Vec<RefCell<u8>>" => dec!(RefCell<u8>, 0x07, |x: &RefCell<u8>| *x.borrow()),
        "encode:Vec<Box<u8>>" => {
            let v: Vec<Box<u8>> = (0..N_ELEMS).map(|_| Box::new(0x41u8)).collect();
            println!("ENC {}", hex(&scrypto_encode(&v).unwrap()));
        }
        "encode:Vec<Rc<i8>>" => {
            let v: Vec<Rc<i8>> = (0..N_ELEMS).map(|_| Rc::new(0x41i8)).collect();
            println!("ENC {}", hex(&scrypto_encode(&v).unwrap()));
        }
        "control:Vec<Box<u16>>" => {
            let mut p = vec![0x5c, 0x20, 0x08];
            wire::write_size(N_ELEMS, &mut p);
            p.extend(std::iter::repeat(0x41u8).take(2 * N_ELEMS));
            let v = scrypto_decode::<Vec<Box<u16>>>(&p).unwrap();
            println!("OK {} {}", v.len(), v.iter().map(|x| **x as i64).sum::<i64>());
        }
        "depth:Vec<Box<u8>>" => depth_probe((0..N_ELEMS).map(|_| Box::new(0x41u8)).collect::<Vec<_>>()),
        "depth:Vec<Rc<i8>>" => depth_probe((0..N_ELEMS).map(|_| Rc::new(0x41i8)).collect::<Vec<_>>()),
        "depth:Vec<RefCell<u8>>" => depth_probe((0..N_ELEMS).map(|_| RefCell::new(0x41u8)).collect::<Vec<_>>()),
        _ => println!("UNKNOWN"),
    }
    std::process::exit(0)
}

/// Child: typed decode / typed encode / Value decode verdicts at limits 1..=3 for a flat array (wire depth 2).
fn depth_probe<T: ScryptoEncode + ScryptoDecode + PartialEq>(v: T) {
    let p = scrypto_encode(&v).unwrap();
    let mut out = String::from("DEPTH");
    for d in 1..=3usize {
        let t = scrypto_decode_with_depth_limit::<T>(&p, d).map(|x| x == v);
        let e = scrypto_encode_with_depth_limit(&v, d).is_ok();
        let val = scrypto_decode_with_depth_limit::<ScryptoValue>(&p, d).is_ok();
        out.push_str(&format!(" {d}:{}{}{}", if t == Ok(true) { 'T' } else if t.is_ok() { 'N' } else { 'f' }, if e { 'T' } else { 'f' }, if val { 'T' } else { 'f' }));
    }
    println!("{out}");
}

/// Parent side: one child per probe; a crash / wrong result is a C21 violation.
pub fn run_child_probes(sh: &mut Shard) {
    let exe = match std::env::current_exe() {
        Ok(e) => e,
        Err(_) => {
            sh.notes.push("cannot locate own executable for child probes".into());
            return;
        }
    };
    for name in CHILD_PROBES {
        let out = std::process::Command::new(&exe).arg("__child").arg(name).output();
        let Ok(out) = out else {
            sh.notes.push(format!("child probe {name} could not be started"));
            continue;
        };
        sh.eval();
        sh.count("child_probes");
        let stdout = String::from_utf8_lossy(&out.stdout).trim().to_string();
        use std::os::unix::process::ExitStatusExt;
        let sig = out.status.signal();
        let ty = name.split(':').nth(1).unwrap_or("");
        let (kind, elem_sum) = if name.contains("i8") { (0x02u8, 0x41i64) } else { (0x07u8, 0x41i64) };
        let expected = if name.starts_with("decode") {
            format!("OK {} {}", N_ELEMS, elem_sum * N_ELEMS as i64)
        } else if name.starts_with("encode") {
            format!("ENC {}", hex(&byte_array_payload(kind)))
        } else {
            format!("OK {} {}", N_ELEMS, 0x4141i64 * N_ELEMS as i64)
        };
        sh.nontrivial(&name);
        if sig.is_some() || stdout != expected {
            let class = if let Some(s) = sig {
                format!("process-killed-by-signal-{s}")
            } else if out.status.code() == Some(101) {
                "panic".to_string()
            } else {
                "wrong-result".to_string()
            };
            sh.violation_for(
                "C21",
                format!(
                    "memory-unsafety:byte-copy-fast-path-on-non-byte-sized-element:{}",
                    name.split(':').next().unwrap_or("")
                ),
                json!({"kind":"typed-child","probe":name,"type":ty,"failure":class,"expected_stdout":expected,"stdout":stdout.chars().take(400).collect::<String>(),
                       "exit_code":out.status.code(),"signal":sig,
                       "payload": hex(&byte_array_payload(kind)),
                       "stderr": String::from_utf8_lossy(&out.stderr).chars().take(400).collect::<String>()}),
            );
        } else {
            sh.count("child_probes_ok");
        }
    }
    if sh.counters.get("child_probes_ok").copied().unwrap_or(0) < CHILD_PROBES.len() as u64 {
        return; // old layout: the element types below would take the unsafe path
    }
    for name in DEPTH_PROBES {
        let Ok(out) = std::process::Command::new(&exe).arg("__child").arg(name).output() else {
            sh.notes.push(format!("child probe {name} could not be started"));
            continue;
        };
        sh.eval();
        sh.count("child_depth_probes");
        let stdout = String::from_utf8_lossy(&out.stdout).trim().to_string();
        let expected = "DEPTH 1:fff 2:TTT 3:TTT";
        if stdout != expected {
            use std::os::unix::process::ExitStatusExt;
            sh.violation_for(
                "C21",
                format!("typed-depth:other:{}", name.split(':').nth(1).unwrap_or("")),
                json!({"kind":"typed-child","probe":name,"expected_stdout":expected,"stdout":stdout.chars().take(200).collect::<String>(),
                       "exit_code":out.status.code(),"signal":out.status.signal()}),
            );
        } else {
            sh.count("child_depth_probes_ok");
        }
    }
}
