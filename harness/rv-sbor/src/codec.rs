//! C20 (round trip / unique encoding / wire-format conformance) and C21 (total, bounded,
//! depth-consistent decoding): differential monitors decoder / traverser / encoder / reference reader.
use crate::flav::*;
use crate::wire::{self, Flavour, Marks, RV};
use rv_common::{alloc_count, catch, catch_mut, hex, unhex, Args, Report, Rng, Shard, Spec};
use sbor::*;
use serde_json::json;
use std::time::Duration;

#[derive(Clone, Copy, PartialEq, Eq)]
pub enum Which {
    C20,
    C21,
}

fn short(p: &[u8]) -> String {
    hex(p)
}

// ---------------------------------------------------------------------------------------------
// C20 clauses on one payload at one depth limit
// ---------------------------------------------------------------------------------------------
/// Returns (decoder accepted, reference accepted-at-depth).
pub fn c20_payload<F: Flav>(p: &[u8], d: usize, sh: &mut Shard, origin: &str) -> (bool, bool) {
    let fl = F::FL;
    let refr = wire::read_payload(fl, p);
    let ref_ok = matches!(&refr, Ok(x) if x.depth <= d);
    let dec = match catch(|| decode::<F>(p, d)) {
        Ok(r) => r,
        Err(_) => {
            // panics are C21's clause; nothing to compare here
            sh.count("decoder_panicked_skipped");
            return (false, ref_ok);
        }
    };
    sh.eval();
    match (&dec, &refr) {
        (Ok(_), _) => sh.count("decoder_accepts"),
        (Err(e), _) => {
            sh.count("decoder_rejects");
            sh.seen("decode_errors", decode_err_name(e));
        }
    }
    match &refr {
        Ok(x) => {
            if x.depth <= d {
                sh.count("reference_accepts")
            } else {
                sh.count("reference_rejects_for_depth")
            }
            sh.max("reference_depth", x.depth as u64);
        }
        Err(r) => {
            sh.count("reference_rejects");
            sh.seen("reference_reject_classes", r.name());
        }
    }
    if dec.is_ok() != ref_ok {
        let sig = match (&dec, &refr) {
            (Ok(_), Err(r)) => format!("accept-mismatch:{}:decoder-accepts-what-wire-format-rejects:{}", fl.name(), r.name()),
            (Ok(_), Ok(_)) => format!("accept-mismatch:{}:decoder-accepts-beyond-depth-limit", fl.name()),
            (Err(e), _) => format!(
                "accept-mismatch:{}:decoder-rejects-wire-format-payload:{}",
                fl.name(),
                decode_err_name(e)
            ),
        };
        sh.violation_for(
            "C20",
            sig,
            json!({"kind":"payload","flavour":fl.name(),"payload":short(p),"depth_limit":d,"origin":origin,
                   "decoder":format!("{:?}", dec.as_ref().map(|_| "Ok")),
                   "reference":format!("{:?}", refr.as_ref().map(|x| x.depth).map_err(|e| e.name()))}),
        );
        return (dec.is_ok(), ref_ok);
    }
    if let (Ok(v), Ok(x)) = (&dec, &refr) {
        // the decoded value is the value the wire format denotes
        let got = from_real::<F>(v);
        if got != x.tree {
            sh.violation_for(
                "C20",
                format!("decoded-value-differs-from-wire-reading:{}", fl.name()),
                json!({"kind":"payload","flavour":fl.name(),"payload":short(p),"depth_limit":d,"origin":origin}),
            );
        }
        // unique encoding: re-encoding gives back the same bytes
        match catch_mut(|| encode::<F>(v, d)) {
            Ok(Ok(b)) => {
                sh.count("reencoded");
                if b != p {
                    sh.violation_for(
                        "C20",
                        format!("reencode-differs:{}", fl.name()),
                        json!({"kind":"payload","flavour":fl.name(),"payload":short(p),"reencoded":short(&b),"depth_limit":d,"origin":origin}),
                    );
                }
            }
            Ok(Err(e)) => sh.violation_for(
                "C20",
                format!("reencode-fails:{}:{}", fl.name(), encode_err_name(&e)),
                json!({"kind":"payload","flavour":fl.name(),"payload":short(p),"depth_limit":d,"origin":origin}),
            ),
            Err(_) => sh.count("encoder_panicked_skipped"),
        }
        let mut h = std::collections::hash_map::DefaultHasher::new();
        use std::hash::{Hash, Hasher};
        x.tree.hash(&mut h);
        sh.nontrivial(&(fl, h.finish()));
    } else {
        sh.nontrivial(&(fl, rv_common::h64(p), d));
    }
    (dec.is_ok(), ref_ok)
}

/// C20 clauses on a generated value tree.
pub fn c20_value<F: Flav>(t: &RV, d: usize, sh: &mut Shard) {
    let fl = F::FL;
    let Some(v) = to_real::<F>(t) else {
        sh.count("tree_not_expressible");
        return;
    };
    sh.eval();
    let wf = t.well_formed();
    let depth = t.depth();
    let expect_ok = wf && depth <= d;
    let enc = match catch_mut(|| encode::<F>(&v, d)) {
        Ok(r) => r,
        Err(_) => {
            sh.count("encoder_panicked_skipped");
            return;
        }
    };
    match &enc {
        Ok(_) => sh.count("value_encodable"),
        Err(e) => {
            sh.count("value_not_encodable");
            sh.seen("encode_errors", encode_err_name(e));
        }
    }
    if !wf {
        sh.count("ill_formed_values");
    }
    let detail = |extra: serde_json::Value| json!({"kind":"value","flavour":fl.name(),"tree":format!("{t:?}"),"depth_limit":d,"extra":extra});
    match enc {
        Ok(b) => {
            // "Any SBOR value that can be encoded decodes back to an equal value"
            match catch(|| decode::<F>(&b, d)) {
                Ok(Ok(back)) => {
                    if back != v {
                        sh.violation_for("C20", format!("roundtrip-not-equal:{}", fl.name()), detail(json!({"encoded":short(&b)})));
                    }
                }
                Ok(Err(e)) => sh.violation_for(
                    "C20",
                    format!("encoded-value-does-not-decode:{}:{}", fl.name(), decode_err_name(&e)),
                    detail(json!({"encoded":short(&b)})),
                ),
                Err(_) => sh.count("decoder_panicked_skipped"),
            }
            if expect_ok {
                let mine = wire::write_payload(fl, t);
                if mine != b {
                    sh.violation_for(
                        "C20",
                        format!("encoding-differs-from-wire-format:{}", fl.name()),
                        detail(json!({"encoded":short(&b),"wire_format":short(&mine)})),
                    );
                }
            } else if wf {
                sh.violation_for("C20", format!("encoder-accepts-beyond-depth-limit:{}", fl.name()), detail(json!({"depth":depth})));
            }
            // (ill-formed but encodable is fine as long as it round-trips, checked above)
        }
        Err(e) => {
            if expect_ok {
                sh.violation_for(
                    "C20",
                    format!("encoder-rejects-wire-format-value:{}:{}", fl.name(), encode_err_name(&e)),
                    detail(json!({"depth":depth})),
                );
            }
        }
    }
    t.visit_kinds(&mut |k, _| sh.seen("value_kinds_generated", &format!("{}:{k:#04x}", fl.name())), 1);
    sh.max("generated_depth", depth as u64);
    let mut h = std::collections::hash_map::DefaultHasher::new();
    use std::hash::{Hash, Hasher};
    t.hash(&mut h);
    sh.nontrivial(&(fl, h.finish(), d));
}

// ---------------------------------------------------------------------------------------------
// C21 clauses
// ---------------------------------------------------------------------------------------------
pub fn value_alloc_bound<F: Flav>(len: usize, d: usize) -> usize {
    // Per element the decoder materialises one `Value` (S bytes) and payload elements can be a
    // single byte; Vec growth keeps old+new buffers alive (3*S per byte). Every nesting level may
    // pre-allocate up to 1024 elements (map: pairs) before reading them.
    let s = std::mem::size_of::<Val<F>>();
    let levels = d.min(len / 2 + 1);
    4096 + 4 * s * len + levels * 1024 * 2 * s
}
pub fn trav_alloc_bound<F: Flav>(len: usize, d: usize) -> usize {
    let a = std::mem::size_of::<sbor::traversal::AncestorState<F::T>>();
    4096 + 2 * a * d + 4 * len
}

struct Probe<F: Flav> {
    dec: Result<Val<F>, DecodeError>,
    trav: TravOutcome,
}

fn probe<F: Flav>(p: &[u8], d: usize, sh: &mut Shard, origin: &str) -> Option<Probe<F>> {
    let fl = F::FL;
    alloc_count::begin();
    let dec = catch(|| decode::<F>(p, d));
    let (peak, largest) = alloc_count::end();
    sh.eval();
    let dec = match dec {
        Ok(r) => r,
        Err(pi) => {
            sh.violation_for(
                "C21",
                format!("panic:value-decoder:{}:{}", fl.name(), pi.site()),
                json!({"kind":"payload","flavour":fl.name(),"payload":short(p),"depth_limit":d,"origin":origin,"panic":pi.summary()}),
            );
            return None;
        }
    };
    let bound = value_alloc_bound::<F>(p.len(), d);
    sh.max("decoder_peak_heap_bytes", peak as u64);
    if !p.is_empty() {
        sh.max("decoder_peak_heap_per_payload_byte_x100", (peak * 100 / p.len()) as u64);
        sh.max("decoder_peak_heap_permille_of_bound", (peak as u128 * 1000 / bound as u128) as u64);
    }
    if peak > bound {
        sh.violation_for(
            "C21",
            format!("over-allocation:value-decoder:{}", fl.name()),
            json!({"kind":"payload","flavour":fl.name(),"payload":short(&p[..p.len().min(4096)]),"payload_len":p.len(),"depth_limit":d,"origin":origin,
                   "peak_bytes":peak,"largest_request":largest,"bound":bound}),
        );
    }
    alloc_count::begin();
    let trav = catch(|| traverse::<F>(p, d));
    let (tpeak, tlargest) = alloc_count::end();
    let trav = match trav {
        Ok(t) => t,
        Err(pi) => {
            sh.violation_for(
                "C21",
                format!("panic:traverser:{}:{}", fl.name(), pi.site()),
                json!({"kind":"payload","flavour":fl.name(),"payload":short(p),"depth_limit":d,"origin":origin,"panic":pi.summary()}),
            );
            return None;
        }
    };
    // `rebuilt` is harness memory (<= len); subtract it from the traverser's share
    let tbound = trav_alloc_bound::<F>(p.len(), d) + 2 * p.len();
    sh.max("traverser_peak_heap_bytes", tpeak as u64);
    if tpeak > tbound {
        sh.violation_for(
            "C21",
            format!("over-allocation:traverser:{}", fl.name()),
            json!({"kind":"payload","flavour":fl.name(),"payload":short(&p[..p.len().min(4096)]),"payload_len":p.len(),"depth_limit":d,"origin":origin,
                   "peak_bytes":tpeak,"largest_request":tlargest,"bound":tbound}),
        );
    }
    match &dec {
        Ok(_) => sh.count("decoder_accepts"),
        Err(e) => {
            sh.count("decoder_rejects");
            sh.seen("decode_errors", decode_err_name(e));
        }
    }
    match &trav.result {
        Ok(_) => sh.count("traverser_accepts"),
        Err(e) => {
            sh.count("traverser_rejects");
            sh.seen("traverser_errors", decode_err_name(e));
        }
    }
    if dec.is_ok() != trav.result.is_ok() {
        let sig = format!(
            "acceptance-disagreement:{}:decoder={},traverser={}",
            fl.name(),
            dec.as_ref().map(|_| "accept").unwrap_or_else(|e| decode_err_name(e)),
            trav.result.as_ref().map(|_| "accept").unwrap_or_else(|e| decode_err_name(e)),
        );
        sh.violation_for(
            "C21",
            sig,
            json!({"kind":"payload","flavour":fl.name(),"payload":short(p),"depth_limit":d,"origin":origin}),
        );
    }
    if trav.result.is_ok() {
        if !trav.offsets_ok || trav.rebuilt != p {
            sh.violation_for(
                "C21",
                format!("traverser-events-do-not-describe-payload:{}", fl.name()),
                json!({"kind":"payload","flavour":fl.name(),"payload":short(p),"depth_limit":d,"origin":origin,"rebuilt":short(&trav.rebuilt),"offsets_ok":trav.offsets_ok}),
            );
        }
    }
    Some(Probe { dec, trav })
}

fn encode_probe<F: Flav>(v: &Val<F>, d: usize, sh: &mut Shard, p: &[u8], origin: &str) -> Option<Result<Vec<u8>, EncodeError>> {
    match catch_mut(|| encode::<F>(v, d)) {
        Ok(r) => {
            match &r {
                Ok(_) => sh.count("encoder_accepts"),
                Err(e) => {
                    sh.count("encoder_rejects");
                    sh.seen("encode_errors", encode_err_name(e));
                }
            }
            Some(r)
        }
        Err(pi) => {
            sh.violation_for(
                "C21",
                format!("panic:encoder:{}:{}", F::FL.name(), pi.site()),
                json!({"kind":"payload","flavour":F::FL.name(),"payload":short(p),"depth_limit":d,"origin":origin,"panic":pi.summary()}),
            );
            None
        }
    }
}

/// Full C21 examination of one payload: acceptance at a generous limit, then the depth threshold.
pub fn c21_payload<F: Flav>(p: &[u8], rng: &mut Rng, sh: &mut Shard, origin: &str) {
    let fl = F::FL;
    let big = if rng.bool() { fl.max_depth() } else { 65 + rng.usize_below(200) };
    let Some(top) = probe::<F>(p, big, sh, origin) else { return };
    let detail = |d: usize, what: &str| json!({"kind":"payload","flavour":fl.name(),"payload":short(p),"depth_limit":d,"origin":origin,"what":what});
    match (&top.dec, &top.trav.result) {
        (Ok(v), Ok(())) => {
            sh.count("accepted_payloads");
            let depth = top.trav.max_depth; // the traverser's opinion of the nesting depth
            sh.max("accepted_depth", depth as u64);
            sh.seen("accepted_depths", &format!("{depth:03}"));
            // encoder at the same limit
            if let Some(r) = encode_probe::<F>(v, big, sh, p, origin) {
                if r.is_err() {
                    sh.violation_for(
                        "C21",
                        format!("depth-disagreement:{}:decoder-accepts-encoder-rejects", fl.name()),
                        detail(big, "encode of the decoded value fails at the limit the decoder accepted"),
                    );
                }
            }
            // exactly at the depth: all accept; one below: all reject for depth
            let mut ds = vec![depth];
            if depth >= 2 {
                ds.push(depth - 1);
            }
            ds.push(depth + 1);
            if depth > 2 {
                ds.push(1 + rng.usize_below(depth - 1));
            }
            for d in ds {
                let should = d >= depth;
                let Some(pr) = probe::<F>(p, d, sh, origin) else { continue };
                let enc = encode_probe::<F>(v, d, sh, p, origin);
                let dec_ok = pr.dec.is_ok();
                let trav_ok = pr.trav.result.is_ok();
                let enc_ok = enc.as_ref().map(|r| r.is_ok());
                sh.count(if should { "threshold_probes_at_or_above_depth" } else { "threshold_probes_below_depth" });
                if dec_ok != should || trav_ok != should || enc_ok.map(|e| e != should).unwrap_or(false) {
                    sh.violation_for(
                        "C21",
                        format!(
                            "depth-disagreement:{}:at-limit-{}-depth:decoder={},traverser={},encoder={}",
                            fl.name(),
                            if d >= depth { if d == depth { "equal-to" } else { "above" } } else { "below" },
                            if dec_ok { "accept" } else { "reject" },
                            if trav_ok { "accept" } else { "reject" },
                            match enc_ok {
                                Some(true) => "accept",
                                Some(false) => "reject",
                                None => "panic",
                            }
                        ),
                        json!({"kind":"payload","flavour":fl.name(),"payload":short(p),"depth_limit":d,"origin":origin,"traverser_depth":depth}),
                    );
                } else if !should {
                    // "rejected for depth by one exactly when it is by the others"
                    let de = matches!(pr.dec, Err(DecodeError::MaxDepthExceeded(_)));
                    let te = matches!(pr.trav.result, Err(DecodeError::MaxDepthExceeded(_)));
                    let ee = matches!(enc, Some(Err(EncodeError::MaxDepthExceeded(_))));
                    if !(de && te && ee) {
                        sh.violation_for(
                            "C21",
                            format!("depth-disagreement:{}:valid-payload-below-depth-rejected-for-other-reason", fl.name()),
                            json!({"kind":"payload","flavour":fl.name(),"payload":short(p),"depth_limit":d,"origin":origin,
                                   "decoder":format!("{:?}", pr.dec.as_ref().err()),"traverser":format!("{:?}", pr.trav.result.as_ref().err()),
                                   "encoder":format!("{:?}", enc.as_ref().and_then(|r| r.as_ref().err()))}),
                        );
                    }
                }
            }
            sh.nontrivial(&(fl, rv_common::h64(p)));
        }
        (Err(_), Err(_)) => {
            sh.count("rejected_payloads");
            // a smaller limit can never make it acceptable; both must still reject
            let d = 1 + rng.usize_below(big.min(12));
            let _ = probe::<F>(p, d, sh, origin);
            sh.nontrivial(&(fl, rv_common::h64(p)));
        }
        _ => { /* disagreement already reported by probe() */ }
    }
    // informational only: depth limit 0 (no value is acceptable) is outside the monitored domain
    if rng.chance(1, 64) {
        if let (Ok(a), Ok(b)) = (catch(|| decode::<F>(p, 0)), catch(|| traverse::<F>(p, 0))) {
            if a.is_ok() != b.result.is_ok() {
                sh.count("info_depth_limit_0_decoder_traverser_differ");
            }
        }
    }
}

// ---------------------------------------------------------------------------------------------
// Workload
// ---------------------------------------------------------------------------------------------
pub struct Case {
    pub tree: Option<RV>,
    pub payload: Vec<u8>,
    pub marks: Option<Marks>,
    pub origin: String,
}

/// Depth targets: around each flavour's limit, shallow, and far beyond.
fn pick_depth(rng: &mut Rng, fl: Flavour) -> usize {
    let m = fl.max_depth();
    match rng.below(10) {
        0 => m,
        1 => m + 1,
        2 => m - 1,
        3 => m + 2,
        4 => 1,
        5 => 2,
        6 => 1 + rng.usize_below(m + 8),
        _ => 1 + rng.usize_below(8),
    }
}

pub fn gen_case(rng: &mut Rng, fl: Flavour, pool: &mut Vec<Vec<u8>>) -> Case {
    let roll = rng.below(100);
    if roll < 8 {
        let (p, name) = wire::gen_raw_hostile(rng, fl);
        return Case { tree: None, payload: p, marks: None, origin: format!("raw:{name}") };
    }
    // a tree
    let (tree, how) = if rng.chance(1, 3) {
        let d = pick_depth(rng, fl);
        (wire::gen_chain(rng, fl, d), "chain")
    } else {
        let d = pick_depth(rng, fl).min(12);
        let mut budget = match rng.below(10) {
            0 => 400,
            1..=3 => 60,
            _ => 16,
        };
        (wire::gen_value(rng, fl, d, &mut budget), "tree")
    };
    let (mut p, marks) = wire::write_payload_marked(fl, &tree);
    if pool.len() < 64 {
        pool.push(p.clone());
    } else {
        let i = rng.usize_below(64);
        pool[i] = p.clone();
    }
    if roll < 50 {
        return Case { tree: Some(tree), payload: p, marks: Some(marks), origin: format!("generated:{how}") };
    }
    // mutated
    let n = 1 + rng.usize_below(3);
    let mut names = vec![];
    for i in 0..n {
        let other = if pool.is_empty() { None } else { Some(pool[rng.usize_below(pool.len())].clone()) };
        let m = if i == 0 { Some(&marks) } else { None };
        names.push(wire::mutate(rng, fl, &mut p, m, other.as_deref()));
    }
    Case { tree: None, payload: p, marks: None, origin: format!("mutated:{how}:{}", names.join("+")) }
}

macro_rules! by_flavour {
    ($fl:expr, $f:ident, $($arg:expr),*) => {
        match $fl {
            Flavour::Basic => { $f::<BasicF>($($arg),*); }
            Flavour::Scrypto => { $f::<ScryptoF>($($arg),*); }
            Flavour::Manifest => { $f::<ManifestF>($($arg),*); }
        }
    };
}

pub fn spec(which: Which) -> Spec {
    match which {
        Which::C20 => Spec::new(
            "C20",
            "exploration",
            "for generated value trees v (3 flavours): encode(v) ok => decode(encode(v)) == v and encode(v) == independent wire-format writer's bytes (ok iff well-formed and depth <= limit); \
             for byte strings p: decoder accepts p <=> independent wire-format reader accepts p within the depth limit, decoded value == reader's tree, encode(decode(p)) == p",
        )
        .assume("wire format as documented: prefix byte, kind bytes, <=4-byte minimal LEB128 sizes, LE integers, UTF-8 (RFC 3629), bool in {0,1}, custom values per flavour; map key order/duplicates unconstrained at Value level")
        .assume("nesting depth: root = 1, child = parent + 1; default limits 64 / 64 / 24")
        .floor("evaluations", 200_000)
        .floor("decoder_accepts", 50_000)
        .floor("decoder_rejects", 20_000)
        .floor("value_encodable", 30_000)
        .floor("reencoded", 50_000)
        .explain("reference reader/writer in rv-sbor/src/wire.rs shares no code with sbor; disagreements are violations"),
        Which::C21 => Spec::new(
            "C21",
            "exploration",
            "for byte strings p and depth limits d>=1: value decoder, VecTraverser and encoder never panic; peak heap of a decode <= 4096 + 4*sizeof(Value)*len + min(d,len/2+1)*1024*2*sizeof(Value); \
             decoder accepts <=> traverser accepts; with D = traverser-reported depth of an accepted payload: all three accept at d>=D and all three reject with MaxDepthExceeded at d<D; \
             traverser events re-assemble to p; typed decoders: typed accept => Value accept, and typed decode/encode/Value decode share the same depth threshold",
        )
        .assume("depth limit 0 is outside the domain (no value acceptable); observed separately as information")
        .assume("leaks are not over-allocation (known [T;N] leak on error is ignored)")
        .floor("evaluations", 200_000)
        .floor("accepted_payloads", 20_000)
        .floor("rejected_payloads", 20_000)
        .floor("threshold_probes_below_depth", 10_000)
        .floor("typed_decodes", 20_000)
        .explain("heap measured per call by a counting global allocator on the worker thread"),
    }
}

pub fn run(args: &Args, which: Which) -> Report {
    let mut report = Report::new(args, spec(which));
    let secs = rv_common::budget_secs(args.tier, 25, 420);
    let cap = rv_common::scaled(args, args.tier.pick(3_000_000u64, 300_000_000u64)) / args.threads as u64;
    report.run_shards(which as u64 + 20, args.threads, Duration::from_secs(secs), |_idx, rng, sh| {
        let mut pools: [Vec<Vec<u8>>; 3] = [vec![], vec![], vec![]];
        if which == Which::C21 && _idx == 0 {
            crate::typed::run_child_probes(sh);
        }
        let mut n = 0u64;
        while n < cap && !sh.time_up() {
            n += 1;
            let fi = rng.usize_below(3);
            let fl = Flavour::ALL[fi];
            let case = gen_case(rng, fl, &mut pools[fi]);
            sh.seen("origins", case.origin.split(':').take(2).collect::<Vec<_>>().join(":").as_str());
            for m in case.origin.split(':').nth(2).unwrap_or("").split('+') {
                if !m.is_empty() {
                    sh.seen("mutators", m);
                }
            }
            sh.count(&format!("cases:{}", fl.name()));
            match which {
                Which::C20 => {
                    let d = if rng.chance(3, 4) { fl.max_depth() } else { pick_depth(rng, fl) };
                    if let Some(t) = &case.tree {
                        let mut t2;
                        let t = if rng.chance(1, 12) {
                            t2 = t.clone();
                            wire::break_kinds(rng, &mut t2);
                            &t2
                        } else {
                            t
                        };
                        by_flavour!(fl, c20_value, t, d, sh);
                    }
                    let p = &case.payload;
                    let o = &case.origin;
                    by_flavour!(fl, c20_payload, p, d, sh, o);
                    if sh.want_sample() && n % 1000 == 7 {
                        sh.sample(|| json!({"flavour":fl.name(),"origin":o,"payload":short(&p[..p.len().min(80)]),"depth_limit":d}));
                    }
                }
                Which::C21 => {
                    let p = &case.payload;
                    let o = &case.origin;
                    by_flavour!(fl, c21_payload, p, rng, sh, o);
                    if n % 4 == 0 {
                        crate::typed::c21_typed(rng, sh);
                    }
                    if sh.want_sample() && n % 1000 == 7 {
                        sh.sample(|| json!({"flavour":fl.name(),"origin":o,"payload":short(&p[..p.len().min(80)])}));
                    }
                }
            }
        }
    });
    report.extra.insert(
        "bounds".into(),
        json!({"sizeof_value": {"basic": std::mem::size_of::<Val<BasicF>>(), "scrypto": std::mem::size_of::<Val<ScryptoF>>(), "manifest": std::mem::size_of::<Val<ManifestF>>()}}),
    );
    report
}

// ---------------------------------------------------------------------------------------------
// Replay
// ---------------------------------------------------------------------------------------------
pub fn replay(args: &Args, which: Which, doc: &serde_json::Value) -> Report {
    let mut report = Report::new(args, spec(which));
    let detail = &doc["detail"];
    let fl = match detail["flavour"].as_str().unwrap_or("basic") {
        "scrypto" => Flavour::Scrypto,
        "manifest" => Flavour::Manifest,
        _ => Flavour::Basic,
    };
    let d = detail["depth_limit"].as_u64().unwrap_or(fl.max_depth() as u64) as usize;
    let kind = detail["kind"].as_str().unwrap_or("payload").to_string();
    let p = unhex(detail["payload"].as_str().unwrap_or(""));
    report.run_shards(99, 1, Duration::from_secs(60), |_, rng, sh| {
        if kind.starts_with("typed") {
            crate::typed::replay_typed(detail, sh);
            return;
        }
        if kind == "value" {
            println!("replay of generated-value cases: re-run with the recorded seed (tree is recorded in the detail for inspection)");
            return;
        }
        match which {
            Which::C20 => {
                by_flavour!(fl, c20_payload, &p, d, sh, "replay");
            }
            Which::C21 => {
                // the recorded limit first, then the general examination
                by_flavour!(fl, probe, &p, d, sh, "replay");
                by_flavour!(fl, c21_payload, &p, rng, sh, "replay");
            }
        }
        sh.nontrivial(&1u8);
        sh.nontrivial(&2u8);
    });
    println!(
        "REPLAY {} violations reproduced: {}",
        report.spec.prop,
        report.violations.iter().map(|v| v.signature.clone()).collect::<Vec<_>>().join(" | ")
    );
    report
}
