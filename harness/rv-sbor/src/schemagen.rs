//! Schema-driven workload: random Scrypto schemas, schema mutants, and payloads generated *from* a
//! schema (Scrypto or Manifest flavour) by interpreting type kinds and validations as documented.
use crate::wire::{self, Flavour, RV, *};
use radix_common::data::manifest::ManifestCustomExtension;
use radix_common::data::scrypto::*;
use rv_common::Rng;
use sbor::rust::collections::IndexMap;
use sbor::*;
use std::borrow::Cow;

pub type S = ScryptoCustomSchema;
pub type Sch = SchemaV1<S>;
pub type TV = TypeValidation<ScryptoCustomTypeValidation>;
pub type TK = LocalTypeKind<S>;

pub const GLOBAL_PACKAGE: [u8; 1] = [0x0d];
pub const GLOBAL_RESOURCE: [u8; 2] = [0x5d, 0x9a];
pub const GLOBAL_COMPONENT: [u8; 15] =
    [0x86, 0x83, 0xc3, 0xc1, 0xc2, 0xc0, 0xd1, 0x51, 0xd2, 0x52, 0xc4, 0xc5, 0xc6, 0x82, 0x68];
pub const INTERNAL_VAULT: [u8; 2] = [0x58, 0x98];
pub const INTERNAL_KV: [u8; 1] = [0xb0];
pub const INTERNAL_OTHER: [u8; 1] = [0xf8];

fn pick_entity(rng: &mut Rng, classes: &[&[u8]]) -> u8 {
    let c = *rng.pick(classes);
    *rng.pick(c)
}
fn any_global(rng: &mut Rng) -> u8 {
    pick_entity(rng, &[&GLOBAL_PACKAGE, &GLOBAL_RESOURCE, &GLOBAL_COMPONENT])
}
fn any_internal(rng: &mut Rng) -> u8 {
    pick_entity(rng, &[&INTERNAL_VAULT, &INTERNAL_KV, &INTERNAL_OTHER])
}

pub fn validate(fl: Flavour, payload: &[u8], schema: &Sch, type_id: LocalTypeId, depth: usize) -> Result<(), String> {
    match fl {
        Flavour::Scrypto => validate_payload_against_schema::<ScryptoCustomExtension, ()>(payload, schema, type_id, &(), depth)
            .map_err(|e| format!("{:?}", e.error)),
        Flavour::Manifest => validate_payload_against_schema::<ManifestCustomExtension, ()>(payload, schema, type_id, &(), depth)
            .map_err(|e| format!("{:?}", e.error)),
        Flavour::Basic => unreachable!(),
    }
}

/// First identifier-like tokens of a Debug-formatted validation error: a stable class name.
pub fn error_class(e: &str) -> String {
    let mut out = vec![];
    let mut cur = String::new();
    for ch in e.chars() {
        if ch.is_ascii_alphanumeric() || ch == '_' {
            cur.push(ch);
        } else {
            if cur.chars().next().map(|c| c.is_ascii_uppercase()).unwrap_or(false) && cur.len() > 3 {
                out.push(cur.clone());
            }
            cur.clear();
            if out.len() >= 3 {
                break;
            }
        }
    }
    out.join(".")
}

// ---------------------------------------------------------------------------------------------
// Payload generation from a schema
// ---------------------------------------------------------------------------------------------
pub struct PGen<'a> {
    pub schema: &'a Sch,
    pub fl: Flavour,
    /// remaining node budget
    pub budget: i64,
    /// prefer boundary values of validations
    pub edgy: bool,
}

fn num_in<T: Copy + PartialOrd>(rng: &mut Rng, min: T, max: T, pick: impl Fn(&mut Rng) -> T, edgy: bool, succ: impl Fn(T) -> T, pred: impl Fn(T) -> T) -> Option<T> {
    if min > max {
        return None;
    }
    if edgy || rng.chance(1, 3) {
        let c = match rng.below(4) {
            0 => min,
            1 => max,
            2 => succ(min),
            _ => pred(max),
        };
        if c >= min && c <= max {
            return Some(c);
        }
    }
    for _ in 0..8 {
        let c = pick(rng);
        if c >= min && c <= max {
            return Some(c);
        }
    }
    Some(if rng.bool() { min } else { max })
}

macro_rules! gen_num {
    ($self:ident, $rng:ident, $val:expr, $variant:ident, $t:ty, $rv:ident) => {{
        let (mn, mx) = match $val {
            TypeValidation::$variant(v) => (v.min.unwrap_or(<$t>::MIN), v.max.unwrap_or(<$t>::MAX)),
            _ => (<$t>::MIN, <$t>::MAX),
        };
        let x = num_in($rng, mn, mx, |r| wire::int_u128(r) as $t, $self.edgy, |x: $t| x.saturating_add(1), |x: $t| x.saturating_sub(1))?;
        Some(RV::$rv(x))
    }};
}

impl<'a> PGen<'a> {
    fn len_in(&self, rng: &mut Rng, v: Option<&LengthValidation>, soft_max: usize) -> Option<usize> {
        let (mn, mx) = match v {
            Some(l) => (l.min.unwrap_or(0) as usize, l.max.unwrap_or(u32::MAX) as usize),
            None => (0, usize::MAX),
        };
        if mn > mx || mn > 300 {
            return None; // unsatisfiable or too expensive
        }
        let hi = mx.min(mn.max(soft_max));
        let mut cands = vec![mn, hi];
        if self.edgy {
            if mx <= 300 {
                cands.push(mx);
            }
            cands.push((mn + 1).min(hi));
        } else {
            cands.push(mn + rng.usize_below(hi - mn + 1));
            cands.push(mn + rng.usize_below(hi - mn + 1));
        }
        Some(*rng.pick(&cands))
    }

    /// A concrete wire kind byte for values of `tid` (resolving the choices a type leaves open).
    pub fn plan_kind(&self, rng: &mut Rng, tid: LocalTypeId) -> Option<u8> {
        let kind = self.schema.resolve_type_kind(tid)?;
        let val = self.schema.resolve_type_validation(tid)?;
        Some(match kind {
            TypeKind::Any => wire::pick_kind(rng, self.fl, true),
            TypeKind::Bool => K_BOOL,
            TypeKind::I8 => K_I8,
            TypeKind::I16 => K_I16,
            TypeKind::I32 => K_I32,
            TypeKind::I64 => K_I64,
            TypeKind::I128 => K_I128,
            TypeKind::U8 => K_U8,
            TypeKind::U16 => K_U16,
            TypeKind::U32 => K_U32,
            TypeKind::U64 => K_U64,
            TypeKind::U128 => K_U128,
            TypeKind::String => K_STRING,
            TypeKind::Array { element_type } => {
                if self.fl == Flavour::Manifest && rng.chance(1, 3) {
                    match self.schema.resolve_type_kind(*element_type) {
                        Some(TypeKind::U8) => return Some(0x84), // blob
                        Some(TypeKind::Custom(ScryptoCustomTypeKind::Own)) => return Some(0x83), // expression
                        _ => {}
                    }
                }
                K_ARRAY
            }
            TypeKind::Tuple { .. } => K_TUPLE,
            TypeKind::Enum { .. } => K_ENUM,
            TypeKind::Map { .. } => K_MAP,
            TypeKind::Custom(c) => match (self.fl, c) {
                (Flavour::Scrypto, ScryptoCustomTypeKind::Reference) => 0x80,
                (Flavour::Scrypto, ScryptoCustomTypeKind::Own) => 0x90,
                (Flavour::Scrypto, ScryptoCustomTypeKind::Decimal) => 0xa0,
                (Flavour::Scrypto, ScryptoCustomTypeKind::PreciseDecimal) => 0xb0,
                (Flavour::Scrypto, ScryptoCustomTypeKind::NonFungibleLocalId) => 0xc0,
                (_, ScryptoCustomTypeKind::Reference) => 0x80,
                (_, ScryptoCustomTypeKind::Own) => match val {
                    TypeValidation::Custom(ScryptoCustomTypeValidation::Own(o)) => match o {
                        OwnValidation::IsBucket => 0x81,
                        OwnValidation::IsProof => 0x82,
                        OwnValidation::IsGlobalAddressReservation => 0x88,
                        OwnValidation::IsTypedObject(..) => *rng.pick(&[0x81, 0x82]),
                        _ => *rng.pick(&[0x81, 0x82, 0x88]), // vault / kv store: nothing can match
                    },
                    _ => *rng.pick(&[0x81, 0x82, 0x88]),
                },
                (_, ScryptoCustomTypeKind::Decimal) => 0x85,
                (_, ScryptoCustomTypeKind::PreciseDecimal) => 0x86,
                (_, ScryptoCustomTypeKind::NonFungibleLocalId) => 0x87,
            },
        })
    }

    pub fn gen(&mut self, rng: &mut Rng, tid: LocalTypeId, depth_left: usize) -> Option<RV> {
        let k = self.plan_kind(rng, tid)?;
        self.gen_of_kind(rng, tid, k, depth_left)
    }

    pub fn gen_of_kind(&mut self, rng: &mut Rng, tid: LocalTypeId, k: u8, depth_left: usize) -> Option<RV> {
        if depth_left == 0 {
            return None;
        }
        self.budget -= 1;
        if self.budget < -2000 {
            return None;
        }
        let kind = self.schema.resolve_type_kind(tid)?;
        let val = self.schema.resolve_type_validation(tid)?;
        let small = if self.budget > 0 { 4 } else { 0 };
        match kind {
            TypeKind::Any => {
                let mut b = (self.budget.max(1) as usize).min(10);
                let v = wire::gen_value_of_kind(rng, self.fl, k, depth_left.min(4), &mut b);
                self.budget -= 3;
                Some(v)
            }
            TypeKind::Bool => Some(RV::Bool(rng.bool())),
            TypeKind::I8 => gen_num!(self, rng, val, I8, i8, I8),
            TypeKind::I16 => gen_num!(self, rng, val, I16, i16, I16),
            TypeKind::I32 => gen_num!(self, rng, val, I32, i32, I32),
            TypeKind::I64 => gen_num!(self, rng, val, I64, i64, I64),
            TypeKind::I128 => gen_num!(self, rng, val, I128, i128, I128),
            TypeKind::U8 => gen_num!(self, rng, val, U8, u8, U8),
            TypeKind::U16 => gen_num!(self, rng, val, U16, u16, U16),
            TypeKind::U32 => gen_num!(self, rng, val, U32, u32, U32),
            TypeKind::U64 => gen_num!(self, rng, val, U64, u64, U64),
            TypeKind::U128 => gen_num!(self, rng, val, U128, u128, U128),
            TypeKind::String => {
                let lv = if let TypeValidation::String(l) = val { Some(l) } else { None };
                let n = self.len_in(rng, lv, 12)?;
                // byte length is what is validated: ASCII, with an optional 2-byte char when it fits
                let mut s = String::new();
                while s.len() < n {
                    if n - s.len() >= 2 && rng.chance(1, 5) {
                        s.push('é');
                    } else {
                        s.push(*rng.pick(&['a', 'Z', '_', '0', ' ']));
                    }
                }
                Some(RV::Str(s))
            }
            TypeKind::Array { element_type } => {
                if k == 0x84 {
                    return Some(wire::gen_custom(rng, Flavour::Manifest, 0x84));
                }
                if k == 0x83 {
                    return Some(wire::gen_custom(rng, Flavour::Manifest, 0x83));
                }
                let lv = if let TypeValidation::Array(l) = val { Some(l) } else { None };
                let n = self.len_in(rng, lv, small)?;
                let ek = self.plan_kind(rng, *element_type)?;
                let mut f = Vec::with_capacity(n);
                for _ in 0..n {
                    f.push(self.gen_of_kind(rng, *element_type, ek, depth_left - 1)?);
                }
                Some(RV::Array(ek, f))
            }
            TypeKind::Tuple { field_types } => {
                let mut f = vec![];
                for t in field_types.iter() {
                    f.push(self.gen(rng, *t, depth_left - 1)?);
                }
                Some(RV::Tuple(f))
            }
            TypeKind::Enum { variants } => {
                if variants.is_empty() {
                    return None;
                }
                // prefer a variant that can terminate when the budget is gone
                let mut order: Vec<usize> = (0..variants.len()).collect();
                rng.shuffle(&mut order);
                if self.budget <= 0 {
                    order.sort_by_key(|i| variants.get_index(*i).unwrap().1.len());
                }
                for i in order.into_iter().take(3) {
                    let (d, fts) = variants.get_index(i).unwrap();
                    let mut f = vec![];
                    let mut ok = true;
                    for t in fts.iter() {
                        match self.gen(rng, *t, depth_left - 1) {
                            Some(x) => f.push(x),
                            None => {
                                ok = false;
                                break;
                            }
                        }
                    }
                    if ok {
                        return Some(RV::Enum(*d, f));
                    }
                }
                None
            }
            TypeKind::Map { key_type, value_type } => {
                let lv = if let TypeValidation::Map(l) = val { Some(l) } else { None };
                let n = self.len_in(rng, lv, small)?;
                let kk = self.plan_kind(rng, *key_type)?;
                let vk = self.plan_kind(rng, *value_type)?;
                let mut e = vec![];
                for _ in 0..n {
                    let key = self.gen_of_kind(rng, *key_type, kk, depth_left - 1)?;
                    let v = self.gen_of_kind(rng, *value_type, vk, depth_left - 1)?;
                    e.push((key, v));
                }
                Some(RV::Map(kk, vk, e))
            }
            TypeKind::Custom(c) => Some(self.gen_custom(rng, c, val, k)),
        }
    }

    fn node_for_reference(&self, rng: &mut Rng, val: &TV) -> Vec<u8> {
        let e = match val {
            TypeValidation::Custom(ScryptoCustomTypeValidation::Reference(r)) => match r {
                ReferenceValidation::IsGlobal | ReferenceValidation::IsGlobalTyped(..) => any_global(rng),
                ReferenceValidation::IsGlobalPackage => 0x0d,
                ReferenceValidation::IsGlobalComponent => *rng.pick(&GLOBAL_COMPONENT),
                ReferenceValidation::IsGlobalResourceManager => *rng.pick(&GLOBAL_RESOURCE),
                ReferenceValidation::IsInternal | ReferenceValidation::IsInternalTyped(..) => any_internal(rng),
            },
            _ => *rng.pick(&ENTITY_BYTES),
        };
        let mut b = rng.bytes(30);
        b[0] = e;
        b
    }

    fn gen_custom(&mut self, rng: &mut Rng, c: &ScryptoCustomTypeKind, val: &TV, k: u8) -> RV {
        match (self.fl, c) {
            (Flavour::Scrypto, ScryptoCustomTypeKind::Reference) => RV::Custom(0x80, self.node_for_reference(rng, val)),
            (Flavour::Scrypto, ScryptoCustomTypeKind::Own) => {
                let e = match val {
                    TypeValidation::Custom(ScryptoCustomTypeValidation::Own(o)) => match o {
                        OwnValidation::IsBucket | OwnValidation::IsProof => any_internal(rng),
                        OwnValidation::IsVault => *rng.pick(&INTERNAL_VAULT),
                        OwnValidation::IsKeyValueStore => 0xb0,
                        _ => *rng.pick(&ENTITY_BYTES),
                    },
                    _ => *rng.pick(&ENTITY_BYTES),
                };
                let mut b = rng.bytes(30);
                b[0] = e;
                RV::Custom(0x90, b)
            }
            (Flavour::Manifest, ScryptoCustomTypeKind::Reference) => {
                if rng.chance(1, 4) {
                    let mut b = vec![1u8];
                    b.extend(rng.bytes(4));
                    RV::Custom(0x80, b)
                } else {
                    let mut b = vec![0u8];
                    b.extend(self.node_for_reference(rng, val));
                    RV::Custom(0x80, b)
                }
            }
            (fl, _) => wire::gen_custom(rng, fl, k),
        }
    }
}

// ---------------------------------------------------------------------------------------------
// Tree-level near-miss mutation (schema-unaware)
// ---------------------------------------------------------------------------------------------
pub fn tweak(rng: &mut Rng, fl: Flavour, v: &mut RV) {
    // walk to a random node
    let n = count(v);
    let target = rng.usize_below(n);
    let mut i = 0;
    tweak_at(rng, fl, v, target, &mut i);
}
fn count(v: &RV) -> usize {
    match v {
        RV::Enum(_, f) | RV::Tuple(f) | RV::Array(_, f) => 1 + f.iter().map(count).sum::<usize>(),
        RV::Map(_, _, e) => 1 + e.iter().map(|(k, v)| count(k) + count(v)).sum::<usize>(),
        _ => 1,
    }
}
macro_rules! tw_int {
    ($rng:ident, $x:ident, $t:ty) => {{
        *$x = match $rng.below(5) {
            0 => $x.wrapping_add(1),
            1 => $x.wrapping_sub(1),
            2 => <$t>::MIN,
            3 => <$t>::MAX,
            _ => wire::int_u128($rng) as $t,
        }
    }};
}
fn tweak_at(rng: &mut Rng, fl: Flavour, v: &mut RV, target: usize, i: &mut usize) -> bool {
    let here = *i == target;
    *i += 1;
    if here {
        match v {
            RV::Bool(b) => *b = !*b,
            RV::I8(x) => tw_int!(rng, x, i8),
            RV::I16(x) => tw_int!(rng, x, i16),
            RV::I32(x) => tw_int!(rng, x, i32),
            RV::I64(x) => tw_int!(rng, x, i64),
            RV::I128(x) => tw_int!(rng, x, i128),
            RV::U8(x) => tw_int!(rng, x, u8),
            RV::U16(x) => tw_int!(rng, x, u16),
            RV::U32(x) => tw_int!(rng, x, u32),
            RV::U64(x) => tw_int!(rng, x, u64),
            RV::U128(x) => tw_int!(rng, x, u128),
            RV::Str(s) => {
                if rng.bool() || s.is_empty() {
                    s.push('x')
                } else {
                    s.pop();
                }
            }
            RV::Enum(d, f) => match rng.below(3) {
                0 => *d = d.wrapping_add(1),
                1 => *d = rng.u8(),
                _ => {
                    if rng.bool() || f.is_empty() {
                        f.push(RV::U8(0))
                    } else {
                        f.pop();
                    }
                }
            },
            RV::Tuple(f) => {
                if rng.bool() || f.is_empty() {
                    f.push(RV::Tuple(vec![]))
                } else {
                    f.pop();
                }
            }
            RV::Array(k, f) => {
                if rng.bool() || f.is_empty() {
                    let mut b = 3usize;
                    let x = wire::gen_value_of_kind(rng, fl, *k, 2, &mut b);
                    f.push(x)
                } else {
                    f.pop();
                }
            }
            RV::Map(kk, vk, e) => {
                if rng.bool() || e.is_empty() {
                    let mut b = 3usize;
                    let key = wire::gen_value_of_kind(rng, fl, *kk, 2, &mut b);
                    let val = wire::gen_value_of_kind(rng, fl, *vk, 2, &mut b);
                    e.push((key, val))
                } else {
                    e.pop();
                }
            }
            RV::Custom(k, b) => {
                // change the entity byte / discriminator / a random byte, or swap the custom kind
                if rng.chance(1, 4) && fl != Flavour::Basic {
                    let nk = *rng.pick(fl.custom_kinds());
                    *v = wire::gen_custom(rng, fl, nk);
                } else if !b.is_empty() {
                    let at = if rng.bool() { 0 } else { rng.usize_below(b.len()) };
                    let cands: Vec<u8> = ENTITY_BYTES.iter().copied().chain([0u8, 1, 2]).collect();
                    b[at] = *rng.pick(&cands);
                    let _ = k;
                }
            }
        }
        return true;
    }
    match v {
        RV::Enum(_, f) | RV::Tuple(f) | RV::Array(_, f) => {
            for x in f.iter_mut() {
                if tweak_at(rng, fl, x, target, i) {
                    return true;
                }
            }
        }
        RV::Map(_, _, e) => {
            for (k, x) in e.iter_mut() {
                if tweak_at(rng, fl, k, target, i) || tweak_at(rng, fl, x, target, i) {
                    return true;
                }
            }
        }
        _ => {}
    }
    false
}

// ---------------------------------------------------------------------------------------------
// Random schemas
// ---------------------------------------------------------------------------------------------
pub fn well_known_ids() -> Vec<LocalTypeId> {
    (0u8..=255)
        .filter_map(|i| {
            let id = WellKnownTypeId::of(i);
            <S as CustomSchema>::resolve_well_known_type(id).map(|_| LocalTypeId::WellKnown(id))
        })
        .collect()
}

const NAMES: [&str; 12] = ["Alpha", "Beta", "Gamma", "Delta", "Eps", "Zeta", "Eta", "Theta", "Iota", "Kappa", "Lam", "Mu"];
const FIELD_NAMES: [&str; 10] = ["a", "b", "c", "d", "e", "f", "g", "h", "i", "j"];

fn name(rng: &mut Rng) -> Cow<'static, str> {
    if rng.chance(1, 3) {
        Cow::Owned(format!("{}{}", rng.pick(&NAMES), rng.below(4)))
    } else {
        Cow::Borrowed(*rng.pick(&NAMES))
    }
}
fn opt_name(rng: &mut Rng) -> Option<Cow<'static, str>> {
    if rng.bool() {
        Some(name(rng))
    } else {
        None
    }
}
fn field_names(rng: &mut Rng, n: usize) -> Option<ChildNames> {
    if n > FIELD_NAMES.len() || rng.bool() {
        return None;
    }
    let mut idx: Vec<usize> = (0..FIELD_NAMES.len()).collect();
    rng.shuffle(&mut idx);
    Some(ChildNames::NamedFields(idx[..n].iter().map(|i| Cow::Borrowed(FIELD_NAMES[*i])).collect()))
}
fn variant_meta(rng: &mut Rng, used: &mut Vec<String>, nfields: usize) -> TypeMetadata {
    let mut n;
    loop {
        n = format!("{}{}", rng.pick(&NAMES), rng.below(40));
        if !used.contains(&n) {
            break;
        }
    }
    used.push(n.clone());
    TypeMetadata { type_name: Some(Cow::Owned(n)), child_names: field_names(rng, nfields) }
}

fn num_validation<T: Copy + Ord + NumericValidationBound>(rng: &mut Rng, gen: impl Fn(&mut Rng) -> T) -> NumericValidation<T> {
    let a = gen(rng);
    let b = gen(rng);
    let (lo, hi) = if a <= b { (a, b) } else { (b, a) };
    match rng.below(4) {
        0 => NumericValidation { min: Some(lo), max: Some(hi) },
        1 => NumericValidation { min: Some(lo), max: None },
        2 => NumericValidation { min: None, max: Some(hi) },
        _ => NumericValidation { min: None, max: None },
    }
}
fn small_int(rng: &mut Rng) -> u128 {
    match rng.below(4) {
        0 => rng.below(8) as u128,
        1 => rng.below(300) as u128,
        _ => wire::int_u128(rng),
    }
}
fn len_validation(rng: &mut Rng) -> LengthValidation {
    let a = rng.below(6) as u32;
    let b = a + rng.below(6) as u32;
    match rng.below(4) {
        0 => LengthValidation { min: Some(a), max: Some(b) },
        1 => LengthValidation { min: Some(a), max: None },
        2 => LengthValidation { min: None, max: Some(b) },
        _ => LengthValidation { min: Some(a), max: Some(a) },
    }
}

pub fn random_validation(rng: &mut Rng, k: &TK) -> TV {
    if rng.chance(2, 5) {
        return TypeValidation::None;
    }
    match k {
        TypeKind::I8 => TypeValidation::I8(num_validation(rng, |r| small_int(r) as i8)),
        TypeKind::I16 => TypeValidation::I16(num_validation(rng, |r| small_int(r) as i16)),
        TypeKind::I32 => TypeValidation::I32(num_validation(rng, |r| small_int(r) as i32)),
        TypeKind::I64 => TypeValidation::I64(num_validation(rng, |r| small_int(r) as i64)),
        TypeKind::I128 => TypeValidation::I128(num_validation(rng, |r| small_int(r) as i128)),
        TypeKind::U8 => TypeValidation::U8(num_validation(rng, |r| small_int(r) as u8)),
        TypeKind::U16 => TypeValidation::U16(num_validation(rng, |r| small_int(r) as u16)),
        TypeKind::U32 => TypeValidation::U32(num_validation(rng, |r| small_int(r) as u32)),
        TypeKind::U64 => TypeValidation::U64(num_validation(rng, |r| small_int(r) as u64)),
        TypeKind::U128 => TypeValidation::U128(num_validation(rng, |r| small_int(r))),
        TypeKind::String => TypeValidation::String(len_validation(rng)),
        TypeKind::Array { .. } => TypeValidation::Array(len_validation(rng)),
        TypeKind::Map { .. } => TypeValidation::Map(len_validation(rng)),
        TypeKind::Custom(ScryptoCustomTypeKind::Reference) => TypeValidation::Custom(ScryptoCustomTypeValidation::Reference(random_ref_validation(rng))),
        TypeKind::Custom(ScryptoCustomTypeKind::Own) => TypeValidation::Custom(ScryptoCustomTypeValidation::Own(random_own_validation(rng))),
        _ => TypeValidation::None,
    }
}
pub fn random_ref_validation(rng: &mut Rng) -> ReferenceValidation {
    match rng.below(7) {
        0 => ReferenceValidation::IsGlobal,
        1 => ReferenceValidation::IsGlobalPackage,
        2 => ReferenceValidation::IsGlobalComponent,
        3 => ReferenceValidation::IsGlobalResourceManager,
        4 => ReferenceValidation::IsGlobalTyped(None, rng.pick(&NAMES).to_string()),
        5 => ReferenceValidation::IsInternal,
        _ => ReferenceValidation::IsInternalTyped(None, rng.pick(&NAMES).to_string()),
    }
}
pub fn random_own_validation(rng: &mut Rng) -> OwnValidation {
    match rng.below(6) {
        0 => OwnValidation::IsBucket,
        1 => OwnValidation::IsProof,
        2 => OwnValidation::IsVault,
        3 => OwnValidation::IsKeyValueStore,
        4 => OwnValidation::IsGlobalAddressReservation,
        _ => OwnValidation::IsTypedObject(None, rng.pick(&NAMES).to_string()),
    }
}

pub struct SchemaBuilder {
    pub s: Sch,
    pub wk: Vec<LocalTypeId>,
}

impl SchemaBuilder {
    pub fn new() -> Self {
        SchemaBuilder { s: Sch::empty(), wk: well_known_ids() }
    }
    fn push(&mut self, k: TK, m: TypeMetadata, v: TV) -> LocalTypeId {
        self.s.type_kinds.push(k);
        self.s.type_metadata.push(m);
        self.s.type_validations.push(v);
        LocalTypeId::SchemaLocalIndex(self.s.type_kinds.len() - 1)
    }
    /// a child type reference: well-known, existing local (sharing / recursion), or a new local type
    pub fn child(&mut self, rng: &mut Rng, levels: usize) -> LocalTypeId {
        let n = self.s.type_kinds.len();
        match rng.below(10) {
            0..=3 => *rng.pick(&self.wk),
            4 if n > 0 && n < 40 => LocalTypeId::SchemaLocalIndex(rng.usize_below(n)),
            _ if levels == 0 || n >= 24 => *rng.pick(&self.wk),
            _ => self.new_type(rng, levels - 1),
        }
    }
    pub fn new_type(&mut self, rng: &mut Rng, levels: usize) -> LocalTypeId {
        // reserve the slot first so that children can refer back to it (recursive types)
        let idx = self.s.type_kinds.len();
        self.push(TypeKind::Any, TypeMetadata::unnamed(), TypeValidation::None);
        let (k, m): (TK, TypeMetadata) = match rng.below(20) {
            0 => (TypeKind::Any, TypeMetadata { type_name: opt_name(rng), child_names: None }),
            1..=4 => {
                let k = match rng.below(13) {
                    0 => TypeKind::Bool,
                    1 => TypeKind::I8,
                    2 => TypeKind::I16,
                    3 => TypeKind::I32,
                    4 => TypeKind::I64,
                    5 => TypeKind::I128,
                    6 => TypeKind::U8,
                    7 => TypeKind::U16,
                    8 => TypeKind::U32,
                    9 => TypeKind::U64,
                    10 => TypeKind::U128,
                    _ => TypeKind::String,
                };
                (k, TypeMetadata { type_name: opt_name(rng), child_names: None })
            }
            5 | 6 => {
                let c = match rng.below(5) {
                    0 => ScryptoCustomTypeKind::Reference,
                    1 => ScryptoCustomTypeKind::Own,
                    2 => ScryptoCustomTypeKind::Decimal,
                    3 => ScryptoCustomTypeKind::PreciseDecimal,
                    _ => ScryptoCustomTypeKind::NonFungibleLocalId,
                };
                (TypeKind::Custom(c), TypeMetadata { type_name: opt_name(rng), child_names: None })
            }
            7..=9 => {
                let e = if rng.chance(1, 4) { LocalTypeId::WellKnown(basic_well_known_types::U8_TYPE) } else { self.child(rng, levels) };
                (TypeKind::Array { element_type: e }, TypeMetadata { type_name: opt_name(rng), child_names: None })
            }
            10..=13 => {
                let n = rng.size(4);
                let f: Vec<LocalTypeId> = (0..n).map(|_| self.child(rng, levels)).collect();
                (TypeKind::Tuple { field_types: f }, TypeMetadata { type_name: opt_name(rng), child_names: field_names(rng, n) })
            }
            14..=17 => {
                let nv = 1 + rng.usize_below(4);
                let mut variants: IndexMap<u8, Vec<LocalTypeId>> = IndexMap::default();
                let mut metas: IndexMap<u8, TypeMetadata> = IndexMap::default();
                let mut used = vec![];
                for _ in 0..nv {
                    let d = if rng.chance(1, 3) { rng.u8() } else { rng.below(5) as u8 };
                    if variants.contains_key(&d) {
                        continue;
                    }
                    let nf = rng.size(3);
                    let f: Vec<LocalTypeId> = (0..nf).map(|_| self.child(rng, levels)).collect();
                    metas.insert(d, variant_meta(rng, &mut used, nf));
                    variants.insert(d, f);
                }
                (TypeKind::Enum { variants }, TypeMetadata { type_name: Some(name(rng)), child_names: Some(ChildNames::EnumVariants(metas)) })
            }
            _ => {
                let k = self.child(rng, levels);
                let v = self.child(rng, levels);
                (TypeKind::Map { key_type: k, value_type: v }, TypeMetadata { type_name: opt_name(rng), child_names: None })
            }
        };
        let v = random_validation(rng, &k);
        self.s.type_kinds[idx] = k;
        self.s.type_metadata[idx] = m;
        self.s.type_validations[idx] = v;
        LocalTypeId::SchemaLocalIndex(idx)
    }
}

pub fn random_schema(rng: &mut Rng) -> (Sch, LocalTypeId) {
    let mut b = SchemaBuilder::new();
    let levels = 1 + rng.usize_below(3);
    let root = b.new_type(rng, levels);
    (b.s, root)
}

// ---------------------------------------------------------------------------------------------
// Schema mutants
// ---------------------------------------------------------------------------------------------
pub const MUTATIONS: [&str; 22] = [
    "identity",
    "add-enum-variant",
    "remove-enum-variant",
    "change-variant-fields",
    "widen-validation",
    "narrow-validation",
    "drop-validation",
    "add-validation",
    "replace-validation",
    "rename-type",
    "drop-type-name",
    "rename-field-or-variant",
    "child-to-any",
    "type-to-any",
    "change-kind",
    "swap-children",
    "change-tuple-arity",
    "retarget-child",
    "custom-validation-change",
    "add-unreachable-type",
    "clone-type-and-retarget",
    "change-discriminator",
];

fn pick_local(rng: &mut Rng, s: &Sch, pred: impl Fn(&TK) -> bool) -> Option<usize> {
    let c: Vec<usize> = (0..s.type_kinds.len()).filter(|i| pred(&s.type_kinds[*i])).collect();
    if c.is_empty() {
        None
    } else {
        Some(*rng.pick(&c))
    }
}

fn children_mut(k: &mut TK) -> Vec<&mut LocalTypeId> {
    match k {
        TypeKind::Array { element_type } => vec![element_type],
        TypeKind::Tuple { field_types } => field_types.iter_mut().collect(),
        TypeKind::Enum { variants } => variants.values_mut().flat_map(|v| v.iter_mut()).collect(),
        TypeKind::Map { key_type, value_type } => vec![key_type, value_type],
        _ => vec![],
    }
}

macro_rules! shift_num {
    ($v:ident, $widen:expr, $rng:ident) => {{
        let by = if $rng.bool() { 1 } else { 1 + $rng.below(5) as u8 };
        let lo_side = $rng.bool();
        if lo_side {
            if let Some(m) = $v.min.as_mut() {
                *m = if $widen { m.saturating_sub(by as _) } else { m.saturating_add(by as _) };
            } else if !$widen {
                $v.min = Some(by as _);
            }
        } else if let Some(m) = $v.max.as_mut() {
            *m = if $widen { m.saturating_add(by as _) } else { m.saturating_sub(by as _) };
        } else if !$widen {
            $v.max = Some(100 as _);
        }
    }};
}

fn shift_validation(rng: &mut Rng, v: &mut TV, widen: bool) -> bool {
    match v {
        TypeValidation::I8(x) => shift_num!(x, widen, rng),
        TypeValidation::I16(x) => shift_num!(x, widen, rng),
        TypeValidation::I32(x) => shift_num!(x, widen, rng),
        TypeValidation::I64(x) => shift_num!(x, widen, rng),
        TypeValidation::I128(x) => shift_num!(x, widen, rng),
        TypeValidation::U8(x) => shift_num!(x, widen, rng),
        TypeValidation::U16(x) => shift_num!(x, widen, rng),
        TypeValidation::U32(x) => shift_num!(x, widen, rng),
        TypeValidation::U64(x) => shift_num!(x, widen, rng),
        TypeValidation::U128(x) => shift_num!(x, widen, rng),
        TypeValidation::String(x) | TypeValidation::Array(x) | TypeValidation::Map(x) => shift_num!(x, widen, rng),
        _ => return false,
    }
    true
}

/// Applies one named mutation; returns false if not applicable.
pub fn mutate_schema(rng: &mut Rng, s: &mut Sch, root: &mut LocalTypeId, which: &str) -> bool {
    let wk = well_known_ids();
    let n = s.type_kinds.len();
    if n == 0 {
        return false;
    }
    match which {
        "identity" => true,
        "add-enum-variant" => {
            let Some(i) = pick_local(rng, s, |k| matches!(k, TypeKind::Enum { .. })) else { return false };
            let TypeKind::Enum { variants } = &mut s.type_kinds[i] else { unreachable!() };
            let d = (0..=255u8).find(|d| !variants.contains_key(d) && rng.chance(1, 3)).or_else(|| (0..=255u8).find(|d| !variants.contains_key(d)));
            let Some(d) = d else { return false };
            let nf = rng.size(2);
            variants.insert(d, (0..nf).map(|_| *rng.pick(&wk)).collect());
            if let Some(ChildNames::EnumVariants(m)) = &mut s.type_metadata[i].child_names {
                let mut used: Vec<String> = m.values().filter_map(|x| x.type_name.as_ref().map(|c| c.to_string())).collect();
                m.insert(d, variant_meta(rng, &mut used, nf));
            }
            true
        }
        "remove-enum-variant" => {
            let Some(i) = pick_local(rng, s, |k| matches!(k, TypeKind::Enum { variants } if variants.len() > 1)) else { return false };
            let TypeKind::Enum { variants } = &mut s.type_kinds[i] else { unreachable!() };
            let d = *variants.get_index(rng.usize_below(variants.len())).unwrap().0;
            variants.shift_remove(&d);
            if let Some(ChildNames::EnumVariants(m)) = &mut s.type_metadata[i].child_names {
                m.shift_remove(&d);
            }
            true
        }
        "change-variant-fields" => {
            let Some(i) = pick_local(rng, s, |k| matches!(k, TypeKind::Enum { variants } if !variants.is_empty())) else { return false };
            let TypeKind::Enum { variants } = &mut s.type_kinds[i] else { unreachable!() };
            let vi = rng.usize_below(variants.len());
            let (d, f) = variants.get_index_mut(vi).unwrap();
            let d = *d;
            if rng.bool() || f.is_empty() {
                f.push(*rng.pick(&wk));
            } else {
                f.pop();
            }
            let nf = f.len();
            if let Some(ChildNames::EnumVariants(m)) = &mut s.type_metadata[i].child_names {
                if let Some(vm) = m.get_mut(&d) {
                    vm.child_names = field_names(rng, nf);
                }
            }
            true
        }
        "widen-validation" | "narrow-validation" => {
            let c: Vec<usize> = (0..n).filter(|i| !matches!(s.type_validations[*i], TypeValidation::None | TypeValidation::Custom(_))).collect();
            if c.is_empty() {
                return false;
            }
            let i = *rng.pick(&c);
            shift_validation(rng, &mut s.type_validations[i], which == "widen-validation")
        }
        "drop-validation" => {
            let c: Vec<usize> = (0..n).filter(|i| !matches!(s.type_validations[*i], TypeValidation::None)).collect();
            if c.is_empty() {
                return false;
            }
            s.type_validations[*rng.pick(&c)] = TypeValidation::None;
            true
        }
        "add-validation" | "replace-validation" => {
            let want_none = which == "add-validation";
            let c: Vec<usize> = (0..n).filter(|i| matches!(s.type_validations[*i], TypeValidation::None) == want_none).collect();
            if c.is_empty() {
                return false;
            }
            let i = *rng.pick(&c);
            for _ in 0..4 {
                let v = random_validation(rng, &s.type_kinds[i]);
                if v != TypeValidation::None {
                    s.type_validations[i] = v;
                    return true;
                }
            }
            false
        }
        "rename-type" => {
            let i = rng.usize_below(n);
            s.type_metadata[i].type_name = Some(name(rng));
            true
        }
        "drop-type-name" => {
            let c: Vec<usize> = (0..n).filter(|i| s.type_metadata[*i].type_name.is_some() && !matches!(s.type_kinds[*i], TypeKind::Enum { .. })).collect();
            if c.is_empty() {
                return false;
            }
            s.type_metadata[*rng.pick(&c)].type_name = None;
            true
        }
        "rename-field-or-variant" => {
            let c: Vec<usize> = (0..n).filter(|i| s.type_metadata[*i].child_names.is_some()).collect();
            if c.is_empty() {
                return false;
            }
            let i = *rng.pick(&c);
            match s.type_metadata[i].child_names.as_mut().unwrap() {
                ChildNames::NamedFields(f) => {
                    if f.is_empty() {
                        return false;
                    }
                    let j = rng.usize_below(f.len());
                    f[j] = Cow::Owned(format!("renamed{}", rng.below(1000)));
                }
                ChildNames::EnumVariants(m) => {
                    if m.is_empty() {
                        return false;
                    }
                    let j = rng.usize_below(m.len());
                    let (_, vm) = m.get_index_mut(j).unwrap();
                    if rng.bool() {
                        vm.type_name = Some(Cow::Owned(format!("Renamed{}", rng.below(100000))));
                    } else {
                        match vm.child_names.as_mut() {
                            Some(ChildNames::NamedFields(f)) if !f.is_empty() => {
                                let j = rng.usize_below(f.len());
                                f[j] = Cow::Owned(format!("renamed{}", rng.below(1000)));
                            }
                            _ => vm.child_names = None,
                        }
                    }
                }
            }
            true
        }
        "child-to-any" | "retarget-child" => {
            let Some(i) = pick_local(rng, s, |k| !matches!(k, TypeKind::Custom(_)) && {
                let mut k2 = k.clone();
                !children_mut(&mut k2).is_empty()
            }) else {
                return false;
            };
            let mut ch = children_mut(&mut s.type_kinds[i]);
            let j = rng.usize_below(ch.len());
            *ch[j] = if which == "child-to-any" {
                LocalTypeId::WellKnown(basic_well_known_types::ANY_TYPE)
            } else if rng.bool() {
                *rng.pick(&wk)
            } else {
                LocalTypeId::SchemaLocalIndex(rng.usize_below(n))
            };
            true
        }
        "type-to-any" => {
            let i = rng.usize_below(n);
            s.type_kinds[i] = TypeKind::Any;
            s.type_metadata[i].child_names = None;
            if rng.bool() {
                s.type_validations[i] = TypeValidation::None;
            }
            true
        }
        "change-kind" => {
            let i = rng.usize_below(n);
            let nk: TK = match rng.below(8) {
                0 => TypeKind::U8,
                1 => TypeKind::U16,
                2 => TypeKind::I8,
                3 => TypeKind::String,
                4 => TypeKind::Bool,
                5 => TypeKind::Tuple { field_types: vec![] },
                6 => TypeKind::Array { element_type: *rng.pick(&wk) },
                _ => TypeKind::Custom(ScryptoCustomTypeKind::Decimal),
            };
            s.type_kinds[i] = nk;
            s.type_metadata[i].child_names = None;
            if rng.bool() {
                s.type_validations[i] = TypeValidation::None;
            }
            true
        }
        "swap-children" => {
            let Some(i) = pick_local(rng, s, |k| matches!(k, TypeKind::Tuple { field_types } if field_types.len() > 1) || matches!(k, TypeKind::Map { .. })) else {
                return false;
            };
            match &mut s.type_kinds[i] {
                TypeKind::Tuple { field_types } => {
                    let a = rng.usize_below(field_types.len());
                    let b = rng.usize_below(field_types.len());
                    field_types.swap(a, b);
                }
                TypeKind::Map { key_type, value_type } => std::mem::swap(key_type, value_type),
                _ => {}
            }
            true
        }
        "change-tuple-arity" => {
            let Some(i) = pick_local(rng, s, |k| matches!(k, TypeKind::Tuple { .. })) else { return false };
            let TypeKind::Tuple { field_types } = &mut s.type_kinds[i] else { unreachable!() };
            if rng.bool() || field_types.is_empty() {
                field_types.push(*rng.pick(&wk));
            } else {
                field_types.pop();
            }
            let nf = field_types.len();
            s.type_metadata[i].child_names = field_names(rng, nf);
            true
        }
        "custom-validation-change" => {
            let Some(i) = pick_local(rng, s, |k| matches!(k, TypeKind::Custom(ScryptoCustomTypeKind::Reference) | TypeKind::Custom(ScryptoCustomTypeKind::Own))) else {
                return false;
            };
            s.type_validations[i] = match (&s.type_kinds[i], rng.chance(1, 5)) {
                (_, true) => TypeValidation::None,
                (TypeKind::Custom(ScryptoCustomTypeKind::Reference), _) => TypeValidation::Custom(ScryptoCustomTypeValidation::Reference(random_ref_validation(rng))),
                _ => TypeValidation::Custom(ScryptoCustomTypeValidation::Own(random_own_validation(rng))),
            };
            true
        }
        "add-unreachable-type" => {
            s.type_kinds.push(TypeKind::U8);
            s.type_metadata.push(TypeMetadata::unnamed());
            s.type_validations.push(TypeValidation::None);
            true
        }
        "clone-type-and-retarget" => {
            // structurally identical schema with a different type layout
            let i = rng.usize_below(n);
            s.type_kinds.push(s.type_kinds[i].clone());
            s.type_metadata.push(s.type_metadata[i].clone());
            s.type_validations.push(s.type_validations[i].clone());
            let new_id = LocalTypeId::SchemaLocalIndex(n);
            let old_id = LocalTypeId::SchemaLocalIndex(i);
            let mut changed = false;
            for k in s.type_kinds.iter_mut() {
                for c in children_mut(k) {
                    if *c == old_id && rng.bool() {
                        *c = new_id;
                        changed = true;
                    }
                }
            }
            if *root == old_id && rng.bool() {
                *root = new_id;
                changed = true;
            }
            let _ = changed;
            true
        }
        "change-discriminator" => {
            let Some(i) = pick_local(rng, s, |k| matches!(k, TypeKind::Enum { variants } if !variants.is_empty())) else { return false };
            let TypeKind::Enum { variants } = &mut s.type_kinds[i] else { unreachable!() };
            let old = *variants.get_index(rng.usize_below(variants.len())).unwrap().0;
            let Some(newd) = (0..=255u8).find(|d| !variants.contains_key(d)) else { return false };
            let f = variants.shift_remove(&old).unwrap();
            variants.insert(newd, f);
            if let Some(ChildNames::EnumVariants(m)) = &mut s.type_metadata[i].child_names {
                if let Some(vm) = m.shift_remove(&old) {
                    m.insert(newd, vm);
                }
            }
            true
        }
        _ => false,
    }
}
