//! Binding of the three SBOR flavours of the code under test to the independent model in `wire`.
use crate::wire::{Flavour, RV};
use radix_common::data::manifest::model::*;
use radix_common::data::manifest::{ManifestCustomTraversal, ManifestCustomValue, ManifestCustomValueKind};
use radix_common::data::scrypto::model::*;
use radix_common::data::scrypto::{ScryptoCustomTraversal, ScryptoCustomValue, ScryptoCustomValueKind};
use radix_common::math::{Decimal, PreciseDecimal};
use radix_common::types::NodeId;
use sbor::traversal::*;
use sbor::*;
use std::fmt::Debug;

pub trait Flav: 'static {
    type X: CustomValueKind + 'static;
    type Y: CustomValue<Self::X>
        + Clone
        + PartialEq
        + Debug
        + for<'a> Decode<Self::X, VecDecoder<'a, Self::X>>
        + for<'a> Encode<Self::X, VecEncoder<'a, Self::X>>
        + 'static;
    type T: CustomTraversal<CustomValueKind = Self::X> + 'static;
    const FL: Flavour;
    fn custom_to_rv(y: &Self::Y) -> RV;
    fn custom_from_rv(kind: u8, body: &[u8]) -> Option<Self::Y>;
}

pub type Val<F> = Value<<F as Flav>::X, <F as Flav>::Y>;

pub struct BasicF;
pub struct ScryptoF;
pub struct ManifestF;

impl Flav for BasicF {
    type X = NoCustomValueKind;
    type Y = NoCustomValue;
    type T = NoCustomTraversal;
    const FL: Flavour = Flavour::Basic;
    fn custom_to_rv(_: &Self::Y) -> RV {
        unreachable!()
    }
    fn custom_from_rv(_: u8, _: &[u8]) -> Option<Self::Y> {
        None
    }
}

fn arr<const N: usize>(b: &[u8]) -> Option<[u8; N]> {
    b.try_into().ok()
}

fn size_prefixed(disc: u8, body: &[u8]) -> Vec<u8> {
    let mut v = vec![disc];
    crate::wire::write_size(body.len(), &mut v);
    v.extend_from_slice(body);
    v
}

/// reads `size bytes` and requires that nothing follows
fn read_sized(b: &[u8]) -> Option<&[u8]> {
    let mut n = 0usize;
    let mut i = 0;
    loop {
        let x = *b.get(i)?;
        n |= ((x & 0x7f) as usize) << (7 * i);
        i += 1;
        if x & 0x80 == 0 {
            break;
        }
        if i == 4 {
            return None;
        }
    }
    if b.len() - i != n {
        return None;
    }
    Some(&b[i..])
}

impl Flav for ScryptoF {
    type X = ScryptoCustomValueKind;
    type Y = ScryptoCustomValue;
    type T = ScryptoCustomTraversal;
    const FL: Flavour = Flavour::Scrypto;
    fn custom_to_rv(y: &Self::Y) -> RV {
        match y {
            ScryptoCustomValue::Reference(r) => RV::Custom(0x80, r.0 .0.to_vec()),
            ScryptoCustomValue::Own(o) => RV::Custom(0x90, o.0 .0.to_vec()),
            ScryptoCustomValue::Decimal(d) => RV::Custom(0xa0, d.to_vec()),
            ScryptoCustomValue::PreciseDecimal(d) => RV::Custom(0xb0, d.to_vec()),
            ScryptoCustomValue::NonFungibleLocalId(id) => RV::Custom(
                0xc0,
                match id {
                    NonFungibleLocalId::String(s) => size_prefixed(0, s.value().as_bytes()),
                    NonFungibleLocalId::Integer(i) => {
                        let mut v = vec![1u8];
                        v.extend(i.value().to_be_bytes());
                        v
                    }
                    NonFungibleLocalId::Bytes(b) => size_prefixed(2, b.value()),
                    NonFungibleLocalId::RUID(r) => {
                        let mut v = vec![3u8];
                        v.extend(r.value());
                        v
                    }
                },
            ),
        }
    }
    fn custom_from_rv(kind: u8, body: &[u8]) -> Option<Self::Y> {
        Some(match kind {
            0x80 => ScryptoCustomValue::Reference(Reference(NodeId(arr(body)?))),
            0x90 => ScryptoCustomValue::Own(Own(NodeId(arr(body)?))),
            0xa0 => ScryptoCustomValue::Decimal(Decimal::try_from(body).ok()?),
            0xb0 => ScryptoCustomValue::PreciseDecimal(PreciseDecimal::try_from(body).ok()?),
            0xc0 => ScryptoCustomValue::NonFungibleLocalId(match *body.first()? {
                0 => NonFungibleLocalId::string(std::str::from_utf8(read_sized(&body[1..])?).ok()?).ok()?,
                1 => NonFungibleLocalId::integer(u64::from_be_bytes(arr(&body[1..])?)),
                2 => NonFungibleLocalId::bytes(read_sized(&body[1..])?.to_vec()).ok()?,
                3 => NonFungibleLocalId::ruid(arr(&body[1..])?),
                _ => return None,
            }),
            _ => return None,
        })
    }
}

impl Flav for ManifestF {
    type X = ManifestCustomValueKind;
    type Y = ManifestCustomValue;
    type T = ManifestCustomTraversal;
    const FL: Flavour = Flavour::Manifest;
    fn custom_to_rv(y: &Self::Y) -> RV {
        match y {
            ManifestCustomValue::Address(a) => RV::Custom(
                0x80,
                match a {
                    ManifestAddress::Static(n) => {
                        let mut v = vec![0u8];
                        v.extend(n.0);
                        v
                    }
                    ManifestAddress::Named(n) => {
                        let mut v = vec![1u8];
                        v.extend(n.0.to_le_bytes());
                        v
                    }
                },
            ),
            ManifestCustomValue::Bucket(b) => RV::Custom(0x81, b.0.to_le_bytes().to_vec()),
            ManifestCustomValue::Proof(b) => RV::Custom(0x82, b.0.to_le_bytes().to_vec()),
            ManifestCustomValue::Expression(e) => RV::Custom(
                0x83,
                vec![match e {
                    ManifestExpression::EntireWorktop => 0,
                    ManifestExpression::EntireAuthZone => 1,
                }],
            ),
            ManifestCustomValue::Blob(b) => RV::Custom(0x84, b.0.to_vec()),
            ManifestCustomValue::Decimal(d) => RV::Custom(0x85, d.0.to_vec()),
            ManifestCustomValue::PreciseDecimal(d) => RV::Custom(0x86, d.0.to_vec()),
            ManifestCustomValue::NonFungibleLocalId(id) => RV::Custom(
                0x87,
                match id {
                    ManifestNonFungibleLocalId::String(s) => size_prefixed(0, s.as_bytes()),
                    ManifestNonFungibleLocalId::Integer(i) => {
                        let mut v = vec![1u8];
                        v.extend(i.to_be_bytes());
                        v
                    }
                    ManifestNonFungibleLocalId::Bytes(b) => size_prefixed(2, b),
                    ManifestNonFungibleLocalId::RUID(r) => {
                        let mut v = vec![3u8];
                        v.extend(r);
                        v
                    }
                },
            ),
            ManifestCustomValue::AddressReservation(b) => RV::Custom(0x88, b.0.to_le_bytes().to_vec()),
        }
    }
    fn custom_from_rv(kind: u8, body: &[u8]) -> Option<Self::Y> {
        Some(match kind {
            0x80 => ManifestCustomValue::Address(match *body.first()? {
                0 => ManifestAddress::Static(NodeId(arr(&body[1..])?)),
                1 => ManifestAddress::Named(ManifestNamedAddress(u32::from_le_bytes(arr(&body[1..])?))),
                _ => return None,
            }),
            0x81 => ManifestCustomValue::Bucket(ManifestBucket(u32::from_le_bytes(arr(body)?))),
            0x82 => ManifestCustomValue::Proof(ManifestProof(u32::from_le_bytes(arr(body)?))),
            0x83 => ManifestCustomValue::Expression(match *body.first()? {
                0 => ManifestExpression::EntireWorktop,
                1 => ManifestExpression::EntireAuthZone,
                _ => return None,
            }),
            0x84 => ManifestCustomValue::Blob(ManifestBlobRef(arr(body)?)),
            0x85 => ManifestCustomValue::Decimal(ManifestDecimal(arr(body)?)),
            0x86 => ManifestCustomValue::PreciseDecimal(ManifestPreciseDecimal(arr(body)?)),
            0x87 => ManifestCustomValue::NonFungibleLocalId(match *body.first()? {
                0 => ManifestNonFungibleLocalId::string(String::from_utf8(read_sized(&body[1..])?.to_vec()).ok()?).ok()?,
                1 => ManifestNonFungibleLocalId::integer(u64::from_be_bytes(arr(&body[1..])?)).ok()?,
                2 => ManifestNonFungibleLocalId::bytes(read_sized(&body[1..])?.to_vec()).ok()?,
                3 => ManifestNonFungibleLocalId::ruid(arr(&body[1..])?),
                _ => return None,
            }),
            0x88 => ManifestCustomValue::AddressReservation(ManifestAddressReservation(u32::from_le_bytes(arr(body)?))),
            _ => return None,
        })
    }
}

pub fn vk<F: Flav>(k: u8) -> Option<ValueKind<F::X>> {
    ValueKind::<F::X>::from_u8(k)
}

/// Model tree -> value of the code under test (None if a kind byte / custom body is not expressible).
pub fn to_real<F: Flav>(v: &RV) -> Option<Val<F>> {
    Some(match v {
        RV::Bool(x) => Value::Bool { value: *x },
        RV::I8(x) => Value::I8 { value: *x },
        RV::I16(x) => Value::I16 { value: *x },
        RV::I32(x) => Value::I32 { value: *x },
        RV::I64(x) => Value::I64 { value: *x },
        RV::I128(x) => Value::I128 { value: *x },
        RV::U8(x) => Value::U8 { value: *x },
        RV::U16(x) => Value::U16 { value: *x },
        RV::U32(x) => Value::U32 { value: *x },
        RV::U64(x) => Value::U64 { value: *x },
        RV::U128(x) => Value::U128 { value: *x },
        RV::Str(s) => Value::String { value: s.clone() },
        RV::Enum(d, f) => Value::Enum { discriminator: *d, fields: f.iter().map(to_real::<F>).collect::<Option<_>>()? },
        RV::Tuple(f) => Value::Tuple { fields: f.iter().map(to_real::<F>).collect::<Option<_>>()? },
        RV::Array(k, f) => Value::Array {
            element_value_kind: vk::<F>(*k)?,
            elements: f.iter().map(to_real::<F>).collect::<Option<_>>()?,
        },
        RV::Map(kk, vkk, e) => Value::Map {
            key_value_kind: vk::<F>(*kk)?,
            value_value_kind: vk::<F>(*vkk)?,
            entries: e
                .iter()
                .map(|(k, v)| Some((to_real::<F>(k)?, to_real::<F>(v)?)))
                .collect::<Option<_>>()?,
        },
        RV::Custom(k, b) => Value::Custom { value: F::custom_from_rv(*k, b)? },
    })
}

/// Value of the code under test -> model tree (reads public fields only).
pub fn from_real<F: Flav>(v: &Val<F>) -> RV {
    match v {
        Value::Bool { value } => RV::Bool(*value),
        Value::I8 { value } => RV::I8(*value),
        Value::I16 { value } => RV::I16(*value),
        Value::I32 { value } => RV::I32(*value),
        Value::I64 { value } => RV::I64(*value),
        Value::I128 { value } => RV::I128(*value),
        Value::U8 { value } => RV::U8(*value),
        Value::U16 { value } => RV::U16(*value),
        Value::U32 { value } => RV::U32(*value),
        Value::U64 { value } => RV::U64(*value),
        Value::U128 { value } => RV::U128(*value),
        Value::String { value } => RV::Str(value.clone()),
        Value::Enum { discriminator, fields } => RV::Enum(*discriminator, fields.iter().map(from_real::<F>).collect()),
        Value::Tuple { fields } => RV::Tuple(fields.iter().map(from_real::<F>).collect()),
        Value::Array { element_value_kind, elements } => {
            RV::Array(element_value_kind.as_u8(), elements.iter().map(from_real::<F>).collect())
        }
        Value::Map { key_value_kind, value_value_kind, entries } => RV::Map(
            key_value_kind.as_u8(),
            value_value_kind.as_u8(),
            entries.iter().map(|(k, v)| (from_real::<F>(k), from_real::<F>(v))).collect(),
        ),
        Value::Custom { value } => F::custom_to_rv(value),
    }
}

pub fn decode<F: Flav>(p: &[u8], depth: usize) -> Result<Val<F>, DecodeError> {
    VecDecoder::<F::X>::new(p, depth).decode_payload::<Val<F>>(F::FL.prefix())
}

pub fn encode<F: Flav>(v: &Val<F>, depth: usize) -> Result<Vec<u8>, EncodeError> {
    let mut buf = Vec::with_capacity(64);
    VecEncoder::<F::X>::new(&mut buf, depth).encode_payload(v, F::FL.prefix())?;
    Ok(buf)
}

pub fn decode_err_name(e: &DecodeError) -> &'static str {
    match e {
        DecodeError::ExtraTrailingBytes(_) => "ExtraTrailingBytes",
        DecodeError::BufferUnderflow { .. } => "BufferUnderflow",
        DecodeError::UnexpectedPayloadPrefix { .. } => "UnexpectedPayloadPrefix",
        DecodeError::UnexpectedValueKind { .. } => "UnexpectedValueKind",
        DecodeError::UnexpectedCustomValueKind { .. } => "UnexpectedCustomValueKind",
        DecodeError::UnexpectedSize { .. } => "UnexpectedSize",
        DecodeError::UnexpectedDiscriminator { .. } => "UnexpectedDiscriminator",
        DecodeError::UnknownValueKind(_) => "UnknownValueKind",
        DecodeError::UnknownDiscriminator(_) => "UnknownDiscriminator",
        DecodeError::InvalidBool(_) => "InvalidBool",
        DecodeError::InvalidUtf8 => "InvalidUtf8",
        DecodeError::InvalidSize => "InvalidSize",
        DecodeError::MaxDepthExceeded(_) => "MaxDepthExceeded",
        DecodeError::DuplicateKey => "DuplicateKey",
        DecodeError::InvalidCustomValue => "InvalidCustomValue",
    }
}

pub fn encode_err_name(e: &EncodeError) -> &'static str {
    match e {
        EncodeError::MaxDepthExceeded(_) => "MaxDepthExceeded",
        EncodeError::SizeTooLarge { .. } => "SizeTooLarge",
        EncodeError::MismatchingArrayElementValueKind { .. } => "MismatchingArrayElementValueKind",
        EncodeError::MismatchingMapKeyValueKind { .. } => "MismatchingMapKeyValueKind",
        EncodeError::MismatchingMapValueValueKind { .. } => "MismatchingMapValueValueKind",
    }
}

/// Result of driving the streaming traverser over a payload.
pub struct TravOutcome {
    pub result: Result<(), DecodeError>,
    /// payload re-assembled from the events (container headers re-serialised by the model writer,
    /// terminal values copied by their reported offsets)
    pub rebuilt: Vec<u8>,
    /// deepest value reported (root = 1)
    pub max_depth: usize,
    pub events: usize,
    /// offsets were contiguous and inside the payload
    pub offsets_ok: bool,
}

pub fn traverse<F: Flav>(p: &[u8], depth: usize) -> TravOutcome {
    let mut t = VecTraverser::<F::T>::new(
        p,
        ExpectedStart::PayloadPrefix(F::FL.prefix()),
        VecTraverserConfig { max_depth: depth, check_exact_end: true },
    );
    let mut rebuilt: Vec<u8> = Vec::with_capacity(p.len());
    if !p.is_empty() {
        rebuilt.push(p[0]);
    }
    let mut max_depth = 0;
    let mut events = 0;
    let mut offsets_ok = true;
    let mut cursor = 1usize;
    loop {
        let ev = t.next_event();
        events += 1;
        let loc = ev.location;
        let d = loc.ancestor_path.len() + 1;
        let implicit = loc
            .ancestor_path
            .last()
            .map(|a| a.container_header.get_implicit_child_value_kind(0).is_some())
            .unwrap_or(false);
        match ev.event {
            TraversalEvent::ContainerStart(h) => {
                max_depth = max_depth.max(d);
                if loc.start_offset != cursor || loc.end_offset < loc.start_offset || loc.end_offset > p.len() {
                    offsets_ok = false;
                }
                cursor = loc.end_offset;
                if !implicit {
                    rebuilt.push(h.get_own_value_kind().as_u8());
                }
                match h {
                    ContainerHeader::Tuple(TupleHeader { length }) => crate::wire::write_size(length.min((1 << 28) - 1), &mut rebuilt),
                    ContainerHeader::EnumVariant(EnumVariantHeader { variant, length }) => {
                        rebuilt.push(variant);
                        crate::wire::write_size(length.min((1 << 28) - 1), &mut rebuilt)
                    }
                    ContainerHeader::Array(ArrayHeader { element_value_kind, length }) => {
                        rebuilt.push(element_value_kind.as_u8());
                        crate::wire::write_size(length.min((1 << 28) - 1), &mut rebuilt)
                    }
                    ContainerHeader::Map(MapHeader { key_value_kind, value_value_kind, length }) => {
                        rebuilt.push(key_value_kind.as_u8());
                        rebuilt.push(value_value_kind.as_u8());
                        crate::wire::write_size(length.min((1 << 28) - 1), &mut rebuilt)
                    }
                }
            }
            TraversalEvent::ContainerEnd(_) => {
                if loc.end_offset != cursor {
                    offsets_ok = false;
                }
            }
            TraversalEvent::TerminalValue(_) | TraversalEvent::TerminalValueBatch(_) => {
                max_depth = max_depth.max(d);
                if loc.start_offset != cursor || loc.end_offset < loc.start_offset || loc.end_offset > p.len() {
                    offsets_ok = false;
                } else {
                    rebuilt.extend_from_slice(&p[loc.start_offset..loc.end_offset]);
                }
                cursor = loc.end_offset;
            }
            TraversalEvent::End => {
                if cursor != p.len() {
                    offsets_ok = false;
                }
                return TravOutcome { result: Ok(()), rebuilt, max_depth, events, offsets_ok };
            }
            TraversalEvent::DecodeError(e) => {
                return TravOutcome { result: Err(e), rebuilt, max_depth, events, offsets_ok };
            }
        }
    }
}
