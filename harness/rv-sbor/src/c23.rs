//! C23: soundness of schema comparison claims, judged by the payload validator on payloads
//! generated from the schemas.
use crate::schemagen::*;
use crate::wire::{self, Flavour};
use rv_common::{catch_mut, hex, unhex, Args, Report, Rng, Shard, Spec};
use sbor::*;
use serde_json::json;
use std::collections::BTreeMap;
use std::time::Duration;

pub struct SettingCase {
    pub name: &'static str,
    pub settings: SchemaComparisonSettings,
    /// structure and validation must be identical => "accept exactly the same payloads"
    pub equality_claim: bool,
}

pub fn setting_cases() -> Vec<SettingCase> {
    let eq = SchemaComparisonSettings::require_equality;
    let ext = SchemaComparisonSettings::allow_extension;
    vec![
        SettingCase { name: "require_equality", settings: eq(), equality_claim: true },
        SettingCase { name: "require_equality+allow_all_name_changes", settings: eq().allow_all_name_changes(), equality_claim: true },
        SettingCase {
            name: "require_equality+roots_need_not_cover",
            settings: eq().set_completeness(SchemaComparisonCompletenessSettings::allow_type_roots_not_to_cover_schema()),
            equality_claim: true,
        },
        SettingCase { name: "allow_extension", settings: ext(), equality_claim: false },
        SettingCase { name: "allow_extension+allow_all_name_changes", settings: ext().allow_all_name_changes(), equality_claim: false },
        SettingCase {
            name: "allow_extension+allow_adding_names+roots_need_not_cover",
            settings: ext()
                .set_metadata(SchemaComparisonMetadataSettings::allow_adding_names())
                .set_completeness(SchemaComparisonCompletenessSettings::allow_type_roots_not_to_cover_schema()),
            equality_claim: false,
        },
        SettingCase {
            name: "identical_structure+allow_weakening",
            settings: eq().allow_all_name_changes().set_validation(SchemaComparisonValidationSettings::allow_weakening()),
            equality_claim: false,
        },
        SettingCase {
            name: "extension_structure+identical_validation",
            settings: ext().allow_all_name_changes().set_validation(SchemaComparisonValidationSettings::require_identical_validation()),
            equality_claim: false,
        },
    ]
}

fn spec() -> Spec {
    Spec::new(
        "C23",
        "exploration",
        "for random Scrypto schema pairs (base, mutant) and comparison settings: if the comparison is valid then every generated payload (Scrypto and Manifest flavour) that validates under base validates under the mutant; \
         if the settings demand identical structure and validation, validity under base and mutant is equal for payloads generated from either schema and for near-miss tweaks",
    )
    .assume("both schemas pass Schema::validate (documented precondition of the comparison)")
    .assume("payload validity is judged by validate_payload_against_schema with the static () context, depth limit 64")
    .assume("every combination of public comparison settings is at most as permissive as allow_extension, so a valid result always carries the extension claim")
    .floor("pairs_compared", 30_000)
    .floor("pairs_claimed_extension_only", 300)
    .floor("pairs_claimed_equal", 300)
    .floor("pairs_rejected", 1_000)
    .floor("payloads_valid_under_base_checked", 20_000)
    .floor("rejected_pairs_with_distinguishing_payload", 100)
    .explain("rejected pairs are not verdict-bearing; the number of rejected pairs for which a distinguishing payload was found shows that the payload generator can see schema differences")
}

struct Pair {
    base: Sch,
    base_root: LocalTypeId,
    cmp: Sch,
    cmp_root: LocalTypeId,
    mutations: Vec<&'static str>,
}

fn single(s: &Sch, root: LocalTypeId) -> SingleTypeSchema<S> {
    SingleTypeSchema::new(VersionedSchema::from(s.clone()), root)
}

fn gen_pair(rng: &mut Rng, sh: &mut Shard) -> Option<Pair> {
    let (base, base_root) = random_schema(rng);
    if base.validate().is_err() {
        sh.count("generated_base_schema_invalid");
        return None;
    }
    let mut cmp = base.clone();
    let mut cmp_root = base_root;
    let mut mutations = vec![];
    let k = match rng.below(10) {
        0 => 0,
        1..=6 => 1,
        7 | 8 => 2,
        _ => 3,
    };
    for _ in 0..k {
        for _try in 0..6 {
            let m = *rng.pick(&MUTATIONS);
            if m == "identity" {
                continue;
            }
            let mut trial = cmp.clone();
            let mut trial_root = cmp_root;
            if mutate_schema(rng, &mut trial, &mut trial_root, m) && trial.validate().is_ok() {
                cmp = trial;
                cmp_root = trial_root;
                mutations.push(m);
                break;
            }
        }
    }
    if mutations.is_empty() {
        mutations.push("identity");
    }
    Some(Pair { base, base_root, cmp, cmp_root, mutations })
}

fn payloads_from(rng: &mut Rng, s: &Sch, root: LocalTypeId, n: usize) -> Vec<(Flavour, wire::RV)> {
    let mut out = vec![];
    for i in 0..n {
        let fl = if i % 2 == 0 { Flavour::Scrypto } else { Flavour::Manifest };
        let mut g = PGen { schema: s, fl, budget: 6 + rng.below(30) as i64, edgy: i % 4 < 2 };
        if let Some(t) = g.gen(rng, root, 14) {
            out.push((fl, t));
        }
    }
    out
}

#[allow(clippy::too_many_arguments)]
fn judge(
    p: &Pair,
    sc: &SettingCase,
    claimed_valid: bool,
    fl: Flavour,
    payload: &[u8],
    origin: &str,
    sh: &mut Shard,
    found_diff: &mut bool,
) {
    let vb = catch_mut(|| validate(fl, payload, &p.base, p.base_root, 64));
    let vc = catch_mut(|| validate(fl, payload, &p.cmp, p.cmp_root, 64));
    let (Ok(vb), Ok(vc)) = (vb, vc) else {
        sh.count("validator_panics");
        return;
    };
    sh.eval();
    if vb.is_ok() {
        sh.count("payloads_valid_under_base_checked");
        sh.count(&format!("payloads_valid_under_base:{}", fl.name()));
    } else {
        sh.count("payloads_invalid_under_base");
    }
    if vb.is_ok() != vc.is_ok() {
        *found_diff = true;
    }
    if !claimed_valid {
        return;
    }
    let detail = |what: &str| {
        json!({
            "what": what, "settings": sc.name, "mutations": p.mutations, "flavour": fl.name(), "origin": origin,
            "payload": hex(payload),
            "base_schema": single(&p.base, p.base_root).encode_to_hex(),
            "compared_schema": single(&p.cmp, p.cmp_root).encode_to_hex(),
            "under_base": format!("{vb:?}"), "under_compared": format!("{vc:?}"),
        })
    };
    if let (Ok(()), Err(e)) = (&vb, &vc) {
        let claim = if sc.equality_claim { "equality" } else { "extension" };
        // root-cause class: a Manifest blob / expression stands for an array; it only matches
        // Array<U8> / Array<Own> element types, not Array<Any>
        let class = if fl == Flavour::Manifest && (e.contains("actual_value_kind: Custom(Blob)") || e.contains("actual_value_kind: Custom(Expression)")) {
            "blob-or-expression-does-not-match-array-with-element-replaced-by-any".to_string()
        } else {
            error_class(e)
        };
        sh.violation(
            format!("claimed-{claim}-but-base-valid-payload-rejected-by-new-schema:{}:{}", fl.name(), class),
            detail("payload valid under base, invalid under compared"),
        );
    }
    if sc.equality_claim {
        if let (Err(e), Ok(())) = (&vb, &vc) {
            sh.violation(
                format!("claimed-equality-but-new-schema-accepts-payload-base-rejects:{}:{}", fl.name(), error_class(e)),
                detail("payload invalid under base, valid under compared"),
            );
        }
    }
}

fn examine_pair(rng: &mut Rng, p: &Pair, sc: &SettingCase, sh: &mut Shard, table: &mut BTreeMap<String, [u64; 3]>) {
    let b = single(&p.base, p.base_root);
    let c = single(&p.cmp, p.cmp_root);
    let use_collection = rng.chance(1, 5);
    let claimed = if use_collection {
        let mut ids_b = sbor::rust::collections::IndexMap::default();
        let mut ids_c = sbor::rust::collections::IndexMap::default();
        ids_b.insert("root".to_string(), p.base_root);
        ids_c.insert("root".to_string(), p.cmp_root);
        if rng.bool() {
            // an extra named root only in the compared schema
            ids_c.insert("extra".to_string(), LocalTypeId::WellKnown(basic_well_known_types::U8_TYPE));
        }
        let tb = TypeCollectionSchema::new(VersionedSchema::from(p.base.clone()), ids_b);
        let tc = TypeCollectionSchema::new(VersionedSchema::from(p.cmp.clone()), ids_c);
        catch_mut(|| compare_type_collection_schemas(&sc.settings, &tb, &tc).is_valid())
    } else {
        catch_mut(|| compare_single_type_schemas(&sc.settings, &b, &c).is_valid())
    };
    let claimed = match claimed {
        Ok(v) => v,
        Err(pi) => {
            sh.count("comparison_panics");
            sh.seen("comparison_panic_sites", &pi.site());
            return;
        }
    };
    sh.count("pairs_compared");
    sh.seen("settings", sc.name);
    let key = p.mutations.join("+");
    for m in &p.mutations {
        sh.seen("mutations", m);
        let e = table.entry(format!("{m} | {}", sc.name)).or_insert([0; 3]);
        e[if !claimed { 0 } else if sc.equality_claim { 2 } else { 1 }] += 1;
    }
    if claimed {
        sh.count(if sc.equality_claim { "pairs_claimed_equal" } else { "pairs_claimed_extension_only" });
        if p.mutations != ["identity"] {
            sh.count("claimed_valid_for_a_real_mutant");
        }
    } else {
        sh.count("pairs_rejected");
    }
    sh.nontrivial(&(rv_common::h64(&b.encode_to_bytes()), rv_common::h64(&c.encode_to_bytes()), sc.name));
    let mut found_diff = false;
    // payloads generated from the base schema
    for (fl, t) in payloads_from(rng, &p.base, p.base_root, if claimed { 16 } else { 8 }) {
        let payload = wire::write_payload(fl, &t);
        judge(p, sc, claimed, fl, &payload, "from-base", sh, &mut found_diff);
        if (claimed && sc.equality_claim) || !claimed {
            let mut t2 = t.clone();
            tweak(rng, fl, &mut t2);
            if t2.well_formed() {
                let payload = wire::write_payload(fl, &t2);
                judge(p, sc, claimed, fl, &payload, "from-base-tweaked", sh, &mut found_diff);
            }
        }
    }
    if (claimed && sc.equality_claim) || !claimed {
        for (fl, t) in payloads_from(rng, &p.cmp, p.cmp_root, 8) {
            let payload = wire::write_payload(fl, &t);
            judge(p, sc, claimed, fl, &payload, "from-compared", sh, &mut found_diff);
        }
    }
    if !claimed && found_diff {
        sh.count("rejected_pairs_with_distinguishing_payload");
    }
    if sh.want_sample() && claimed && p.mutations != ["identity"] {
        sh.sample(|| json!({"settings": sc.name, "mutations": key, "claimed_valid": claimed, "base_types": p.base.type_kinds.len()}));
    }
}

pub fn run(args: &Args) -> Report {
    let mut report = Report::new(args, spec());
    let secs = rv_common::budget_secs(args.tier, 25, 400);
    let cap = rv_common::scaled(args, args.tier.pick(800_000u64, 40_000_000u64)) / args.threads as u64 + 1;
    let tables = std::sync::Mutex::new(BTreeMap::<String, [u64; 3]>::new());
    report.run_shards(23, args.threads, Duration::from_secs(secs), |_idx, rng, sh| {
        let cases = setting_cases();
        let mut table = BTreeMap::new();
        let mut n = 0;
        while n < cap && !sh.time_up() {
            let Some(p) = gen_pair(rng, sh) else { continue };
            n += 1;
            // every pair under two settings: one equality-type, one extension-type
            let a = rng.usize_below(3);
            let b = 3 + rng.usize_below(cases.len() - 3);
            examine_pair(rng, &p, &cases[a], sh, &mut table);
            examine_pair(rng, &p, &cases[b], sh, &mut table);
        }
        let mut t = tables.lock().unwrap();
        for (k, v) in table {
            let e = t.entry(k).or_insert([0; 3]);
            for i in 0..3 {
                e[i] += v[i];
            }
        }
    });
    let t = tables.into_inner().unwrap();
    let mut per_mut: BTreeMap<String, [u64; 3]> = BTreeMap::new();
    for (k, v) in &t {
        let m = k.split(" | ").next().unwrap().to_string();
        let e = per_mut.entry(m).or_insert([0; 3]);
        for i in 0..3 {
            e[i] += v[i];
        }
    }
    report.extra.insert(
        "per_mutation_[rejected,claimed_extension,claimed_equal]".into(),
        json!(per_mut.iter().map(|(k, v)| (k.clone(), json!(v))).collect::<serde_json::Map<_, _>>()),
    );
    report
}

pub fn replay(args: &Args, doc: &serde_json::Value) -> Report {
    let mut report = Report::new(args, spec());
    let d = &doc["detail"];
    let base = SingleTypeSchema::<S>::decode_from_hex(d["base_schema"].as_str().unwrap_or(""));
    let cmp = SingleTypeSchema::<S>::decode_from_hex(d["compared_schema"].as_str().unwrap_or(""));
    let payload = unhex(d["payload"].as_str().unwrap_or(""));
    let fl = if d["flavour"] == "manifest" { Flavour::Manifest } else { Flavour::Scrypto };
    let sname = d["settings"].as_str().unwrap_or("allow_extension").to_string();
    report.run_shards(99, 1, Duration::from_secs(60), |_, _rng, sh| {
        let cases = setting_cases();
        let sc = cases.iter().find(|c| c.name == sname).unwrap_or(&cases[3]);
        let p = Pair {
            base: base.schema.v1().clone(),
            base_root: base.type_id,
            cmp: cmp.schema.v1().clone(),
            cmp_root: cmp.type_id,
            mutations: vec!["replay"],
        };
        let r = compare_single_type_schemas(&sc.settings, &base, &cmp);
        let claimed = r.is_valid();
        println!("comparison under {}: valid={claimed}", sc.name);
        if let Some(m) = r.error_message("base", "compared") {
            println!("{m}");
        }
        let mut diff = false;
        judge(&p, sc, claimed, fl, &payload, "replay", sh, &mut diff);
        println!("payload validity differs between the schemas: {diff}");
        sh.nontrivial(&1u8);
        sh.nontrivial(&2u8);
    });
    println!(
        "REPLAY C23 violations reproduced: {}",
        report.violations.iter().map(|v| v.signature.clone()).collect::<Vec<_>>().join(" | ")
    );
    report
}
