//! C22: synthetic derive-feature roster. Harness-defined types that exercise the repository's own
//! derive macros (Sbor / ScryptoSbor / ManifestSbor and the `#[sbor(..)]` attributes) combinatorially.
//! Every "Hold*" type contains several instantiations of the same generic so that ONE generated
//! schema has to keep them apart. Values are built directly (trait `G`), not via the schema.
#![allow(dead_code)]
use crate::typed::G;
use radix_common::data::manifest::model::*;
use radix_common::data::scrypto::model::*;
use radix_common::math::Decimal;
use radix_common::prelude::{ComponentAddress, Hash, ResourceAddress, ScryptoValue};
use radix_common::prelude::ScryptoDescribe;
use radix_common::{ManifestSbor, ScryptoSbor};
use rv_common::Rng;
use sbor::rust::collections::IndexMap;
use sbor::*;
use std::collections::BTreeMap;
use std::rc::Rc;

// ---- generators for leaf types used below -----------------------------------------------------
impl G for ResourceAddress {
    fn g(rng: &mut Rng, _: &mut i32) -> Self {
        let mut b: [u8; 30] = rng.bytes(30).try_into().unwrap();
        b[0] = *rng.pick(&[0x5d, 0x9a]);
        ResourceAddress::new_or_panic(b)
    }
}
impl G for ComponentAddress {
    fn g(rng: &mut Rng, _: &mut i32) -> Self {
        let mut b: [u8; 30] = rng.bytes(30).try_into().unwrap();
        b[0] = *rng.pick(&[0xc0, 0xc1, 0x86, 0x51]);
        ComponentAddress::new_or_panic(b)
    }
}
impl G for Hash {
    fn g(rng: &mut Rng, _: &mut i32) -> Self {
        Hash(rng.bytes(32).try_into().unwrap())
    }
}
impl G for ManifestBucket {
    fn g(rng: &mut Rng, _: &mut i32) -> Self {
        ManifestBucket(rng.u32())
    }
}
impl G for ManifestProof {
    fn g(rng: &mut Rng, _: &mut i32) -> Self {
        ManifestProof(rng.u32())
    }
}
impl G for ManifestAddressReservation {
    fn g(rng: &mut Rng, _: &mut i32) -> Self {
        ManifestAddressReservation(rng.u32())
    }
}
impl G for ManifestDecimal {
    fn g(rng: &mut Rng, _: &mut i32) -> Self {
        ManifestDecimal(rng.bytes(24).try_into().unwrap())
    }
}

macro_rules! g_fields {
    ($name:ident $(<$($gp:ident),*>)? { $($f:ident),* $(,)? }) => {
        impl$(<$($gp: G),*>)? G for $name$(<$($gp),*>)? {
            fn g(rng: &mut Rng, fuel: &mut i32) -> Self {
                $name { $($f: G::g(rng, fuel)),* }
            }
        }
    };
}
macro_rules! g_tuple1 {
    ($name:ident $(<$($gp:ident),*>)?) => {
        impl$(<$($gp: G),*>)? G for $name$(<$($gp),*>)? {
            fn g(rng: &mut Rng, fuel: &mut i32) -> Self {
                $name(G::g(rng, fuel))
            }
        }
    };
}

// ---- transparent new-types: generic / non-generic, tuple / named, renamed, fully transparent ----
#[derive(ScryptoSbor, ManifestSbor, Debug, PartialEq, Eq, Clone, PartialOrd, Ord, Hash)]
#[sbor(transparent)]
#[sbor(categorize_types = "T")]
pub struct TW<T>(pub T);
g_tuple1!(TW<T>);

#[derive(ScryptoSbor, ManifestSbor, Debug, PartialEq, Eq, Clone)]
#[sbor(transparent)]
#[sbor(categorize_types = "T")]
pub struct TN<T> {
    pub inner: T,
}
g_fields!(TN<T> { inner });

#[derive(ScryptoSbor, Debug, PartialEq, Eq, Clone)]
#[sbor(transparent, transparent_name)]
#[sbor(categorize_types = "T")]
pub struct TT<T>(pub T);
g_tuple1!(TT<T>);

#[derive(ScryptoSbor, Debug, PartialEq, Eq, Clone)]
#[sbor(transparent, type_name = "RenamedWrapper")]
#[sbor(categorize_types = "T")]
pub struct TR<T>(pub T);
g_tuple1!(TR<T>);

#[derive(ScryptoSbor, Debug, PartialEq, Eq, Clone)]
#[sbor(transparent)]
#[sbor(categorize_types = "T")]
pub struct TSkip<T> {
    #[sbor(skip)]
    pub cache: u32,
    pub v: T,
}
impl<T: G> G for TSkip<T> {
    fn g(rng: &mut Rng, fuel: &mut i32) -> Self {
        TSkip { cache: 0, v: G::g(rng, fuel) }
    }
}

#[derive(ScryptoSbor, Debug, PartialEq, Eq, Clone)]
#[sbor(transparent)]
#[sbor(categorize_types = "T")]
pub struct Nest<T>(pub T);
g_tuple1!(Nest<T>);

#[derive(ScryptoSbor, Debug, PartialEq, Eq, Clone)]
#[sbor(transparent)]
#[sbor(categorize_types = "T")]
pub struct Nest3<T>(pub T);
g_tuple1!(Nest3<T>);

#[derive(ScryptoSbor, ManifestSbor, Debug, PartialEq, Eq, Clone)]
#[sbor(transparent)]
pub struct Meters(pub u64);
g_tuple1!(Meters);

#[derive(ScryptoSbor, Debug, PartialEq, Eq, Clone)]
#[sbor(transparent)]
pub struct Label {
    pub text: String,
}
g_fields!(Label { text });

#[derive(ScryptoSbor, Debug, PartialEq, Eq, Clone)]
pub struct HoldTransparent {
    pub a: TW<String>,
    pub b: TW<u32>,
    pub c: TW<Vec<u8>>,
    pub d: TN<bool>,
    pub e: TN<(u8, String)>,
    pub f: TT<u16>,
    pub g: TT<String>,
    pub h: TR<i64>,
    pub i: TR<String>,
    pub j: TSkip<u8>,
    pub k: TSkip<String>,
    pub l: Nest<TW<TN<u32>>>,
    pub m: Nest<TW<TN<String>>>,
    pub n: Meters,
    pub o: Label,
    pub p: Nest3<Nest<TT<i8>>>,
    pub q: Nest3<Nest<TT<Vec<String>>>>,
    pub r: TW<TW<u128>>,
    pub s: TW<TW<String>>,
}
g_fields!(HoldTransparent { a, b, c, d, e, f, g, h, i, j, k, l, m, n, o, p, q, r, s });

/// the same instantiations in the opposite order (aggregation order must not matter)
#[derive(ScryptoSbor, Debug, PartialEq, Eq, Clone)]
pub struct HoldTransparentRev {
    pub b: TW<u32>,
    pub a: TW<String>,
    pub m: Nest<TW<TN<String>>>,
    pub l: Nest<TW<TN<u32>>>,
    pub i: TR<String>,
    pub h: TR<i64>,
}
g_fields!(HoldTransparentRev { b, a, m, l, i, h });

// ---- generic structs / enums ----------------------------------------------------------------------
#[derive(ScryptoSbor, ManifestSbor, Debug, PartialEq, Eq, Clone)]
#[sbor(categorize_types = "T")]
pub struct GS<T> {
    pub a: T,
    pub b: Vec<T>,
    pub c: Option<Box<T>>,
}
g_fields!(GS<T> { a, b, c });

#[derive(ScryptoSbor, ManifestSbor, Debug, PartialEq, Eq, Clone)]
#[sbor(categorize_types = "T; U")]
pub enum GE<T, U> {
    Unit,
    One(T),
    Two(T, U),
    Named { x: U, y: Vec<T> },
}
impl<T: G, U: G> G for GE<T, U> {
    fn g(rng: &mut Rng, fuel: &mut i32) -> Self {
        match rng.below(4) {
            0 => GE::Unit,
            1 => GE::One(G::g(rng, fuel)),
            2 => GE::Two(G::g(rng, fuel), G::g(rng, fuel)),
            _ => GE::Named { x: G::g(rng, fuel), y: G::g(rng, fuel) },
        }
    }
}

#[derive(ScryptoSbor, Debug, PartialEq, Eq, Clone)]
pub struct GTuple<A, B>(pub A, pub B, pub (B, A));
impl<A: G, B: G> G for GTuple<A, B> {
    fn g(rng: &mut Rng, fuel: &mut i32) -> Self {
        GTuple(G::g(rng, fuel), G::g(rng, fuel), G::g(rng, fuel))
    }
}

#[derive(ScryptoSbor, Debug, PartialEq, Eq, Clone)]
pub struct HoldGeneric {
    pub a: GS<u8>,
    pub b: GS<String>,
    pub c: GS<GS<u16>>,
    pub d: GE<u8, String>,
    pub e: GE<String, u8>,
    pub f: GE<GS<bool>, TW<u32>>,
    pub g: BTreeMap<u8, GS<String>>,
    pub h: IndexMap<String, GE<u8, u8>>,
    pub i: Vec<(TW<u8>, TW<String>)>,
    pub j: [TW<u16>; 3],
    pub k: Result<GS<u8>, GE<u8, u8>>,
    pub l: Rc<TN<String>>,
    pub m: Option<GTuple<u8, String>>,
    pub n: GTuple<String, u8>,
    pub o: [GS<i32>; 2],
    pub p: Box<GE<TW<String>, TW<u64>>>,
    pub q: BTreeMap<TW<u16>, TW<Vec<TW<u8>>>>,
}
g_fields!(HoldGeneric { a, b, c, d, e, f, g, h, i, j, k, l, m, n, o, p, q });

// ---- as_type ------------------------------------------------------------------------------------------
#[derive(Sbor, PartialEq, Eq, Debug, Clone)]
#[sbor(as_type = "u32", as_ref = "&self.state", from_value = "Self { state: value }")]
pub struct AsU32 {
    pub state: u32,
}
g_fields!(AsU32 { state });

#[derive(Sbor, PartialEq, Eq, Debug, Clone)]
#[sbor(as_type = "u32", as_ref = "&self.state", from_value = "Self { state: value }")]
#[sbor(transparent_name)]
pub struct AsU32Transparent {
    pub state: u32,
}
g_fields!(AsU32Transparent { state });

#[derive(Sbor, PartialEq, Eq, Debug, Clone)]
#[sbor(as_type = "String", as_ref = "&self.s", from_value = "Self { s: value }", type_name = "StringLike")]
pub struct AsString {
    pub s: String,
}
g_fields!(AsString { s });

#[derive(Debug, Clone, PartialEq, Eq, Sbor)]
pub enum GModel<T> {
    V1(T),
}
impl<T: G> G for GModel<T> {
    fn g(rng: &mut Rng, fuel: &mut i32) -> Self {
        GModel::V1(G::g(rng, fuel))
    }
}
#[derive(Debug, Clone, PartialEq, Eq, Sbor)]
#[sbor(as_type = "GModel < T >")]
pub struct VG<T> {
    inner: Option<GModel<T>>,
}
impl<T> AsRef<GModel<T>> for VG<T> {
    fn as_ref(&self) -> &GModel<T> {
        self.inner.as_ref().unwrap()
    }
}
impl<T> From<GModel<T>> for VG<T> {
    fn from(value: GModel<T>) -> Self {
        Self { inner: Some(value) }
    }
}
impl<T: G> G for VG<T> {
    fn g(rng: &mut Rng, fuel: &mut i32) -> Self {
        VG { inner: Some(G::g(rng, fuel)) }
    }
}

#[derive(Sbor, PartialEq, Eq, Debug, Clone)]
pub struct HoldAs {
    pub a: AsU32,
    pub b: VG<u8>,
    pub c: VG<String>,
    pub d: AsU32Transparent,
    pub e: AsString,
    pub f: Vec<VG<(u8, u8)>>,
    pub g: Option<VG<VG<u16>>>,
}
g_fields!(HoldAs { a, b, c, d, e, f, g });

// ---- skip / flatten / discriminators / unreachable / type_name ---------------------------------------
#[derive(ScryptoSbor, Debug, PartialEq, Eq, Clone)]
pub struct Sk {
    pub a: u8,
    #[sbor(skip)]
    pub b: String,
    pub c: u16,
}
impl G for Sk {
    fn g(rng: &mut Rng, fuel: &mut i32) -> Self {
        Sk { a: G::g(rng, fuel), b: String::new(), c: G::g(rng, fuel) }
    }
}
#[derive(ScryptoSbor, Debug, PartialEq, Eq, Clone)]
pub struct SkTuple(pub u8, #[sbor(skip)] pub u32, pub String);
impl G for SkTuple {
    fn g(rng: &mut Rng, fuel: &mut i32) -> Self {
        SkTuple(G::g(rng, fuel), 0, G::g(rng, fuel))
    }
}
#[derive(ScryptoSbor, Debug, PartialEq, Eq, Clone)]
#[sbor(categorize_types = "T")]
pub struct SkGen<T> {
    #[sbor(skip)]
    pub hidden: u64,
    pub shown: T,
    pub more: Vec<T>,
}
impl<T: G> G for SkGen<T> {
    fn g(rng: &mut Rng, fuel: &mut i32) -> Self {
        SkGen { hidden: 0, shown: G::g(rng, fuel), more: G::g(rng, fuel) }
    }
}

#[derive(Debug, PartialEq, Eq, Sbor, Clone)]
pub struct Inner {
    pub hello: String,
    pub world: InnerInner,
}
g_fields!(Inner { hello, world });
#[derive(Debug, PartialEq, Eq, Sbor, Clone)]
pub struct InnerInner(pub u8, pub Vec<u16>);
impl G for InnerInner {
    fn g(rng: &mut Rng, fuel: &mut i32) -> Self {
        InnerInner(G::g(rng, fuel), G::g(rng, fuel))
    }
}
#[derive(Debug, PartialEq, Eq, Sbor, Clone)]
pub enum Flat {
    A {
        #[sbor(skip)]
        skipped: u8,
        #[sbor(flatten)]
        y: (u32, InnerInner),
    },
    B(#[sbor(skip)] u8, #[sbor(flatten)] (u32,)),
    C(#[sbor(flatten)] Inner),
    D,
    E(InnerInner),
}
impl G for Flat {
    fn g(rng: &mut Rng, fuel: &mut i32) -> Self {
        match rng.below(5) {
            0 => Flat::A { skipped: 0, y: G::g(rng, fuel) },
            1 => Flat::B(0, G::g(rng, fuel)),
            2 => Flat::C(G::g(rng, fuel)),
            3 => Flat::D,
            _ => Flat::E(G::g(rng, fuel)),
        }
    }
}

const D_SEVEN: u8 = 7;
#[derive(Sbor, PartialEq, Eq, Debug, Clone)]
#[sbor(type_name = "ExplicitDiscriminators")]
pub enum Disc {
    #[sbor(discriminator(D_SEVEN))]
    Seven,
    #[sbor(discriminator(200))]
    TwoHundred(u8),
    #[sbor(unreachable)]
    Never,
    #[sbor(discriminator(0))]
    Zero { x: String },
    #[sbor(discriminator(255))]
    Max(u16, u16),
}
impl G for Disc {
    fn g(rng: &mut Rng, fuel: &mut i32) -> Self {
        match rng.below(4) {
            0 => Disc::Seven,
            1 => Disc::TwoHundred(G::g(rng, fuel)),
            2 => Disc::Zero { x: G::g(rng, fuel) },
            _ => Disc::Max(G::g(rng, fuel), G::g(rng, fuel)),
        }
    }
}
#[derive(Sbor, PartialEq, Eq, Debug, Clone)]
#[repr(u8)]
#[sbor(use_repr_discriminators)]
pub enum ReprDisc {
    A = 3,
    B = 9,
    #[sbor(discriminator(14))]
    C { t: String } = 111,
    D(u8) = 0b11011,
}
impl G for ReprDisc {
    fn g(rng: &mut Rng, fuel: &mut i32) -> Self {
        match rng.below(4) {
            0 => ReprDisc::A,
            1 => ReprDisc::B,
            2 => ReprDisc::C { t: G::g(rng, fuel) },
            _ => ReprDisc::D(G::g(rng, fuel)),
        }
    }
}
#[derive(ScryptoSbor, PartialEq, Eq, Debug, Clone)]
#[sbor(categorize_types = "T")]
pub enum GDisc<T> {
    #[sbor(discriminator(10))]
    P(T),
    #[sbor(discriminator(20))]
    Q { v: Vec<T> },
}
impl<T: G> G for GDisc<T> {
    fn g(rng: &mut Rng, fuel: &mut i32) -> Self {
        if rng.bool() {
            GDisc::P(G::g(rng, fuel))
        } else {
            GDisc::Q { v: G::g(rng, fuel) }
        }
    }
}

#[derive(ScryptoSbor, Debug, PartialEq, Eq, Clone)]
pub struct HoldAttrs {
    pub a: Sk,
    pub b: SkTuple,
    pub c: SkGen<u8>,
    pub d: SkGen<String>,
    pub e: Flat,
    pub f: Vec<Flat>,
    pub g: Disc,
    pub h: ReprDisc,
    pub i: GDisc<u8>,
    pub j: GDisc<String>,
    pub k: BTreeMap<u8, Disc>,
    pub l: [ReprDisc; 2],
}
g_fields!(HoldAttrs { a, b, c, d, e, f, g, h, i, j, k, l });

// ---- categorize_types / child_types bounds on generics -----------------------------------------------
#[derive(Sbor, Debug, PartialEq, Eq, Clone)]
#[sbor(categorize_types = "S; T")]
pub struct Cat<T, S> {
    pub a: (),
    pub c: (u8, Vec<T>),
    pub d: Vec<S>,
}
g_fields!(Cat<T, S> { a, c, d });
#[derive(Sbor, Debug, PartialEq, Eq, Clone)]
#[sbor(child_types = "T")]
pub struct Child<T> {
    pub v: Option<T>,
    pub w: (T, u8),
}
g_fields!(Child<T> { v, w });
#[derive(Sbor, Debug, PartialEq, Eq, Clone)]
pub struct HoldBounds {
    pub a: Cat<u8, String>,
    pub b: Cat<String, u8>,
    pub c: Cat<Cat<u8, u8>, Child<u16>>,
    pub d: Child<u8>,
    pub e: Child<String>,
    pub f: Child<Child<bool>>,
}
g_fields!(HoldBounds { a, b, c, d, e, f });

// ---- recursion through Vec / Option / Box --------------------------------------------------------------
#[derive(ScryptoSbor, Debug, PartialEq, Eq, Clone)]
pub enum Tree {
    Leaf(u8),
    Node(Vec<Tree>),
}
impl G for Tree {
    fn g(rng: &mut Rng, fuel: &mut i32) -> Self {
        *fuel -= 1;
        if *fuel <= 0 || rng.bool() {
            Tree::Leaf(G::g(rng, fuel))
        } else {
            Tree::Node(G::g(rng, fuel))
        }
    }
}
#[derive(ScryptoSbor, Debug, PartialEq, Eq, Clone)]
pub struct Linked {
    pub v: u8,
    pub next: Option<Box<Linked>>,
}
g_fields!(Linked { v, next });
#[derive(ScryptoSbor, Debug, PartialEq, Eq, Clone)]
#[sbor(categorize_types = "T")]
pub struct RT<T> {
    pub v: T,
    pub kids: Vec<RT<T>>,
    pub alt: Option<Box<TW<RT<T>>>>,
}
g_fields!(RT<T> { v, kids, alt });
#[derive(ScryptoSbor, Debug, PartialEq, Eq, Clone)]
pub struct HoldRec {
    pub a: Tree,
    pub b: Linked,
    pub c: RT<u8>,
    pub d: RT<String>,
    pub e: TW<Tree>,
    pub f: GS<Linked>,
}
g_fields!(HoldRec { a, b, c, d, e, f });

// ---- wrappers of well-known / custom types --------------------------------------------------------------
#[derive(ScryptoSbor, Debug, PartialEq, Eq, Clone)]
pub struct HoldWellKnown {
    pub a: TW<Decimal>,
    pub b: TW<ResourceAddress>,
    pub c: TN<NonFungibleLocalId>,
    pub d: TT<Hash>,
    pub e: Option<TW<ComponentAddress>>,
    pub f: TW<()>,
    pub g: GTuple<ScryptoValue, u8>,
    pub h: TW<Vec<u8>>,
    pub i: TR<Decimal>,
    pub j: TR<ResourceAddress>,
    pub k: GS<Decimal>,
    pub l: GE<ResourceAddress, ComponentAddress>,
    pub m: TW<[u8; 4]>,
    pub n: TW<[u16; 4]>,
}
g_fields!(HoldWellKnown { a, b, c, d, e, f, g, h, i, j, k, l, m, n });

// ---- Manifest flavour (encoded with ManifestSbor, described by a Scrypto schema) -----------------------
#[derive(ManifestSbor, ScryptoDescribe, Debug, PartialEq, Eq, Clone)]
pub struct HoldManifest {
    pub a: TW<ManifestBucket>,
    pub b: TW<ManifestProof>,
    pub c: TW<u8>,
    pub d: GE<ManifestAddressReservation, String>,
    pub e: GS<ManifestDecimal>,
    pub f: GS<u32>,
    pub g: TN<String>,
    pub h: TN<Vec<ManifestBucket>>,
    pub i: Meters,
}
g_fields!(HoldManifest { a, b, c, d, e, f, g, h, i });
