//! Independent model of the SBOR wire format (written from the format description, not from the
//! codec): a value tree `RV`, a writer, a reference acceptor/reader and workload generators.
//!
//! Wire format (v1):
//!   payload  := prefix-byte value
//!   value    := kind-byte body
//!   body(bool)=1 byte in {0,1}; body(iN/uN)=N/8 bytes little endian; body(string)=size utf8-bytes
//!   body(array)=elem-kind size body(elem)*size   (element bodies WITHOUT kind byte)
//!   body(tuple)=size value*size ; body(enum)=discriminator-byte size value*size
//!   body(map)=key-kind value-kind size (body(key) body(value))*size
//!   size     := unsigned LEB128, at most 4 bytes (< 2^28), minimal (last group non-zero unless size==0)
//!   custom kinds (>= 0x80) per flavour with fixed-length or small structured bodies.
//! Nesting depth: the root value has depth 1, a child of a container has depth parent+1.
use rv_common::Rng;

#[derive(Clone, Copy, PartialEq, Eq, Debug, Hash)]
pub enum Flavour {
    Basic,
    Scrypto,
    Manifest,
}

pub const K_BOOL: u8 = 0x01;
pub const K_I8: u8 = 0x02;
pub const K_I16: u8 = 0x03;
pub const K_I32: u8 = 0x04;
pub const K_I64: u8 = 0x05;
pub const K_I128: u8 = 0x06;
pub const K_U8: u8 = 0x07;
pub const K_U16: u8 = 0x08;
pub const K_U32: u8 = 0x09;
pub const K_U64: u8 = 0x0a;
pub const K_U128: u8 = 0x0b;
pub const K_STRING: u8 = 0x0c;
pub const K_ARRAY: u8 = 0x20;
pub const K_TUPLE: u8 = 0x21;
pub const K_ENUM: u8 = 0x22;
pub const K_MAP: u8 = 0x23;

pub const BASIC_KINDS: [u8; 16] = [
    K_BOOL, K_I8, K_I16, K_I32, K_I64, K_I128, K_U8, K_U16, K_U32, K_U64, K_U128, K_STRING, K_ARRAY,
    K_TUPLE, K_ENUM, K_MAP,
];
pub const SCRYPTO_CUSTOM: [u8; 5] = [0x80, 0x90, 0xa0, 0xb0, 0xc0];
pub const MANIFEST_CUSTOM: [u8; 9] = [0x80, 0x81, 0x82, 0x83, 0x84, 0x85, 0x86, 0x87, 0x88];

/// Entity-type bytes of the address specification (radix-common/src/types/entity_type.rs doc table).
pub const ENTITY_BYTES: [u8; 22] = [
    0x0d, 0x86, 0x83, 0x82, 0xc0, 0xc1, 0xc2, 0xc3, 0xc4, 0xc5, 0xc6, 0x68, 0xd1, 0xd2, 0x51, 0x52,
    0x5d, 0x58, 0x9a, 0x98, 0xf8, 0xb0,
];

impl Flavour {
    pub const ALL: [Flavour; 3] = [Flavour::Basic, Flavour::Scrypto, Flavour::Manifest];
    pub fn prefix(self) -> u8 {
        match self {
            Flavour::Basic => 0x5b,
            Flavour::Scrypto => 0x5c,
            Flavour::Manifest => 0x4d,
        }
    }
    /// documented default depth limits
    pub fn max_depth(self) -> usize {
        match self {
            Flavour::Basic => 64,
            Flavour::Scrypto => 64,
            Flavour::Manifest => 24,
        }
    }
    pub fn name(self) -> &'static str {
        match self {
            Flavour::Basic => "basic",
            Flavour::Scrypto => "scrypto",
            Flavour::Manifest => "manifest",
        }
    }
    pub fn custom_kinds(self) -> &'static [u8] {
        match self {
            Flavour::Basic => &[],
            Flavour::Scrypto => &SCRYPTO_CUSTOM,
            Flavour::Manifest => &MANIFEST_CUSTOM,
        }
    }
    pub fn is_kind(self, k: u8) -> bool {
        BASIC_KINDS.contains(&k) || self.custom_kinds().contains(&k)
    }
}

#[derive(Clone, Debug, PartialEq, Eq, Hash)]
pub enum RV {
    Bool(bool),
    I8(i8),
    I16(i16),
    I32(i32),
    I64(i64),
    I128(i128),
    U8(u8),
    U16(u16),
    U32(u32),
    U64(u64),
    U128(u128),
    Str(String),
    Enum(u8, Vec<RV>),
    Array(u8, Vec<RV>),
    Tuple(Vec<RV>),
    Map(u8, u8, Vec<(RV, RV)>),
    /// custom kind byte + exact body bytes
    Custom(u8, Vec<u8>),
}

impl RV {
    pub fn kind(&self) -> u8 {
        match self {
            RV::Bool(_) => K_BOOL,
            RV::I8(_) => K_I8,
            RV::I16(_) => K_I16,
            RV::I32(_) => K_I32,
            RV::I64(_) => K_I64,
            RV::I128(_) => K_I128,
            RV::U8(_) => K_U8,
            RV::U16(_) => K_U16,
            RV::U32(_) => K_U32,
            RV::U64(_) => K_U64,
            RV::U128(_) => K_U128,
            RV::Str(_) => K_STRING,
            RV::Enum(..) => K_ENUM,
            RV::Array(..) => K_ARRAY,
            RV::Tuple(_) => K_TUPLE,
            RV::Map(..) => K_MAP,
            RV::Custom(k, _) => *k,
        }
    }
    /// Nesting depth by the definition in the module doc.
    pub fn depth(&self) -> usize {
        match self {
            RV::Enum(_, f) | RV::Tuple(f) | RV::Array(_, f) => 1 + f.iter().map(|x| x.depth()).max().unwrap_or(0),
            RV::Map(_, _, e) => 1 + e.iter().map(|(k, v)| k.depth().max(v.depth())).max().unwrap_or(0),
            _ => 1,
        }
    }
    /// Depth when the elements of u8/i8 arrays are not counted as a level (what a codec that
    /// copies byte arrays wholesale, without per-element depth tracking, would measure).
    pub fn depth_without_byte_elements(&self) -> usize {
        match self {
            RV::Array(k, _) if *k == K_U8 || *k == K_I8 => 1,
            RV::Enum(_, f) | RV::Tuple(f) | RV::Array(_, f) => {
                1 + f.iter().map(|x| x.depth_without_byte_elements()).max().unwrap_or(0)
            }
            RV::Map(_, _, e) => {
                1 + e
                    .iter()
                    .map(|(k, v)| k.depth_without_byte_elements().max(v.depth_without_byte_elements()))
                    .max()
                    .unwrap_or(0)
            }
            _ => 1,
        }
    }
    pub fn nodes(&self) -> usize {
        match self {
            RV::Enum(_, f) | RV::Tuple(f) | RV::Array(_, f) => 1 + f.iter().map(|x| x.nodes()).sum::<usize>(),
            RV::Map(_, _, e) => 1 + e.iter().map(|(k, v)| k.nodes() + v.nodes()).sum::<usize>(),
            _ => 1,
        }
    }
    /// All array elements / map keys / map values have the declared kind (recursively).
    pub fn well_formed(&self) -> bool {
        match self {
            RV::Enum(_, f) | RV::Tuple(f) => f.iter().all(|x| x.well_formed()),
            RV::Array(k, f) => f.iter().all(|x| x.kind() == *k && x.well_formed()),
            RV::Map(kk, vk, e) => e
                .iter()
                .all(|(k, v)| k.kind() == *kk && v.kind() == *vk && k.well_formed() && v.well_formed()),
            _ => true,
        }
    }
    pub fn visit_kinds(&self, f: &mut dyn FnMut(u8, usize), depth: usize) {
        f(self.kind(), depth);
        match self {
            RV::Enum(_, c) | RV::Tuple(c) | RV::Array(_, c) => c.iter().for_each(|x| x.visit_kinds(f, depth + 1)),
            RV::Map(_, _, e) => e.iter().for_each(|(k, v)| {
                k.visit_kinds(f, depth + 1);
                v.visit_kinds(f, depth + 1)
            }),
            _ => {}
        }
    }
}

// ---------------------------------------------------------------------------------------------
// Writer
// ---------------------------------------------------------------------------------------------
pub fn write_size(n: usize, out: &mut Vec<u8>) {
    assert!(n < (1 << 28));
    let mut n = n;
    loop {
        let g = (n & 0x7f) as u8;
        n >>= 7;
        if n == 0 {
            out.push(g);
            return;
        }
        out.push(g | 0x80);
    }
}

/// Offsets of size prefixes / kind bytes written (for targeted mutation).
#[derive(Default, Clone)]
pub struct Marks {
    pub sizes: Vec<(usize, usize)>,
    pub kinds: Vec<usize>,
}

pub fn write_payload(fl: Flavour, v: &RV) -> Vec<u8> {
    let mut out = Vec::with_capacity(64);
    out.push(fl.prefix());
    write_value(v, &mut out, &mut None);
    out
}
pub fn write_payload_marked(fl: Flavour, v: &RV) -> (Vec<u8>, Marks) {
    let mut out = Vec::with_capacity(64);
    out.push(fl.prefix());
    let mut m = Some(Marks::default());
    write_value(v, &mut out, &mut m);
    (out, m.unwrap())
}
fn mark_size(n: usize, out: &mut Vec<u8>, m: &mut Option<Marks>) {
    let at = out.len();
    write_size(n, out);
    if let Some(m) = m {
        m.sizes.push((at, out.len() - at));
    }
}
pub fn write_value(v: &RV, out: &mut Vec<u8>, m: &mut Option<Marks>) {
    if let Some(m) = m {
        m.kinds.push(out.len());
    }
    out.push(v.kind());
    write_body(v, out, m);
}
pub fn write_body(v: &RV, out: &mut Vec<u8>, m: &mut Option<Marks>) {
    match v {
        RV::Bool(b) => out.push(*b as u8),
        RV::I8(x) => out.extend_from_slice(&x.to_le_bytes()),
        RV::I16(x) => out.extend_from_slice(&x.to_le_bytes()),
        RV::I32(x) => out.extend_from_slice(&x.to_le_bytes()),
        RV::I64(x) => out.extend_from_slice(&x.to_le_bytes()),
        RV::I128(x) => out.extend_from_slice(&x.to_le_bytes()),
        RV::U8(x) => out.push(*x),
        RV::U16(x) => out.extend_from_slice(&x.to_le_bytes()),
        RV::U32(x) => out.extend_from_slice(&x.to_le_bytes()),
        RV::U64(x) => out.extend_from_slice(&x.to_le_bytes()),
        RV::U128(x) => out.extend_from_slice(&x.to_le_bytes()),
        RV::Str(s) => {
            mark_size(s.len(), out, m);
            out.extend_from_slice(s.as_bytes());
        }
        RV::Enum(d, f) => {
            out.push(*d);
            mark_size(f.len(), out, m);
            for x in f {
                write_value(x, out, m);
            }
        }
        RV::Tuple(f) => {
            mark_size(f.len(), out, m);
            for x in f {
                write_value(x, out, m);
            }
        }
        RV::Array(k, f) => {
            if let Some(m) = m {
                m.kinds.push(out.len());
            }
            out.push(*k);
            mark_size(f.len(), out, m);
            for x in f {
                write_body(x, out, m);
            }
        }
        RV::Map(kk, vk, e) => {
            if let Some(m) = m {
                m.kinds.push(out.len());
                m.kinds.push(out.len() + 1);
            }
            out.push(*kk);
            out.push(*vk);
            mark_size(e.len(), out, m);
            for (k, v) in e {
                write_body(k, out, m);
                write_body(v, out, m);
            }
        }
        RV::Custom(_, b) => out.extend_from_slice(b),
    }
}

// ---------------------------------------------------------------------------------------------
// Reference reader / acceptor
// ---------------------------------------------------------------------------------------------
#[derive(Clone, Copy, Debug, PartialEq, Eq, Hash)]
pub enum Reject {
    Empty,
    BadPrefix,
    UnknownKind,
    Truncated,
    BadBool,
    BadUtf8,
    BadSize,
    BadCustom,
    Trailing,
    /// nested deeper than the reader's own hard cap (deeper than every limit the monitors use)
    TooDeepForReader,
}
impl Reject {
    pub fn name(self) -> &'static str {
        match self {
            Reject::Empty => "empty",
            Reject::BadPrefix => "bad-prefix",
            Reject::UnknownKind => "unknown-kind",
            Reject::Truncated => "truncated",
            Reject::BadBool => "bad-bool",
            Reject::BadUtf8 => "bad-utf8",
            Reject::BadSize => "non-canonical-or-oversize-length",
            Reject::BadCustom => "bad-custom-value",
            Reject::Trailing => "trailing-bytes",
            Reject::TooDeepForReader => "deeper-than-reader-cap",
        }
    }
}

pub const READER_DEPTH_CAP: usize = 2000;

pub struct Reader<'a> {
    fl: Flavour,
    b: &'a [u8],
    pos: usize,
    pub max_depth_seen: usize,
    pub nodes: usize,
}

impl<'a> Reader<'a> {
    fn byte(&mut self) -> Result<u8, Reject> {
        let x = *self.b.get(self.pos).ok_or(Reject::Truncated)?;
        self.pos += 1;
        Ok(x)
    }
    fn take(&mut self, n: usize) -> Result<&'a [u8], Reject> {
        if self.b.len() - self.pos < n {
            return Err(Reject::Truncated);
        }
        let s = &self.b[self.pos..self.pos + n];
        self.pos += n;
        Ok(s)
    }
    fn size(&mut self) -> Result<usize, Reject> {
        let mut v: usize = 0;
        for i in 0..4 {
            let x = self.byte()?;
            v |= ((x & 0x7f) as usize) << (7 * i);
            if x & 0x80 == 0 {
                if x == 0 && i > 0 {
                    return Err(Reject::BadSize); // non-minimal
                }
                return Ok(v);
            }
        }
        Err(Reject::BadSize) // continuation bit on the 4th byte
    }
    fn kind(&mut self) -> Result<u8, Reject> {
        let k = self.byte()?;
        if self.fl.is_kind(k) {
            Ok(k)
        } else {
            Err(Reject::UnknownKind)
        }
    }
    fn value(&mut self, depth: usize) -> Result<RV, Reject> {
        let k = self.kind()?;
        self.body(k, depth)
    }
    fn arr<const N: usize>(&mut self) -> Result<[u8; N], Reject> {
        let s = self.take(N)?;
        let mut a = [0u8; N];
        a.copy_from_slice(s);
        Ok(a)
    }
    fn body(&mut self, k: u8, depth: usize) -> Result<RV, Reject> {
        if depth > READER_DEPTH_CAP {
            return Err(Reject::TooDeepForReader);
        }
        if depth > self.max_depth_seen {
            self.max_depth_seen = depth;
        }
        self.nodes += 1;
        Ok(match k {
            K_BOOL => match self.byte()? {
                0 => RV::Bool(false),
                1 => RV::Bool(true),
                _ => return Err(Reject::BadBool),
            },
            K_I8 => RV::I8(self.byte()? as i8),
            K_I16 => RV::I16(i16::from_le_bytes(self.arr()?)),
            K_I32 => RV::I32(i32::from_le_bytes(self.arr()?)),
            K_I64 => RV::I64(i64::from_le_bytes(self.arr()?)),
            K_I128 => RV::I128(i128::from_le_bytes(self.arr()?)),
            K_U8 => RV::U8(self.byte()?),
            K_U16 => RV::U16(u16::from_le_bytes(self.arr()?)),
            K_U32 => RV::U32(u32::from_le_bytes(self.arr()?)),
            K_U64 => RV::U64(u64::from_le_bytes(self.arr()?)),
            K_U128 => RV::U128(u128::from_le_bytes(self.arr()?)),
            K_STRING => {
                let n = self.size()?;
                let s = self.take(n)?;
                RV::Str(ref_utf8(s).ok_or(Reject::BadUtf8)?)
            }
            K_TUPLE => {
                let n = self.size()?;
                let mut f = Vec::new();
                for _ in 0..n {
                    f.push(self.value(depth + 1)?);
                }
                RV::Tuple(f)
            }
            K_ENUM => {
                let d = self.byte()?;
                let n = self.size()?;
                let mut f = Vec::new();
                for _ in 0..n {
                    f.push(self.value(depth + 1)?);
                }
                RV::Enum(d, f)
            }
            K_ARRAY => {
                let ek = self.kind()?;
                let n = self.size()?;
                let mut f = Vec::new();
                for _ in 0..n {
                    f.push(self.body(ek, depth + 1)?);
                }
                RV::Array(ek, f)
            }
            K_MAP => {
                let kk = self.kind()?;
                let vk = self.kind()?;
                let n = self.size()?;
                let mut e = Vec::new();
                for _ in 0..n {
                    let key = self.body(kk, depth + 1)?;
                    let val = self.body(vk, depth + 1)?;
                    e.push((key, val));
                }
                RV::Map(kk, vk, e)
            }
            c => {
                let start = self.pos;
                self.custom(c)?;
                RV::Custom(c, self.b[start..self.pos].to_vec())
            }
        })
    }
    fn local_id(&mut self) -> Result<(), Reject> {
        match self.byte()? {
            0 => {
                let n = self.size()?;
                let s = self.take(n)?;
                if n == 0 || n > 64 {
                    return Err(Reject::BadCustom);
                }
                if !s.iter().all(|c| c.is_ascii_alphanumeric() || *c == b'_') {
                    return Err(Reject::BadCustom);
                }
            }
            1 => {
                self.take(8)?;
            }
            2 => {
                let n = self.size()?;
                self.take(n)?;
                if n == 0 || n > 64 {
                    return Err(Reject::BadCustom);
                }
            }
            3 => {
                self.take(32)?;
            }
            _ => return Err(Reject::BadCustom),
        }
        Ok(())
    }
    fn custom(&mut self, c: u8) -> Result<(), Reject> {
        match (self.fl, c) {
            (Flavour::Scrypto, 0x80) | (Flavour::Scrypto, 0x90) => {
                self.take(30)?;
            }
            (Flavour::Scrypto, 0xa0) => {
                self.take(24)?;
            }
            (Flavour::Scrypto, 0xb0) => {
                self.take(32)?;
            }
            (Flavour::Scrypto, 0xc0) => self.local_id()?,
            (Flavour::Manifest, 0x80) => match self.byte()? {
                0 => {
                    let s = self.take(30)?;
                    if !ENTITY_BYTES.contains(&s[0]) {
                        return Err(Reject::BadCustom);
                    }
                }
                1 => {
                    self.take(4)?;
                }
                _ => return Err(Reject::BadCustom),
            },
            (Flavour::Manifest, 0x81) | (Flavour::Manifest, 0x82) | (Flavour::Manifest, 0x88) => {
                self.take(4)?;
            }
            (Flavour::Manifest, 0x83) => {
                if self.byte()? > 1 {
                    return Err(Reject::BadCustom);
                }
            }
            (Flavour::Manifest, 0x84) => {
                self.take(32)?;
            }
            (Flavour::Manifest, 0x85) => {
                self.take(24)?;
            }
            (Flavour::Manifest, 0x86) => {
                self.take(32)?;
            }
            (Flavour::Manifest, 0x87) => self.local_id()?,
            _ => return Err(Reject::UnknownKind),
        }
        Ok(())
    }
}

/// Hand-written UTF-8 validity (RFC 3629: no overlongs, no surrogates, <= U+10FFFF).
pub fn ref_utf8(s: &[u8]) -> Option<String> {
    let mut out = String::with_capacity(s.len());
    let mut i = 0;
    while i < s.len() {
        let b0 = s[i];
        let (len, min, mut cp) = if b0 < 0x80 {
            (1, 0u32, b0 as u32)
        } else if b0 & 0xe0 == 0xc0 {
            (2, 0x80, (b0 & 0x1f) as u32)
        } else if b0 & 0xf0 == 0xe0 {
            (3, 0x800, (b0 & 0x0f) as u32)
        } else if b0 & 0xf8 == 0xf0 {
            (4, 0x10000, (b0 & 0x07) as u32)
        } else {
            return None;
        };
        if i + len > s.len() {
            return None;
        }
        for j in 1..len {
            let c = s[i + j];
            if c & 0xc0 != 0x80 {
                return None;
            }
            cp = (cp << 6) | (c & 0x3f) as u32;
        }
        if cp < min || cp > 0x10ffff || (0xd800..=0xdfff).contains(&cp) {
            return None;
        }
        out.push(char::from_u32(cp)?);
        i += len;
    }
    Some(out)
}

pub struct Parsed {
    pub tree: RV,
    pub depth: usize,
    pub nodes: usize,
}

/// Reads a full payload. Ok ⇒ the bytes are a wire-format payload of `fl` (of nesting depth `depth`).
pub fn read_payload(fl: Flavour, b: &[u8]) -> Result<Parsed, Reject> {
    if b.is_empty() {
        return Err(Reject::Empty);
    }
    if b[0] != fl.prefix() {
        return Err(Reject::BadPrefix);
    }
    let mut r = Reader { fl, b, pos: 1, max_depth_seen: 0, nodes: 0 };
    let tree = r.value(1)?;
    if r.pos != b.len() {
        return Err(Reject::Trailing);
    }
    Ok(Parsed { tree, depth: r.max_depth_seen, nodes: r.nodes })
}

// ---------------------------------------------------------------------------------------------
// Generators
// ---------------------------------------------------------------------------------------------
fn gen_ident(rng: &mut Rng, max: usize) -> Vec<u8> {
    const CS: &[u8] = b"abcdefghijklmnopqrstuvwxyzABCDEFGHIJKLMNOPQRSTUVWXYZ0123456789_";
    let n = 1 + rng.usize_below(max);
    (0..n).map(|_| *rng.pick(CS)).collect()
}

fn gen_local_id_body(rng: &mut Rng) -> Vec<u8> {
    let mut b = vec![];
    match rng.below(4) {
        0 => {
            b.push(0);
            let mut s = if rng.chance(1, 6) { gen_ident(rng, 1).repeat(64) } else { gen_ident(rng, 64) };
            // near-misses of the allowed character set: the bytes adjacent to '0'..'9', 'A'..'Z',
            // 'a'..'z' and '_' (e.g. '/', ':', '@', '[', '\\', ']', '^', '`', '{'), space, '-', '.', DEL, high bytes
            if rng.chance(1, 4) {
                const NEAR: &[u8] = b"/:@[\\]^`{ -.\x7f\x80\xff\x00";
                let i = rng.usize_below(s.len());
                s[i] = *rng.pick(NEAR);
            }
            write_size(s.len(), &mut b);
            b.extend(s);
        }
        1 => {
            b.push(1);
            b.extend(int_u64(rng).to_be_bytes());
        }
        2 => {
            b.push(2);
            let n = if rng.chance(1, 6) { 64 } else { 1 + rng.usize_below(64) };
            write_size(n, &mut b);
            b.extend(rng.bytes(n));
        }
        _ => {
            b.push(3);
            b.extend(rng.bytes(32));
        }
    }
    b
}

pub fn gen_custom(rng: &mut Rng, fl: Flavour, kind: u8) -> RV {
    let body = match (fl, kind) {
        (Flavour::Scrypto, 0x80) | (Flavour::Scrypto, 0x90) => {
            let mut b = rng.bytes(30);
            if rng.bool() {
                b[0] = *rng.pick(&ENTITY_BYTES);
            }
            b
        }
        (Flavour::Scrypto, 0xa0) | (Flavour::Manifest, 0x85) => edge_bytes(rng, 24),
        (Flavour::Scrypto, 0xb0) | (Flavour::Manifest, 0x86) => edge_bytes(rng, 32),
        (Flavour::Scrypto, 0xc0) | (Flavour::Manifest, 0x87) => gen_local_id_body(rng),
        (Flavour::Manifest, 0x80) => {
            if rng.bool() {
                let mut b = vec![0u8];
                let mut n = rng.bytes(30);
                n[0] = *rng.pick(&ENTITY_BYTES);
                b.extend(n);
                b
            } else {
                let mut b = vec![1u8];
                b.extend(int_u64(rng).to_le_bytes()[..4].iter());
                b
            }
        }
        (Flavour::Manifest, 0x81) | (Flavour::Manifest, 0x82) | (Flavour::Manifest, 0x88) => {
            int_u64(rng).to_le_bytes()[..4].to_vec()
        }
        (Flavour::Manifest, 0x83) => vec![rng.below(2) as u8],
        (Flavour::Manifest, 0x84) => rng.bytes(32),
        _ => vec![], // not a custom kind of this flavour: an (invalid) empty body, never a harness panic
    };
    RV::Custom(kind, body)
}

fn edge_bytes(rng: &mut Rng, n: usize) -> Vec<u8> {
    match rng.below(6) {
        0 => vec![0; n],
        1 => vec![0xff; n],
        2 => {
            let mut v = vec![0; n];
            v[n - 1] = 0x80;
            v
        }
        3 => {
            let mut v = vec![0xff; n];
            v[n - 1] = 0x7f;
            v
        }
        _ => rng.bytes(n),
    }
}

pub fn int_u64(rng: &mut Rng) -> u64 {
    match rng.below(8) {
        0 => 0,
        1 => u64::MAX,
        2 => 1u64 << rng.below(64),
        3 => (1u64 << rng.below(64)).wrapping_sub(1),
        4 => rng.below(256),
        _ => rng.u64(),
    }
}
pub fn int_u128(rng: &mut Rng) -> u128 {
    match rng.below(8) {
        0 => 0,
        1 => u128::MAX,
        2 => 1u128 << rng.below(128),
        3 => (1u128 << rng.below(128)).wrapping_sub(1),
        4 => i128::MAX as u128,
        5 => i128::MIN as u128,
        _ => rng.u128(),
    }
}

pub fn gen_string(rng: &mut Rng, max_chars: usize) -> String {
    const POOL: &[char] = &[
        'a', 'Z', '0', ' ', '_', '\n', '\0', '\u{7f}', '\u{80}', '\u{7ff}', '\u{800}', '\u{d7ff}', '\u{e000}',
        '\u{fffd}', '\u{ffff}', '\u{10000}', '\u{10ffff}', 'é', '漢', '🦀',
    ];
    let n = rng.size(max_chars);
    (0..n).map(|_| *rng.pick(POOL)).collect()
}

pub fn gen_leaf(rng: &mut Rng, fl: Flavour, kind: u8) -> RV {
    match kind {
        K_BOOL => RV::Bool(rng.bool()),
        K_I8 => RV::I8(int_u64(rng) as i8),
        K_I16 => RV::I16(int_u64(rng) as i16),
        K_I32 => RV::I32(int_u64(rng) as i32),
        K_I64 => RV::I64(int_u64(rng) as i64),
        K_I128 => RV::I128(int_u128(rng) as i128),
        K_U8 => RV::U8(int_u64(rng) as u8),
        K_U16 => RV::U16(int_u64(rng) as u16),
        K_U32 => RV::U32(int_u64(rng) as u32),
        K_U64 => RV::U64(int_u64(rng)),
        K_U128 => RV::U128(int_u128(rng)),
        K_STRING => {
            let m = if rng.chance(1, 40) { 200 } else { 12 };
            RV::Str(gen_string(rng, m))
        }
        c => gen_custom(rng, fl, c),
    }
}

pub fn pick_kind(rng: &mut Rng, fl: Flavour, allow_container: bool) -> u8 {
    let customs = fl.custom_kinds();
    loop {
        let k = if !customs.is_empty() && rng.chance(1, 4) { *rng.pick(customs) } else { *rng.pick(&BASIC_KINDS) };
        if allow_container || !matches!(k, K_ARRAY | K_TUPLE | K_ENUM | K_MAP) {
            return k;
        }
    }
}

/// Budgeted random tree. `depth_left` >= 1: how many more levels may be used (including this one).
pub fn gen_value_of_kind(rng: &mut Rng, fl: Flavour, kind: u8, depth_left: usize, budget: &mut usize) -> RV {
    *budget = budget.saturating_sub(1);
    let child_ok = depth_left > 1 && *budget > 0;
    let width = |rng: &mut Rng, budget: &usize| -> usize {
        if !child_ok {
            0
        } else {
            rng.size((*budget).min(24))
        }
    };
    match kind {
        K_TUPLE => {
            let n = width(rng, budget);
            RV::Tuple((0..n).map(|_| gen_value(rng, fl, depth_left - 1, budget)).collect())
        }
        K_ENUM => {
            let n = width(rng, budget);
            let d = if rng.chance(1, 5) { *rng.pick(&[0u8, 1, 127, 128, 255]) } else { rng.u8() };
            RV::Enum(d, (0..n).map(|_| gen_value(rng, fl, depth_left - 1, budget)).collect())
        }
        K_ARRAY => {
            let ek = pick_kind(rng, fl, depth_left > 2);
            let n = if ek == K_U8 || ek == K_I8 {
                if !child_ok {
                    0
                } else {
                    match rng.below(12) {
                        0 => 127 + rng.usize_below(3),
                        1 => 1023 + rng.usize_below(3),
                        2 => 16383 + rng.usize_below(3),
                        _ => rng.size(64),
                    }
                }
            } else {
                width(rng, budget)
            };
            RV::Array(ek, (0..n).map(|_| gen_value_of_kind(rng, fl, ek, depth_left - 1, budget)).collect())
        }
        K_MAP => {
            let key_container = depth_left > 2 && rng.chance(1, 4);
            let kk = pick_kind(rng, fl, key_container);
            let vk = pick_kind(rng, fl, depth_left > 2);
            let n = width(rng, budget).min(8);
            let mut e = vec![];
            for _ in 0..n {
                let k = gen_value_of_kind(rng, fl, kk, depth_left - 1, budget);
                let v = gen_value_of_kind(rng, fl, vk, depth_left - 1, budget);
                e.push((k, v));
            }
            if n > 1 && rng.chance(1, 5) {
                // duplicate keys / unsorted keys are legal at the Value level
                let dup = e[0].clone();
                e.push(dup);
            }
            RV::Map(kk, vk, e)
        }
        k => gen_leaf(rng, fl, k),
    }
}

pub fn gen_value(rng: &mut Rng, fl: Flavour, depth_left: usize, budget: &mut usize) -> RV {
    let k = pick_kind(rng, fl, depth_left > 1);
    gen_value_of_kind(rng, fl, k, depth_left, budget)
}

/// A chain of exactly `depth` nested levels using mixed container kinds, ending in a leaf or an
/// empty container; optional side branches.
pub fn gen_chain(rng: &mut Rng, fl: Flavour, depth: usize) -> RV {
    assert!(depth >= 1);
    // Build inside-out. `cur` has nesting depth `cur_depth`.
    let mut cur = match rng.below(4) {
        0 => RV::Tuple(vec![]),
        1 => RV::Array(pick_kind(rng, fl, true), vec![]),
        2 => RV::Map(pick_kind(rng, fl, false), pick_kind(rng, fl, true), vec![]),
        _ => {
            let k = pick_kind(rng, fl, false);
            gen_leaf(rng, fl, k)
        }
    };
    for _ in 1..depth {
        cur = match rng.below(6) {
            0 => RV::Tuple(vec![cur]),
            1 => RV::Enum(rng.u8(), vec![cur]),
            2 => {
                let k = cur.kind();
                RV::Array(k, vec![cur])
            }
            3 => {
                let k = cur.kind();
                let kk = pick_kind(rng, fl, false);
                let key = gen_leaf(rng, fl, kk);
                RV::Map(kk, k, vec![(key, cur)])
            }
            4 => {
                // deep side is the map KEY
                let k = cur.kind();
                RV::Map(k, K_U8, vec![(cur, RV::U8(rng.u8()))])
            }
            _ => {
                let side_kind = pick_kind(rng, fl, false);
                let side = gen_leaf(rng, fl, side_kind);
                if rng.bool() {
                    RV::Tuple(vec![side, cur])
                } else {
                    RV::Tuple(vec![cur, side])
                }
            }
        };
    }
    cur
}

/// Make a well-formed tree ill-formed (an array element / map key / map value of the wrong kind).
pub fn break_kinds(rng: &mut Rng, v: &mut RV) -> bool {
    match v {
        RV::Array(k, f) if !f.is_empty() && rng.bool() => {
            let nk = other_kind(rng, *k);
            *k = nk;
            true
        }
        RV::Map(kk, vk, e) if !e.is_empty() && rng.bool() => {
            if rng.bool() {
                *kk = other_kind(rng, *kk);
            } else {
                *vk = other_kind(rng, *vk);
            }
            true
        }
        RV::Array(_, f) | RV::Tuple(f) | RV::Enum(_, f) => {
            if f.is_empty() {
                return false;
            }
            let i = rng.usize_below(f.len());
            break_kinds(rng, &mut f[i])
        }
        RV::Map(_, _, e) => {
            if e.is_empty() {
                return false;
            }
            let i = rng.usize_below(e.len());
            if rng.bool() {
                break_kinds(rng, &mut e[i].0)
            } else {
                break_kinds(rng, &mut e[i].1)
            }
        }
        _ => false,
    }
}
fn other_kind(rng: &mut Rng, k: u8) -> u8 {
    loop {
        let n = *rng.pick(&BASIC_KINDS);
        if n != k {
            return n;
        }
    }
}

// ---------------------------------------------------------------------------------------------
// Byte-level mutation
// ---------------------------------------------------------------------------------------------
pub const MUTATORS: [&str; 16] = [
    "bitflip",
    "byte-dict",
    "truncate",
    "append",
    "insert",
    "delete",
    "kind-swap",
    "size-nonminimal",
    "size-huge",
    "size-plus-minus",
    "size-5-bytes",
    "prefix-swap",
    "splice",
    "dup-range",
    "custom-kind-inject",
    "utf8-poison",
];

const DICT: [u8; 24] = [
    0x00, 0x01, 0x02, 0x07, 0x0c, 0x0d, 0x1f, 0x20, 0x21, 0x22, 0x23, 0x24, 0x7f, 0x80, 0x81, 0x83, 0x88, 0x89,
    0x90, 0xa0, 0xb0, 0xc0, 0xfe, 0xff,
];

/// Applies one mutation; returns its name.
pub fn mutate(rng: &mut Rng, fl: Flavour, p: &mut Vec<u8>, marks: Option<&Marks>, other: Option<&[u8]>) -> &'static str {
    let which = rng.usize_below(MUTATORS.len());
    let name = MUTATORS[which];
    if p.is_empty() {
        p.push(rng.u8());
        return "append";
    }
    let pos = rng.usize_below(p.len());
    // helper: offset of a size prefix, if known
    let size_at = |rng: &mut Rng| -> Option<(usize, usize)> {
        marks.and_then(|m| if m.sizes.is_empty() { None } else { Some(*rng.pick(&m.sizes)) }).filter(|(o, l)| o + l <= p.len())
    };
    match name {
        "bitflip" => p[pos] ^= 1 << rng.below(8),
        "byte-dict" => p[pos] = *rng.pick(&DICT),
        "truncate" => {
            let n = if rng.bool() { p.len() - 1 } else { pos };
            p.truncate(n);
        }
        "append" => {
            let n = 1 + rng.usize_below(3);
            for _ in 0..n {
                p.push(*rng.pick(&DICT));
            }
        }
        "insert" => p.insert(pos, *rng.pick(&DICT)),
        "delete" => {
            let n = (1 + rng.usize_below(4)).min(p.len() - pos);
            p.drain(pos..pos + n);
        }
        "kind-swap" => {
            let at = marks
                .and_then(|m| if m.kinds.is_empty() { None } else { Some(*rng.pick(&m.kinds)) })
                .filter(|a| *a < p.len())
                .unwrap_or(pos);
            p[at] = if rng.chance(1, 3) && !fl.custom_kinds().is_empty() {
                *rng.pick(fl.custom_kinds())
            } else {
                *rng.pick(&BASIC_KINDS)
            };
        }
        "size-nonminimal" => {
            // re-express a size with a redundant trailing zero group: s -> s|0x80, 0x00
            if let Some((o, l)) = size_at(rng) {
                if l < 4 {
                    p[o + l - 1] |= 0x80;
                    p.insert(o + l, 0x00);
                } else {
                    p[o + 3] |= 0x80;
                }
            } else {
                p[pos] |= 0x80;
                p.insert(pos + 1, 0);
            }
        }
        "size-huge" => {
            let huge: &[u8] = match rng.below(4) {
                0 => &[0xff, 0xff, 0xff, 0x7f],
                1 => &[0x80, 0x80, 0x80, 0x01],
                2 => &[0xff, 0xff, 0x03],
                _ => &[0x81, 0x08],
            };
            if let Some((o, l)) = size_at(rng) {
                p.splice(o..o + l, huge.iter().copied());
            } else {
                p.splice(pos..pos + 1, huge.iter().copied());
            }
        }
        "size-plus-minus" => {
            if let Some((o, l)) = size_at(rng) {
                if l == 1 {
                    p[o] = if rng.bool() { p[o].wrapping_add(1) & 0x7f } else { p[o].wrapping_sub(1) & 0x7f };
                } else {
                    p[o] ^= 1;
                }
            } else {
                p[pos] = p[pos].wrapping_add(1);
            }
        }
        "size-5-bytes" => {
            let five: &[u8] = if rng.bool() { &[0xff, 0xff, 0xff, 0xff, 0x00] } else { &[0x80, 0x80, 0x80, 0x80, 0x01] };
            if let Some((o, l)) = size_at(rng) {
                p.splice(o..o + l, five.iter().copied());
            } else {
                p.splice(pos..pos + 1, five.iter().copied());
            }
        }
        "prefix-swap" => p[0] = *rng.pick(&[0x5b, 0x5c, 0x4d, 0x52, 0x54, 0x00]),
        "splice" => {
            if let Some(o) = other {
                if !o.is_empty() {
                    let a = rng.usize_below(o.len());
                    let b = (a + 1 + rng.usize_below(16)).min(o.len());
                    let chunk = o[a..b].to_vec();
                    p.splice(pos..pos, chunk);
                }
            } else {
                p[pos] = rng.u8();
            }
        }
        "dup-range" => {
            let n = (1 + rng.usize_below(8)).min(p.len() - pos);
            let chunk = p[pos..pos + n].to_vec();
            p.splice(pos..pos, chunk);
        }
        "custom-kind-inject" => {
            let k = match rng.below(3) {
                0 => *rng.pick(&SCRYPTO_CUSTOM),
                1 => *rng.pick(&MANIFEST_CUSTOM),
                _ => 0x80 + (rng.u8() & 0x7f),
            };
            p[pos] = k;
        }
        "utf8-poison" => {
            let bad: &[u8] = match rng.below(6) {
                0 => &[0xc0, 0x80],
                1 => &[0xed, 0xa0, 0x80],
                2 => &[0xf4, 0x90, 0x80, 0x80],
                3 => &[0xe0, 0x80, 0x80],
                4 => &[0xff],
                _ => &[0xf0, 0x80, 0x80, 0x80],
            };
            let n = bad.len().min(p.len() - pos);
            p[pos..pos + n].copy_from_slice(&bad[..n]);
        }
        _ => unreachable!(),
    }
    name
}

/// Hand-shaped hostile payloads that do not come from a tree.
pub fn gen_raw_hostile(rng: &mut Rng, fl: Flavour) -> (Vec<u8>, &'static str) {
    let mut p = vec![fl.prefix()];
    match rng.below(8) {
        0 => {
            // uniform bytes
            let n = rng.size(64);
            p.extend(rng.bytes(n));
            (p, "uniform")
        }
        1 => {
            // kind soup
            let n = 1 + rng.size(48);
            for _ in 0..n {
                if rng.chance(2, 3) {
                    p.push(pick_kind(rng, fl, true));
                } else {
                    p.push(*rng.pick(&DICT));
                }
            }
            (p, "kind-soup")
        }
        2 => {
            // every level claims 1024 (or more) children: pre-allocation pressure
            let levels = 1 + rng.usize_below(80);
            for _ in 0..levels {
                match rng.below(4) {
                    0 => p.extend([K_TUPLE, 0x80, 0x08]),
                    1 => p.extend([K_ENUM, rng.u8(), 0xff, 0xff, 0xff, 0x7f]),
                    2 => p.extend([K_ARRAY, K_TUPLE, 0x80, 0x08]),
                    _ => p.extend([K_MAP, K_U8, K_TUPLE, 0x80, 0x08, rng.u8()]),
                }
            }
            (p, "prealloc-pressure")
        }
        3 => {
            // huge length claims on every sized kind
            let k = *rng.pick(&[K_STRING, K_ARRAY, K_TUPLE, K_ENUM, K_MAP]);
            p.push(k);
            match k {
                K_ARRAY => p.push(pick_kind(rng, fl, true)),
                K_ENUM => p.push(rng.u8()),
                K_MAP => {
                    p.push(pick_kind(rng, fl, true));
                    p.push(pick_kind(rng, fl, true));
                }
                _ => {}
            }
            p.extend(*rng.pick(&[&[0xff, 0xff, 0xff, 0x7f][..], &[0x80, 0x80, 0x80, 0x40], &[0xff, 0xff, 0x7f], &[0x80, 0x80, 0x01]]));
            let n = rng.size(40);
            p.extend(rng.bytes(n));
            (p, "huge-claim")
        }
        4 => {
            // very deep nesting far beyond any limit
            let levels = 60 + rng.usize_below(400);
            for _ in 0..levels {
                match rng.below(3) {
                    0 => p.extend([K_TUPLE, 1]),
                    1 => p.extend([K_ENUM, 0, 1]),
                    _ => p.extend([K_ARRAY, K_ARRAY, 1]),
                }
            }
            (p, "very-deep")
        }
        5 => {
            // array-of-arrays via implicit element kinds: depth grows by 1 per 2 bytes
            let levels = 1 + rng.usize_below(70);
            p.push(K_ARRAY);
            for _ in 0..levels {
                p.extend([K_ARRAY, 1]);
            }
            p.extend([K_U8, 0]);
            (p, "array-chain")
        }
        6 => {
            // large byte array with correct / off-by-one length
            let n = *rng.pick(&[1023usize, 1024, 1025, 5000, 16384, 70000]);
            p.extend([K_ARRAY, K_U8]);
            let claim = (n as i64 + rng.irange(-1, 1)) as usize;
            write_size(claim, &mut p);
            p.extend(rng.bytes(n));
            (p, "big-bytes")
        }
        _ => {
            // many tiny elements: amplification of in-memory size per payload byte
            let n = *rng.pick(&[100usize, 1000, 1025, 3000]);
            let k = *rng.pick(&[K_U8, K_BOOL, K_TUPLE, K_STRING, K_I8]);
            p.extend([K_ARRAY, k]);
            write_size(n, &mut p);
            for _ in 0..n {
                p.push(if k == K_BOOL { rng.below(2) as u8 } else if k == K_TUPLE || k == K_STRING { 0 } else { rng.u8() });
            }
            (p, "many-tiny")
        }
    }
}
