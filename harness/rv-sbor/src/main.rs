//! rv-sbor: runtime monitors for the SBOR codec properties C20-C23.
mod c22;
mod c23;
mod codec;
mod flav;
mod schemagen;
mod synth;
mod typed;
mod wire;

#[global_allocator]
static A: rv_common::alloc_count::CountingAlloc = rv_common::alloc_count::CountingAlloc;

fn main() {
    let args = rv_common::parse_args();
    if args.prop == "__debug_nfl" {
        use crate::flav::Flav;
        let mut rng = rv_common::Rng::new(1);
        for _ in 0..2000 {
            if let wire::RV::Custom(k, b) = wire::gen_custom(&mut rng, wire::Flavour::Scrypto, 0xc0) {
                if flav::ScryptoF::custom_from_rv(k, &b).is_none() {
                    println!("fails: {}", rv_common::hex(&b));
                    break;
                }
            }
        }
        return;
    }
    if args.prop == "__child" {
        typed::child_main(args.extra.first().map(|s| s.as_str()).unwrap_or(""));
    }
    let replay_doc = args.replay.as_ref().map(|p| {
        let text = std::fs::read_to_string(p).unwrap_or_else(|e| {
            eprintln!("cannot read replay file {}: {e}", p.display());
            std::process::exit(2)
        });
        serde_json::from_str::<serde_json::Value>(&text).unwrap_or_else(|e| {
            eprintln!("bad replay file: {e}");
            std::process::exit(2)
        })
    });
    let report = match (args.prop.as_str(), &replay_doc) {
        ("C20", None) => codec::run(&args, codec::Which::C20),
        ("C21", None) => codec::run(&args, codec::Which::C21),
        ("C22", None) => c22::run(&args),
        ("C22", Some(doc)) => c22::replay(&args, doc),
        ("C23", None) => c23::run(&args),
        ("C23", Some(doc)) => c23::replay(&args, doc),
        ("C20", Some(doc)) => codec::replay(&args, codec::Which::C20, doc),
        ("C21", Some(doc)) => codec::replay(&args, codec::Which::C21, doc),
        _ => {
            eprintln!("no check named {}", args.prop);
            std::process::exit(2);
        }
    };
    std::process::exit(report.finish())
}
