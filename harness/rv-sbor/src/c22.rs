//! C22: typed SBOR codecs of the engine's derived types agree with their generated schemas.
use crate::schemagen::*;
use crate::wire::{self, Flavour};
use radix_common::data::manifest::*;
use radix_common::data::scrypto::*;
use rv_common::{catch, catch_mut, hex, unhex, Args, Report, Rng, Shard, Spec};
use sbor::*;
use serde_json::json;
use std::fmt::Debug;
use std::time::Duration;

fn spec() -> Spec {
    Spec::new(
        "C22",
        "exploration",
        "for a roster of SBOR-derived engine types T (substates, events, transaction models, receipt parts) and payloads p (generated from T's own schema, harvested from a bootstrapped ledger, and mutants of both): \
         typed decode accepts p => p validates against T's generated schema; for the decoded value v: encode(v) validates against the schema and decodes back to an equal value; \
         plus a synthetic roster of harness-defined types exercising the derive macros (generic / transparent / as_type / skip / flatten / discriminator / bounds / recursion; several instantiations of one generic inside one schema) whose values are constructed directly",
    )
    .assume("schema = generate_full_schema_from_single_type::<T, ScryptoCustomSchema>(); validation with the static () context, depth limit 64")
    .assume("values are obtained by typed decoding of generated / harvested / mutated payloads (every accepted payload yields a value of T)")
    .floor("types_exercised", 100)
    .floor("typed_accepts", 50_000)
    .floor("typed_rejects", 50_000)
    .floor("harvested_payloads", 300)
    .floor("harvest_typed_accepts", 200)
    .floor("roundtrips_checked", 50_000)
    .floor("synthetic_types_exercised", 45)
    .floor("synthetic_types_with_values", 45)
    .floor("constructed_values", 20_000)
    .explain("equality is PartialEq where the type has it, else byte equality of the re-encoding")
}

/// Stable class of a validation error (custom validations keep their kind, e.g. Own<IsVault>).
fn val_class(e: &str) -> String {
    for pat in ["Expected = Own<", "Expected = Reference<", "Expected Reference<", "Expected Own<"] {
        if let Some(i) = e.find(pat) {
            let rest = &e[i + pat.len()..];
            let end = rest.find(|c: char| !(c.is_ascii_alphanumeric())).unwrap_or(rest.len());
            let kind = if pat.contains("Own") { "Own" } else { "Reference" };
            return format!("custom-validation:{kind}.{}", &rest[..end]);
        }
    }
    error_class(e)
}

pub trait Entry: Sync + Send {
    fn name(&self) -> &'static str;
    fn flavour(&self) -> Flavour;
    fn schema(&self) -> (&Sch, LocalTypeId);
    /// Runs the oracle on one payload. Returns true if the typed decoder accepted.
    fn check(&self, p: &[u8], origin: &str, sh: &mut Shard) -> bool;
    /// Encoding of a value built directly with the type's constructors (not via its schema).
    fn constructed(&self, rng: &mut Rng) -> Option<Vec<u8>>;
    fn is_synthetic(&self) -> bool {
        self.name().starts_with("synth::")
    }
}

pub struct E<T, const MANIFEST: bool, const EQ: bool> {
    name: &'static str,
    schema: VersionedSchema<S>,
    tid: LocalTypeId,
    eq: fn(&T, &T) -> Option<bool>,
    /// directly constructed value, encoded (synthetic roster only)
    gen: Option<fn(&mut Rng) -> Option<Vec<u8>>>,
    ph: std::marker::PhantomData<fn() -> T>,
}

trait Codec<T> {
    fn dec(p: &[u8]) -> Result<T, DecodeError>;
    fn enc(v: &T) -> Result<Vec<u8>, EncodeError>;
}
struct Sc;
struct Mf;
impl<T: ScryptoEncode + ScryptoDecode> Codec<T> for Sc {
    fn dec(p: &[u8]) -> Result<T, DecodeError> {
        scrypto_decode::<T>(p)
    }
    fn enc(v: &T) -> Result<Vec<u8>, EncodeError> {
        scrypto_encode(v)
    }
}
impl<T: ManifestEncode + ManifestDecode> Codec<T> for Mf {
    fn dec(p: &[u8]) -> Result<T, DecodeError> {
        manifest_decode::<T>(p)
    }
    fn enc(v: &T) -> Result<Vec<u8>, EncodeError> {
        manifest_encode(v)
    }
}

fn check_generic<T: Debug, C: Codec<T>>(
    name: &'static str,
    fl: Flavour,
    schema: &Sch,
    tid: LocalTypeId,
    eq: fn(&T, &T) -> Option<bool>,
    p: &[u8],
    origin: &str,
    sh: &mut Shard,
) -> bool {
    let typed = match catch(|| C::dec(p)) {
        Ok(r) => r,
        Err(pi) => {
            // totality of decoding is C21's clause; record and move on
            sh.count("typed_decoder_panics");
            sh.seen("typed_decoder_panic_sites", &format!("{name}@{}", pi.site()));
            return false;
        }
    };
    let sv = match catch_mut(|| validate(fl, p, schema, tid, 64)) {
        Ok(r) => r,
        Err(pi) => {
            sh.count("validator_panics");
            sh.seen("validator_panic_sites", &pi.site());
            return false;
        }
    };
    sh.eval();
    match (&typed, &sv) {
        (Ok(_), Ok(())) => sh.count("typed_accepts_schema_accepts"),
        (Err(_), Ok(())) => sh.count("typed_rejects_schema_accepts"),
        (Err(_), Err(_)) => sh.count("typed_rejects_schema_rejects"),
        (Ok(_), Err(_)) => sh.count("typed_accepts_schema_rejects"),
    }
    let v = match typed {
        Ok(v) => v,
        Err(e) => {
            sh.count("typed_rejects");
            sh.seen("typed_decode_errors", crate::flav::decode_err_name(&e));
            return false;
        }
    };
    sh.count("typed_accepts");
    if name.starts_with("synth::") || name.contains("synth::") {
        sh.count(&format!("synthetic_values:{name}"));
    }
    if origin.starts_with("harvest") {
        sh.count("harvest_typed_accepts");
        sh.seen("harvest_types_matched", name);
    }
    let detail = |what: &str, extra: serde_json::Value| json!({"type": name, "flavour": fl.name(), "payload": hex(p), "origin": origin, "what": what, "extra": extra});
    if let Err(e) = &sv {
        let clause = if origin == "constructed-value" {
            // p is the encoding of a directly constructed value of T
            "encoding-of-constructed-value-rejected-by-own-schema"
        } else {
            "typed-decoder-accepts-payload-its-schema-rejects"
        };
        sh.violation(
            format!("{clause}:{}", val_class(e)),
            detail("typed decode Ok, validate_payload_against_schema Err", json!({"validation_error": e})),
        );
    }
    // value -> encoding -> schema, and back
    let enc = match catch_mut(|| C::enc(&v)) {
        Ok(Ok(b)) => b,
        Ok(Err(e)) => {
            sh.violation(
                format!("decoded-value-does-not-encode:{}", crate::flav::encode_err_name(&e)),
                detail("encode of a decoded value failed", json!({})),
            );
            return true;
        }
        Err(pi) => {
            sh.violation(format!("typed-encoder-panics:{}", pi.site()), detail("encode panicked", json!({"panic": pi.summary()})));
            return true;
        }
    };
    // (when p itself failed validation and re-encodes to the same bytes this is the same fact again)
    let same_fact = sv.is_err() && enc == p;
    if let (false, Ok(Err(e))) = (same_fact, catch_mut(|| validate(fl, &enc, schema, tid, 64))) {
        sh.violation(
            format!("encoding-of-typed-value-rejected-by-own-schema:{}", val_class(&e)),
            detail("encode(v) fails validation against T's schema", json!({"encoded": hex(&enc), "validation_error": e})),
        );
    }
    match catch(|| C::dec(&enc)) {
        Ok(Ok(v2)) => {
            sh.count("roundtrips_checked");
            let same = match eq(&v, &v2) {
                Some(b) => b,
                None => match catch_mut(|| C::enc(&v2)) {
                    Ok(Ok(b2)) => b2 == enc,
                    _ => false,
                },
            };
            if !same {
                sh.violation(
                    format!("typed-roundtrip-not-equal:{name}"),
                    detail("decode(encode(v)) != v", json!({"encoded": hex(&enc), "value": format!("{v:?}").chars().take(600).collect::<String>()})),
                );
            }
        }
        Ok(Err(e)) => sh.violation(
            format!("encoding-of-typed-value-does-not-decode:{}", crate::flav::decode_err_name(&e)),
            detail("decode(encode(v)) failed", json!({"encoded": hex(&enc)})),
        ),
        Err(_) => sh.count("typed_decoder_panics"),
    }
    sh.nontrivial(&(name, rv_common::h64(p)));
    true
}

impl<T: Debug + ScryptoEncode + ScryptoDecode, const EQ: bool> Entry for E<T, false, EQ> {
    fn name(&self) -> &'static str {
        self.name
    }
    fn flavour(&self) -> Flavour {
        Flavour::Scrypto
    }
    fn schema(&self) -> (&Sch, LocalTypeId) {
        (self.schema.v1(), self.tid)
    }
    fn check(&self, p: &[u8], origin: &str, sh: &mut Shard) -> bool {
        check_generic::<T, Sc>(self.name, Flavour::Scrypto, self.schema.v1(), self.tid, self.eq, p, origin, sh)
    }
    fn constructed(&self, rng: &mut Rng) -> Option<Vec<u8>> {
        self.gen.and_then(|g| g(rng))
    }
}
impl<T: Debug + ManifestEncode + ManifestDecode, const EQ: bool> Entry for E<T, true, EQ> {
    fn name(&self) -> &'static str {
        self.name
    }
    fn flavour(&self) -> Flavour {
        Flavour::Manifest
    }
    fn schema(&self) -> (&Sch, LocalTypeId) {
        (self.schema.v1(), self.tid)
    }
    fn check(&self, p: &[u8], origin: &str, sh: &mut Shard) -> bool {
        check_generic::<T, Mf>(self.name, Flavour::Manifest, self.schema.v1(), self.tid, self.eq, p, origin, sh)
    }
    fn constructed(&self, rng: &mut Rng) -> Option<Vec<u8>> {
        self.gen.and_then(|g| g(rng))
    }
}

fn eq_yes<T: PartialEq>(a: &T, b: &T) -> Option<bool> {
    Some(a == b)
}
fn eq_bytes<T>(_: &T, _: &T) -> Option<bool> {
    None
}

macro_rules! sc {
    ($v:ident, $($t:ty),* $(,)?) => {$({
        let (tid, schema) = generate_full_schema_from_single_type::<$t, S>();
        $v.push(Box::new(E::<$t, false, true> { name: stringify!($t), schema, tid, eq: eq_yes::<$t>, gen: None, ph: std::marker::PhantomData }) as Box<dyn Entry>);
    })*};
}
macro_rules! sc_noeq {
    ($v:ident, $($t:ty),* $(,)?) => {$({
        let (tid, schema) = generate_full_schema_from_single_type::<$t, S>();
        $v.push(Box::new(E::<$t, false, false> { name: stringify!($t), schema, tid, eq: eq_bytes::<$t>, gen: None, ph: std::marker::PhantomData }) as Box<dyn Entry>);
    })*};
}
macro_rules! mf {
    ($v:ident, $($t:ty),* $(,)?) => {$({
        let (tid, schema) = generate_full_schema_from_single_type::<$t, S>();
        $v.push(Box::new(E::<$t, true, true> { name: stringify!($t), schema, tid, eq: eq_yes::<$t>, gen: None, ph: std::marker::PhantomData }) as Box<dyn Entry>);
    })*};
}

fn fuel(rng: &mut Rng) -> i32 {
    4 + rng.below(40) as i32
}
macro_rules! syn_sc {
    ($v:ident, $($t:ty),* $(,)?) => {$({
        let (tid, schema) = generate_full_schema_from_single_type::<$t, S>();
        fn g(rng: &mut Rng) -> Option<Vec<u8>> {
            let mut f = fuel(rng);
            let v = <$t as crate::typed::G>::g(rng, &mut f);
            scrypto_encode(&v).ok()
        }
        $v.push(Box::new(E::<$t, false, true> { name: stringify!($t), schema, tid, eq: eq_yes::<$t>, gen: Some(g), ph: std::marker::PhantomData }) as Box<dyn Entry>);
    })*};
}
macro_rules! syn_mf {
    ($v:ident, $($t:ty),* $(,)?) => {$({
        let (tid, schema) = generate_full_schema_from_single_type::<$t, S>();
        fn g(rng: &mut Rng) -> Option<Vec<u8>> {
            let mut f = fuel(rng);
            let v = <$t as crate::typed::G>::g(rng, &mut f);
            manifest_encode(&v).ok()
        }
        $v.push(Box::new(E::<$t, true, true> { name: stringify!($t), schema, tid, eq: eq_yes::<$t>, gen: Some(g), ph: std::marker::PhantomData }) as Box<dyn Entry>);
    })*};
}

/// Harness-defined types exercising the derive macros (see synth.rs).
pub fn synthetic_roster() -> Vec<Box<dyn Entry>> {
    use crate::synth;
    let mut v: Vec<Box<dyn Entry>> = vec![];
    syn_sc!(
        v,
        synth::HoldTransparent,
        synth::HoldTransparentRev,
        synth::HoldGeneric,
        synth::HoldAs,
        synth::HoldAttrs,
        synth::HoldBounds,
        synth::HoldRec,
        synth::HoldWellKnown,
        // parts on their own, and further instantiations at the root
        synth::TW<String>,
        synth::TW<u32>,
        synth::TN<Vec<u8>>,
        synth::TT<String>,
        synth::TR<u8>,
        synth::TSkip<String>,
        synth::Nest<synth::TW<synth::TN<u32>>>,
        synth::Nest3<synth::Nest<synth::TT<String>>>,
        synth::Meters,
        synth::Label,
        synth::GS<u8>,
        synth::GS<synth::GS<String>>,
        synth::GE<u8, String>,
        synth::GE<synth::TW<u8>, synth::TW<String>>,
        synth::GTuple<u8, String>,
        synth::AsU32,
        synth::AsU32Transparent,
        synth::AsString,
        synth::VG<u8>,
        synth::VG<String>,
        synth::Sk,
        synth::SkTuple,
        synth::SkGen<String>,
        synth::Flat,
        synth::Disc,
        synth::ReprDisc,
        synth::GDisc<String>,
        synth::Cat<u8, String>,
        synth::Child<String>,
        synth::Tree,
        synth::Linked,
        synth::RT<u8>,
        synth::RT<String>,
        (synth::TW<u8>, synth::TW<String>, synth::TW<bool>),
        Vec<(synth::GS<u8>, synth::GS<String>)>,
        std::collections::BTreeMap<synth::TW<u16>, synth::GE<synth::TW<u8>, synth::TN<String>>>,
        [synth::TR<String>; 2],
        Option<Box<synth::Nest<synth::TW<String>>>>,
        Result<synth::TW<u8>, synth::TW<String>>,
    );
    syn_mf!(v, synth::HoldManifest, synth::TW<radix_common::prelude::ManifestBucket>, synth::GS<radix_common::prelude::ManifestDecimal>, synth::GE<radix_common::prelude::ManifestAddressReservation, String>);
    v
}

pub fn roster() -> Vec<Box<dyn Entry>> {
    use radix_common::prelude as rc;
    use radix_engine::blueprints as bp;
    use radix_engine::object_modules as om;
    use radix_engine_interface::blueprints as ibp;
    use radix_engine_interface::prelude as ri;
    use radix_transactions::model as tx;
    let mut v: Vec<Box<dyn Entry>> = vec![];
    // --- radix-common value types
    sc!(
        v,
        rc::Decimal,
        rc::PreciseDecimal,
        rc::NonFungibleLocalId,
        rc::NonFungibleGlobalId,
        rc::ResourceAddress,
        rc::ComponentAddress,
        rc::PackageAddress,
        rc::GlobalAddress,
        rc::InternalAddress,
        rc::Reference,
        rc::Own,
        rc::Hash,
        rc::PublicKey,
        rc::PublicKeyHash,
        rc::Secp256k1PublicKey,
        rc::Ed25519PublicKey,
        rc::Epoch,
        rc::Round,
        rc::Instant,
        rc::UtcDateTime,
        rc::RoyaltyAmount,
        rc::NetworkDefinition,
        rc::GlobalAddressReservation,
        rc::ScryptoValue,
    );
    // --- engine interface: access rules, metadata, resource models, schema carriers
    sc!(
        v,
        ri::AccessRule,
        ri::CompositeRequirement,
        ri::BasicRequirement,
        ri::ResourceOrNonFungible,
        ri::OwnerRole,
        ri::RoleAssignmentInit,
        ri::MetadataValue,
        ri::MetadataInit,
        ri::ModuleConfig<ri::MetadataInit>,
        ri::FungibleResourceRoles,
        ri::NonFungibleResourceRoles,
        ri::ResourceType,
        rc::NonFungibleIdType,
        ri::WithdrawStrategy,
        rc::RoundingMode,
        ri::Bucket,
        ri::Proof,
        ri::Vault,
        ri::FungibleBucket,
        ri::NonFungibleVault,
        ri::BlueprintId,
        ibp::package::BlueprintVersionKey,
        ibp::package::CanonicalBlueprintId,
        ibp::package::BlueprintDefinition,
        ibp::package::BlueprintInterface,
        ibp::package::FunctionSchema,
        ibp::package::BlueprintPayloadDef,
        ibp::package::PackageDefinition,
        ibp::package::BlueprintDefinitionInit,
        ri::KeyValueStoreDataSchema,
        ri::ComponentRoyaltySubstate,
        ri::Level,
        ri::EventTypeIdentifier,
        ri::Emitter,
        ri::ConsensusManagerConfig,
        ri::EpochChangeCondition,
        ibp::account::DefaultDepositRule,
        ibp::account::ResourcePreference,
        ibp::access_controller::RuleSet,
        ibp::access_controller::RecoveryProposal,
        ri::GenericArgs,
        rc::ScryptoSchema,
        rc::VersionedScryptoSchema,
    );
    // --- engine substates
    sc!(
        v,
        radix_engine::system::type_info::TypeInfoSubstate,
        om::role_assignment::OwnerRoleSubstate,
        bp::consensus_manager::ConsensusManagerConfigSubstate,
        bp::consensus_manager::ConsensusManagerSubstate,
        bp::consensus_manager::ValidatorRewardsSubstate,
        bp::consensus_manager::CurrentValidatorSetSubstate,
        bp::consensus_manager::ProposerMilliTimestampSubstate,
        bp::consensus_manager::ProposerMinuteTimestampSubstate,
        bp::consensus_manager::CurrentProposalStatisticSubstate,
        bp::consensus_manager::ValidatorSubstate,
        bp::consensus_manager::ValidatorProtocolUpdateReadinessSignalSubstate,
        bp::consensus_manager::VersionedConsensusManagerState,
        bp::consensus_manager::VersionedValidatorState,
        bp::consensus_manager::ConsensusManagerStateFieldSubstate,
        bp::consensus_manager::ValidatorStateFieldSubstate,
        ibp::resource::LiquidFungibleResource,
        ibp::resource::LockedFungibleResource,
        ibp::resource::LiquidNonFungibleVault,
        ibp::resource::LockedNonFungibleResource,
        ibp::resource::LiquidNonFungibleResource,
        bp::resource::ProofMoveableSubstate,
        bp::resource::VersionedFungibleVaultBalance,
        bp::resource::FungibleVaultBalanceFieldSubstate,
        bp::resource::VersionedFungibleResourceManagerTotalSupply,
        bp::resource::FungibleResourceManagerDivisibilityFieldSubstate,
        bp::resource::NonFungibleResourceManagerIdTypeFieldSubstate,
        bp::resource::NonFungibleResourceManagerMutableFieldsFieldSubstate,
        bp::resource::NonFungibleVaultBalanceFieldSubstate,
        bp::account::AccountSubstate,
        bp::account::VersionedAccountDepositRule,
        bp::account::AccountDepositRuleFieldSubstate,
        bp::access_controller::v2::AccessControllerV2StateFieldSubstate,
        bp::package::PackageRoyaltyAccumulatorFieldSubstate,
        bp::package::VersionedPackageBlueprintVersionDefinition,
        bp::package::PackageBlueprintVersionDefinitionEntrySubstate,
        bp::package::PackageCodeOriginalCodeEntrySubstate,
        bp::package::PackageCodeVmTypeEntrySubstate,
        bp::package::PackageBlueprintVersionAuthConfigEntrySubstate,
        bp::pool::v1::substates::one_resource_pool::OneResourcePoolStateFieldSubstate,
        bp::pool::v1::substates::two_resource_pool::TwoResourcePoolStateFieldSubstate,
        bp::pool::v1::substates::multi_resource_pool::MultiResourcePoolStateFieldSubstate,
        bp::locker::AccountLockerAccountClaimsEntrySubstate,
        om::metadata::MetadataEntryEntrySubstate,
        om::royalty::ComponentRoyaltyAccumulatorFieldSubstate,
        om::role_assignment::RoleAssignmentOwnerFieldSubstate,
        om::role_assignment::RoleAssignmentAccessRuleEntrySubstate,
        radix_engine::system::system_substates::FieldSubstate<rc::Decimal>,
        radix_engine::system::system_substates::KeyValueEntrySubstate<rc::ScryptoValue>,
        radix_engine::system::system_substates::IndexEntrySubstate<rc::ScryptoValue>,
        radix_engine::system::system_substates::SortedIndexEntrySubstate<rc::ScryptoValue>,
        radix_engine::system::system_substates::LockStatus,
    );
    // --- events
    sc!(
        v,
        bp::resource::VaultCreationEvent,
        bp::resource::MintFungibleResourceEvent,
        bp::resource::BurnFungibleResourceEvent,
        bp::resource::MintNonFungibleResourceEvent,
        bp::resource::BurnNonFungibleResourceEvent,
        bp::resource::fungible_vault::LockFeeEvent,
        bp::resource::fungible_vault::PayFeeEvent,
        bp::resource::fungible_vault::WithdrawEvent,
        bp::resource::fungible_vault::DepositEvent,
        bp::resource::fungible_vault::RecallEvent,
        bp::resource::non_fungible_vault::WithdrawEvent,
        bp::resource::non_fungible_vault::DepositEvent,
        bp::resource::non_fungible_vault::RecallEvent,
        bp::account::SetResourcePreferenceEvent,
        bp::account::RemoveResourcePreferenceEvent,
        bp::account::SetDefaultDepositRuleEvent,
        bp::account::AddAuthorizedDepositorEvent,
        bp::account::RemoveAuthorizedDepositorEvent,
        bp::account::WithdrawEvent,
        bp::account::DepositEvent,
        bp::account::RejectedDepositEvent,
        bp::access_controller::latest::InitiateRecoveryEvent,
        bp::access_controller::latest::RuleSetUpdateEvent,
        bp::access_controller::latest::BadgeWithdrawEvent,
        bp::access_controller::latest::CancelRecoveryProposalEvent,
        bp::access_controller::latest::DepositRecoveryXrdEvent,
        bp::consensus_manager::RoundChangeEvent,
        bp::consensus_manager::EpochChangeEvent,
        bp::consensus_manager::RegisterValidatorEvent,
        bp::consensus_manager::StakeEvent,
        bp::consensus_manager::UnstakeEvent,
        bp::consensus_manager::ClaimXrdEvent,
        bp::consensus_manager::UpdateAcceptingStakeDelegationStateEvent,
        bp::consensus_manager::ProtocolUpdateReadinessSignalEvent,
        bp::consensus_manager::ValidatorEmissionAppliedEvent,
        bp::consensus_manager::ValidatorRewardAppliedEvent,
        bp::locker::StoreEvent,
        bp::locker::RecoverEvent,
        bp::locker::ClaimEvent,
        om::metadata::SetMetadataEvent,
    );
    // --- blueprint inputs (engine interface)
    sc!(
        v,
        ibp::resource::FungibleResourceManagerCreateInput,
        ibp::resource::NonFungibleResourceManagerCreateInput,
        ibp::resource::FungibleResourceManagerMintInput,
        ibp::resource::NonFungibleResourceManagerMintInput,
        ibp::resource::VaultTakeInput,
        ibp::resource::VaultRecallInput,
        ibp::resource::NonFungibleVaultTakeNonFungiblesInput,
        ibp::consensus_manager::ConsensusManagerCreateInput,
        ibp::consensus_manager::ConsensusManagerNextRoundInput,
        ibp::consensus_manager::ValidatorStakeInput,
        ibp::account::AccountWithdrawInput,
        ibp::account::AccountLockFeeInput,
        ibp::account::AccountSetResourcePreferenceInput,
        ibp::access_controller::AccessControllerCreateInput,
        ibp::package::PackagePublishWasmAdvancedInput,
        ibp::pool::OneResourcePoolInstantiateInput,
        ibp::locker::AccountLockerInstantiateInput,
    );
    // --- receipts and state updates
    sc!(
        v,
        radix_engine::transaction::TransactionFeeSummary,
        radix_engine::transaction::CostingParameters,
        radix_engine::transaction::StateUpdateSummary,
        radix_engine::transaction::CommitResult,
        radix_engine::transaction::TransactionResult,
        radix_engine::transaction::TransactionOutcome,
        radix_engine::transaction::FeeLocks,
        radix_engine::transaction::RejectResult,
        radix_engine::transaction::AbortResult,
        radix_engine::errors::RuntimeError,
        radix_engine::errors::RejectionReason,
        radix_engine::system::system_modules::costing::RoyaltyRecipient,
        radix_engine::system::system_modules::execution_trace::ResourceSpecifier,
        radix_substate_store_interface::interface::DatabaseUpdates,
        rc::StateUpdates,
    );
    // --- transaction models (Manifest SBOR, described by Scrypto schemas)
    mf!(
        v,
        tx::TransactionHeaderV1,
        tx::InstructionV1,
        tx::InstructionsV1,
        tx::BlobsV1,
        tx::MessageV1,
        tx::IntentV1,
        tx::IntentSignaturesV1,
        tx::SignedIntentV1,
        tx::NotarySignatureV1,
        tx::NotarizedTransactionV1,
        tx::SignatureV1,
        tx::SignatureWithPublicKeyV1,
        tx::SystemTransactionV1,
        tx::RoundUpdateTransactionV1,
        tx::IntentHeaderV2,
        tx::TransactionHeaderV2,
        tx::IntentCoreV2,
        tx::InstructionV2,
        tx::InstructionsV2,
        tx::SubintentV2,
        tx::TransactionIntentV2,
        tx::SignedTransactionIntentV2,
        tx::NotarizedTransactionV2,
        tx::MessageV2,
        tx::ChildSubintentSpecifiersV2,
        tx::LedgerTransaction,
        tx::FlashTransactionV1,
        rc::ManifestValue,
        rc::ManifestBucket,
        rc::ManifestProof,
        rc::ManifestDecimal,
        rc::ManifestAddressReservation,
        rc::ManifestResourceConstraints,
        rc::ManifestResourceConstraint,
        rc::ManifestBucketBatch,
        rc::ManifestProofBatch,
        rc::ManifestGlobalAddress,
        rc::ManifestResourceAddress,
        rc::ManifestComponentAddress,
        rc::ManifestPackageAddress,
    );
    sc_noeq!(
        v,
        bp::resource::FungibleProofSubstate,
        bp::resource::NonFungibleProofSubstate,
        bp::resource::WorktopSubstate,
        bp::transaction_tracker::TransactionTrackerSubstate,
        radix_engine::system::bootstrap::FlashReceipt,
        bp::pool::v1::events::one_resource_pool::ContributionEvent,
        bp::pool::v1::events::two_resource_pool::RedemptionEvent,
        bp::pool::v1::events::multi_resource_pool::WithdrawEvent,
        om::metadata::RemoveMetadataEvent,
        om::role_assignment::SetRoleEvent,
        om::role_assignment::SetOwnerRoleEvent,
        om::role_assignment::LockOwnerRoleEvent,
        radix_engine::system::system_modules::costing::FeeReserveFinalizationSummary,
    );
    v.extend(synthetic_roster());
    v
}

// ---------------------------------------------------------------------------------------------
// Harvest: real payloads from a bootstrapped in-memory ledger
// ---------------------------------------------------------------------------------------------
pub struct Harvest {
    pub scrypto: Vec<Vec<u8>>,
    pub notes: Vec<String>,
}

struct Hooks<'a> {
    out: &'a mut Vec<Vec<u8>>,
    receipts: usize,
}
impl<'a> radix_engine::updates::ProtocolUpdateExecutionHooks for Hooks<'a> {
    fn on_transaction_executed(&mut self, event: radix_engine::updates::OnProtocolTransactionExecuted) {
        self.receipts += 1;
        if let radix_engine::transaction::TransactionResult::Commit(c) = &event.receipt.result {
            for (_id, data) in c.application_events.iter() {
                self.out.push(data.clone());
            }
            if let Ok(b) = scrypto_encode(&c.state_updates) {
                if b.len() < 200_000 {
                    self.out.push(b);
                }
            }
            if let Ok(b) = scrypto_encode(&c.state_update_summary) {
                if b.len() < 200_000 {
                    self.out.push(b);
                }
            }
            if let Ok(b) = scrypto_encode(&c.fee_destination) {
                self.out.push(b);
            }
        }
        if let Ok(b) = scrypto_encode(&event.receipt.fee_summary) {
            self.out.push(b);
        }
        if let Ok(b) = scrypto_encode(&event.receipt.costing_parameters) {
            self.out.push(b);
        }
    }
}

pub fn harvest() -> Harvest {
    use radix_substate_store_impls::memory_db::InMemorySubstateDatabase;
    use radix_substate_store_interface::interface::*;
    let mut out: Vec<Vec<u8>> = vec![];
    let mut notes = vec![];
    let r = catch_mut(|| {
        let mut db = InMemorySubstateDatabase::standard();
        let mut hooks = Hooks { out: &mut out, receipts: 0 };
        radix_engine::updates::ProtocolBuilder::for_simulator()
            .from_bootstrap_to_latest()
            .commit_each_protocol_update_advanced(&mut db, &mut hooks, &radix_engine::vm::VmModules::default());
        let receipts = hooks.receipts;
        let keys: Vec<DbPartitionKey> = db.list_partition_keys().collect();
        let mut n = 0;
        for k in keys {
            for (_sk, value) in db.list_raw_values_from_db_key(&k, None) {
                n += 1;
                if value.len() < 100_000 {
                    out.push(value);
                }
            }
        }
        (receipts, n)
    });
    match r {
        Ok((receipts, n)) => notes.push(format!("bootstrap: {receipts} receipts, {n} substates")),
        Err(p) => notes.push(format!("bootstrap failed: {}", p.summary())),
    }
    // de-duplicate
    out.sort();
    out.dedup();
    Harvest { scrypto: out, notes }
}

// ---------------------------------------------------------------------------------------------
// Workload
// ---------------------------------------------------------------------------------------------
fn step(e: &dyn Entry, rng: &mut Rng, sh: &mut Shard, pool: &[Vec<u8>]) {
    let fl = e.flavour();
    // (0) synthetic roster: values built directly, independent of the schema under test
    for _ in 0..2 {
        if let Some(p) = e.constructed(rng) {
            sh.count("constructed_values");
            if !e.check(&p, "constructed-value", sh) {
                sh.violation(
                    format!("encoding-of-constructed-value-does-not-decode:{}", e.name()),
                    json!({"type": e.name(), "flavour": fl.name(), "payload": hex(&p), "origin": "constructed-value"}),
                );
            }
            // mutants of a constructed value's encoding
            let mut q = p.clone();
            let m = wire::mutate(rng, fl, &mut q, None, None);
            e.check(&q, &format!("constructed-mutated:{m}"), sh);
        }
    }
    let (schema, tid) = e.schema();
    // (1) payload from the type's own schema
    let mut base: Option<(wire::RV, Vec<u8>, wire::Marks)> = None;
    for attempt in 0..3 {
        let mut g = PGen { schema, fl, budget: 8 + rng.below(40) as i64, edgy: attempt == 0 && rng.bool() };
        if let Some(t) = g.gen(rng, tid, 20) {
            let (p, m) = wire::write_payload_marked(fl, &t);
            base = Some((t, p, m));
            break;
        }
    }
    let Some((tree, p, marks)) = base else {
        sh.count("schema_generation_failed");
        return;
    };
    sh.count("schema_generated_payloads");
    let accepted = e.check(&p, "schema-generated", sh);
    if accepted {
        sh.seen("types_with_generated_value", e.name());
    }
    // (2) near-miss trees and byte-level mutants
    for _ in 0..2 {
        let mut t2 = tree.clone();
        tweak(rng, fl, &mut t2);
        if t2.well_formed() {
            e.check(&wire::write_payload(fl, &t2), "schema-generated-tweaked", sh);
        }
    }
    for _ in 0..3 {
        let mut q = p.clone();
        let other = if pool.is_empty() { None } else { Some(&pool[rng.usize_below(pool.len())][..]) };
        let mut names = vec![];
        for i in 0..1 + rng.usize_below(2) {
            names.push(wire::mutate(rng, fl, &mut q, if i == 0 { Some(&marks) } else { None }, other));
        }
        e.check(&q, &format!("mutated:{}", names.join("+")), sh);
    }
}

pub fn run(args: &Args) -> Report {
    let mut report = Report::new(args, spec());
    let t0 = std::time::Instant::now();
    let harvested = harvest();
    report.notes.extend(harvested.notes.iter().cloned());
    let roster = roster();
    report.extra.insert("roster_size".into(), json!(roster.len()));
    report.extra.insert("harvested_distinct_payloads".into(), json!(harvested.scrypto.len()));
    report.extra.insert("setup_seconds".into(), json!(t0.elapsed().as_secs_f64()));
    let secs = rv_common::budget_secs(args.tier, 25, 420);
    let cap = rv_common::scaled(args, args.tier.pick(24_000_000u64, 800_000_000u64)) / 6 / args.threads as u64 + 1;
    let nthreads = args.threads;
    let first_synth = roster.len() - synthetic_roster().len();
    report.extra.insert("synthetic_roster_size".into(), json!(roster.len() - first_synth));
    report.run_shards(22, args.threads, Duration::from_secs(secs), |idx, rng, sh| {
        // harvested payloads x roster, partitioned over shards
        for (i, e) in roster.iter().enumerate() {
            if i % nthreads != idx {
                continue;
            }
            if e.flavour() != Flavour::Scrypto {
                continue;
            }
            for p in harvested.scrypto.iter() {
                sh.count("harvest_attempts");
                e.check(p, "harvest", sh);
            }
        }
        if idx == 0 {
            sh.add("harvested_payloads", harvested.scrypto.len() as u64);
        }
        // mutants of harvested payloads that some type accepted
        let mut n = 0u64;
        while n < cap && !sh.time_up() {
            n += 1;
            let i = if rng.chance(1, 3) { first_synth + rng.usize_below(roster.len() - first_synth) } else { rng.usize_below(roster.len()) };
            let e = &roster[i];
            sh.seen("types_exercised_set", e.name());
            if e.is_synthetic() || e.name().contains("synth::") {
                sh.seen("synthetic_types_exercised_set", e.name());
            }
            step(e.as_ref(), rng, sh, &harvested.scrypto);
            if n % 8 == 0 && !harvested.scrypto.is_empty() && e.flavour() == Flavour::Scrypto {
                let mut q = harvested.scrypto[rng.usize_below(harvested.scrypto.len())].clone();
                if q.len() < 4000 {
                    let name = wire::mutate(rng, Flavour::Scrypto, &mut q, None, None);
                    // try it against a few types
                    for _ in 0..4 {
                        let j = rng.usize_below(roster.len());
                        if roster[j].flavour() == Flavour::Scrypto {
                            roster[j].check(&q, &format!("harvest-mutated:{name}"), sh);
                        }
                    }
                }
            }
        }
    });
    let exercised = report.sets.get("types_exercised_set").map(|s| s.len()).unwrap_or(0) as u64;
    report.counters.insert("types_exercised".into(), exercised);
    let syn = report.sets.get("synthetic_types_exercised_set").map(|s| s.len()).unwrap_or(0) as u64;
    report.counters.insert("synthetic_types_exercised".into(), syn);
    let syn_with_values = report.counters.keys().filter(|k| k.starts_with("synthetic_values:")).count() as u64;
    report.counters.insert("synthetic_types_with_values".into(), syn_with_values);
    report
}

pub fn replay(args: &Args, doc: &serde_json::Value) -> Report {
    let mut report = Report::new(args, spec());
    let d = &doc["detail"];
    let name = d["type"].as_str().unwrap_or("").to_string();
    let p = unhex(d["payload"].as_str().unwrap_or(""));
    let roster = roster();
    report.run_shards(99, 1, Duration::from_secs(60), |_, _, sh| {
        for e in roster.iter() {
            if e.name() == name {
                let acc = e.check(&p, "replay", sh);
                println!("type {name}: typed decoder accepted = {acc}");
            }
        }
        sh.nontrivial(&1u8);
        sh.nontrivial(&2u8);
    });
    println!(
        "REPLAY C22 violations reproduced: {}",
        report.violations.iter().map(|v| v.signature.clone()).collect::<Vec<_>>().join(" | ")
    );
    report
}
