//! Shared runtime-verification plumbing: seeded RNG streams, shard runner, report/evidence
//! writer, known-findings matching, panic capture and a counting allocator.
use serde_json::{json, Map, Value};
use std::cell::{Cell, RefCell};
use std::collections::{BTreeMap, BTreeSet, HashSet};
use std::hash::{Hash, Hasher};
use std::path::PathBuf;
use std::time::{Duration, Instant};

pub mod alloc_count;

pub const VERIF_ROOT: &str = "/verif";

// ---------------------------------------------------------------------------------------------
// RNG: xoshiro256** seeded through splitmix64. Deterministic per (seed, stream tag).
// ---------------------------------------------------------------------------------------------
#[derive(Clone, Debug)]
pub struct Rng {
    s: [u64; 4],
}

fn splitmix(x: &mut u64) -> u64 {
    *x = x.wrapping_add(0x9E3779B97F4A7C15);
    let mut z = *x;
    z = (z ^ (z >> 30)).wrapping_mul(0xBF58476D1CE4E5B9);
    z = (z ^ (z >> 27)).wrapping_mul(0x94D049BB133111EB);
    z ^ (z >> 31)
}

impl Rng {
    pub fn new(seed: u64) -> Self {
        let mut x = seed;
        let s = [
            splitmix(&mut x),
            splitmix(&mut x),
            splitmix(&mut x),
            splitmix(&mut x),
        ];
        Rng { s }
    }
    pub fn from_parts(seed: u64, stream: u64, index: u64) -> Self {
        let mut x = seed ^ 0xA5A5_5A5A_DEAD_BEEF;
        let a = splitmix(&mut x);
        let mut y = a ^ stream.wrapping_mul(0x9E3779B97F4A7C15);
        let b = splitmix(&mut y);
        let mut z = b ^ index.wrapping_mul(0xD1B54A32D192ED03);
        Rng::new(splitmix(&mut z))
    }
    pub fn fork(&mut self) -> Rng {
        Rng::new(self.u64())
    }
    #[inline]
    pub fn u64(&mut self) -> u64 {
        let r = self.s[1].wrapping_mul(5).rotate_left(7).wrapping_mul(9);
        let t = self.s[1] << 17;
        self.s[2] ^= self.s[0];
        self.s[3] ^= self.s[1];
        self.s[1] ^= self.s[2];
        self.s[0] ^= self.s[3];
        self.s[2] ^= t;
        self.s[3] = self.s[3].rotate_left(45);
        r
    }
    pub fn u32(&mut self) -> u32 {
        (self.u64() >> 32) as u32
    }
    pub fn u8(&mut self) -> u8 {
        (self.u64() >> 56) as u8
    }
    pub fn u128(&mut self) -> u128 {
        ((self.u64() as u128) << 64) | self.u64() as u128
    }
    /// Uniform in [0, n). n must be > 0.
    pub fn below(&mut self, n: u64) -> u64 {
        debug_assert!(n > 0);
        ((self.u64() as u128 * n as u128) >> 64) as u64
    }
    pub fn usize_below(&mut self, n: usize) -> usize {
        self.below(n as u64) as usize
    }
    /// Uniform in [lo, hi] inclusive.
    pub fn range(&mut self, lo: u64, hi: u64) -> u64 {
        lo + self.below(hi - lo + 1)
    }
    pub fn irange(&mut self, lo: i64, hi: i64) -> i64 {
        lo.wrapping_add(self.below((hi - lo) as u64 + 1) as i64)
    }
    pub fn bool(&mut self) -> bool {
        self.u64() & 1 == 1
    }
    pub fn chance(&mut self, num: u64, den: u64) -> bool {
        self.below(den) < num
    }
    pub fn pick<'a, T>(&mut self, xs: &'a [T]) -> &'a T {
        &xs[self.usize_below(xs.len())]
    }
    pub fn bytes(&mut self, n: usize) -> Vec<u8> {
        let mut v = Vec::with_capacity(n);
        while v.len() < n {
            let x = self.u64().to_le_bytes();
            let take = (n - v.len()).min(8);
            v.extend_from_slice(&x[..take]);
        }
        v
    }
    pub fn fill(&mut self, out: &mut [u8]) {
        for chunk in out.chunks_mut(8) {
            let x = self.u64().to_le_bytes();
            chunk.copy_from_slice(&x[..chunk.len()]);
        }
    }
    pub fn shuffle<T>(&mut self, xs: &mut [T]) {
        for i in (1..xs.len()).rev() {
            let j = self.usize_below(i + 1);
            xs.swap(i, j);
        }
    }
    /// A "small-biased" size: mostly small, sometimes up to max.
    pub fn size(&mut self, max: usize) -> usize {
        if max == 0 {
            return 0;
        }
        match self.below(10) {
            0..=5 => self.usize_below(max.min(4) + 1),
            6..=8 => self.usize_below(max.min(16) + 1),
            _ => self.usize_below(max + 1),
        }
    }
}

// ---------------------------------------------------------------------------------------------
// CLI
// ---------------------------------------------------------------------------------------------
#[derive(Clone, Copy, Debug, PartialEq, Eq)]
pub enum Tier {
    Quick,
    Thorough,
}
impl Tier {
    pub fn name(&self) -> &'static str {
        match self {
            Tier::Quick => "quick",
            Tier::Thorough => "thorough",
        }
    }
    pub fn pick<T>(&self, quick: T, thorough: T) -> T {
        match self {
            Tier::Quick => quick,
            Tier::Thorough => thorough,
        }
    }
}

#[derive(Clone, Debug)]
pub struct Args {
    pub prop: String,
    pub tier: Tier,
    pub seed: u64,
    pub replay: Option<PathBuf>,
    pub threads: usize,
    /// multiplier applied to workload sizes (VERIF_SCALE, default 1.0)
    pub scale: f64,
    pub extra: Vec<String>,
}

pub fn parse_args() -> Args {
    let mut it = std::env::args().skip(1);
    let prop = it.next().unwrap_or_else(|| {
        eprintln!("usage: <bin> <Cxx> [quick|thorough] [--seed N] [--replay file] [--threads N]");
        std::process::exit(2)
    });
    let mut tier = match std::env::var("VERIF_TIER").ok().as_deref() {
        Some("thorough") => Tier::Thorough,
        _ => Tier::Quick,
    };
    let mut seed: u64 = std::env::var("VERIF_SEED")
        .ok()
        .and_then(|s| s.trim().parse::<i128>().ok())
        .map(|v| v as u64)
        .unwrap_or(1);
    let mut replay = None;
    let mut threads = std::env::var("VERIF_THREADS")
        .ok()
        .and_then(|s| s.parse().ok())
        .unwrap_or_else(|| {
            std::thread::available_parallelism()
                .map(|n| n.get())
                .unwrap_or(4)
        });
    let scale = std::env::var("VERIF_SCALE")
        .ok()
        .and_then(|s| s.parse().ok())
        .unwrap_or(1.0);
    let mut extra = vec![];
    while let Some(a) = it.next() {
        match a.as_str() {
            "quick" => tier = Tier::Quick,
            "thorough" => tier = Tier::Thorough,
            "--seed" => seed = it.next().and_then(|s| s.parse::<i128>().ok()).map(|v| v as u64).unwrap_or(seed),
            "--replay" => replay = it.next().map(PathBuf::from),
            "--threads" => threads = it.next().and_then(|s| s.parse().ok()).unwrap_or(threads),
            _ => extra.push(a),
        }
    }
    Args {
        prop,
        tier,
        seed,
        replay,
        threads: threads.max(1),
        scale,
        extra,
    }
}

// ---------------------------------------------------------------------------------------------
// Shards, violations, reports
// ---------------------------------------------------------------------------------------------
#[derive(Clone, Debug)]
pub struct Violation {
    pub prop: String,
    /// Class of the failure: used for de-duplication and known-findings matching.
    pub signature: String,
    pub detail: Value,
}

pub fn h64<T: Hash + ?Sized>(t: &T) -> u64 {
    let mut h = std::collections::hash_map::DefaultHasher::new();
    t.hash(&mut h);
    h.finish()
}

/// Accumulator owned by one worker thread; merged at the end.
pub struct Shard {
    pub index: usize,
    pub prop: String,
    pub tier: Tier,
    pub evaluations: u64,
    pub distinct: HashSet<u64>,
    pub counters: BTreeMap<String, u64>,
    pub sets: BTreeMap<String, BTreeSet<String>>,
    pub samples: Vec<Value>,
    pub violations: Vec<Violation>,
    pub deadline: Instant,
    pub max_samples: usize,
    /// cap on the number of distinct signatures remembered per shard (memory bound)
    pub max_distinct: usize,
    pub notes: Vec<String>,
}

impl Shard {
    pub fn new(index: usize, prop: &str, tier: Tier, deadline: Instant) -> Self {
        Shard {
            index,
            prop: prop.to_string(),
            tier,
            evaluations: 0,
            distinct: HashSet::new(),
            counters: BTreeMap::new(),
            sets: BTreeMap::new(),
            samples: vec![],
            violations: vec![],
            deadline,
            max_samples: 4,
            max_distinct: 400_000,
            notes: vec![],
        }
    }
    #[inline]
    pub fn eval(&mut self) {
        self.evaluations += 1;
    }
    /// Record a non-trivial case by its behaviour signature (anything hashable).
    #[inline]
    pub fn nontrivial<T: Hash + ?Sized>(&mut self, sig: &T) {
        if self.distinct.len() < self.max_distinct {
            self.distinct.insert(h64(sig));
        }
    }
    #[inline]
    pub fn count(&mut self, key: &str) {
        self.add(key, 1)
    }
    pub fn add(&mut self, key: &str, n: u64) {
        if let Some(c) = self.counters.get_mut(key) {
            *c += n;
        } else {
            self.counters.insert(key.to_string(), n);
        }
    }
    pub fn max(&mut self, key: &str, n: u64) {
        let e = self.counters.entry(format!("max:{key}")).or_insert(0);
        if n > *e {
            *e = n;
        }
    }
    /// Record a member of a (small) named set, e.g. outcome classes or op kinds seen.
    pub fn seen(&mut self, set: &str, member: &str) {
        let s = self.sets.entry(set.to_string()).or_default();
        if s.len() < 400 {
            s.insert(member.to_string());
        }
    }
    pub fn sample<F: FnOnce() -> Value>(&mut self, f: F) {
        if self.samples.len() < self.max_samples {
            self.samples.push(f());
        }
    }
    pub fn want_sample(&self) -> bool {
        self.samples.len() < self.max_samples
    }
    pub fn time_up(&self) -> bool {
        Instant::now() >= self.deadline
    }
    pub fn violation(&mut self, signature: impl Into<String>, detail: Value) {
        let prop = self.prop.clone();
        self.violation_for(&prop, signature, detail)
    }
    pub fn violation_for(&mut self, prop: &str, signature: impl Into<String>, detail: Value) {
        let signature = signature.into();
        let same = self
            .violations
            .iter()
            .filter(|v| v.signature == signature && v.prop == prop)
            .count();
        self.add(&format!("violations:{prop}:{signature}"), 1);
        if same < 3 && self.violations.len() < 200 {
            self.violations.push(Violation {
                prop: prop.to_string(),
                signature,
                detail,
            });
        }
    }
}

pub struct Spec {
    pub prop: String,
    pub level: &'static str,
    pub rule: String,
    pub assumptions: Vec<String>,
    /// counters that must reach a floor for the verdict to be "held" instead of "inconclusive"
    pub floors: Vec<(String, u64)>,
    pub explanation: String,
}

impl Spec {
    pub fn new(prop: &str, level: &'static str, rule: &str) -> Self {
        Spec {
            prop: prop.to_string(),
            level,
            rule: rule.to_string(),
            assumptions: vec![],
            floors: vec![],
            explanation: String::new(),
        }
    }
    pub fn assume(mut self, s: &str) -> Self {
        self.assumptions.push(s.to_string());
        self
    }
    pub fn floor(mut self, counter: &str, min: u64) -> Self {
        self.floors.push((counter.to_string(), min));
        self
    }
    pub fn explain(mut self, s: &str) -> Self {
        self.explanation = s.to_string();
        self
    }
}

pub struct Report {
    pub args: Args,
    pub spec: Spec,
    pub start: Instant,
    pub evaluations: u64,
    pub distinct: HashSet<u64>,
    pub counters: BTreeMap<String, u64>,
    pub sets: BTreeMap<String, BTreeSet<String>>,
    pub samples: Vec<Value>,
    pub violations: Vec<Violation>,
    pub notes: Vec<String>,
    pub extra: Map<String, Value>,
}

/// Wall-clock budget in seconds for the workload loops of a tier (the driver keeps a separate,
/// much larger watchdog whose firing is "inconclusive").
pub fn budget_secs(tier: Tier, quick: u64, thorough: u64) -> u64 {
    let base = tier.pick(quick, thorough);
    match std::env::var("VERIF_BUDGET_S").ok().and_then(|s| s.parse::<u64>().ok()) {
        Some(b) => b,
        None => base,
    }
}

impl Report {
    pub fn new(args: &Args, spec: Spec) -> Self {
        install_panic_capture();
        Report {
            args: args.clone(),
            spec,
            start: Instant::now(),
            evaluations: 0,
            distinct: HashSet::new(),
            counters: BTreeMap::new(),
            sets: BTreeMap::new(),
            samples: vec![],
            violations: vec![],
            notes: vec![],
            extra: Map::new(),
        }
    }

    pub fn merge(&mut self, s: Shard) {
        self.evaluations += s.evaluations;
        self.distinct.extend(s.distinct);
        for (k, v) in s.counters {
            if k.starts_with("max:") {
                let e = self.counters.entry(k).or_insert(0);
                if v > *e {
                    *e = v;
                }
            } else {
                *self.counters.entry(k).or_insert(0) += v;
            }
        }
        for (k, v) in s.sets {
            self.sets.entry(k).or_default().extend(v);
        }
        for x in s.samples {
            if self.samples.len() < 10 {
                self.samples.push(x);
            }
        }
        self.violations.extend(s.violations);
        self.notes.extend(s.notes);
    }

    /// Run `f(shard_index, rng, shard)` on `n` worker threads (stream = phase tag) and merge.
    pub fn run_shards<F>(&mut self, phase: u64, n: usize, budget: Duration, f: F)
    where
        F: Fn(usize, &mut Rng, &mut Shard) + Sync,
    {
        let deadline = Instant::now() + budget;
        let prop = self.spec.prop.clone();
        let tier = self.args.tier;
        let seed = self.args.seed;
        let shards: Vec<Shard> = std::thread::scope(|scope| {
            let handles: Vec<_> = (0..n)
                .map(|i| {
                    let f = &f;
                    let prop = prop.clone();
                    std::thread::Builder::new()
                        .stack_size(256 << 20)
                        .spawn_scoped(scope, move || {
                            let mut rng = Rng::from_parts(seed, phase, i as u64);
                            let mut shard = Shard::new(i, &prop, tier, deadline);
                            let r = catch(std::panic::AssertUnwindSafe(|| f(i, &mut rng, &mut shard)));
                            if let Err(p) = r {
                                shard.notes.push(format!("HARNESS-PANIC shard {i}: {}", p.summary()));
                                shard.add("harness_panics", 1);
                            }
                            shard
                        })
                        .unwrap()
                })
                .collect();
            handles.into_iter().map(|h| h.join().unwrap()).collect()
        });
        for s in shards {
            self.merge(s);
        }
    }

    pub fn counter(&self, k: &str) -> u64 {
        self.counters.get(k).copied().unwrap_or(0)
    }

    /// Writes evidence + replays, prints verdict lines, returns the process exit code.
    pub fn finish(mut self) -> i32 {
        let wall = self.start.elapsed().as_secs_f64();
        let prop = self.spec.prop.clone();
        let known = load_known_findings();
        let mut real: Vec<&Violation> = vec![];
        let mut known_hits: BTreeMap<(String, String), u64> = BTreeMap::new();
        for v in &self.violations {
            if known
                .iter()
                .any(|k| k.status == "known" && k.property == v.prop && k.signature == v.signature)
            {
                *known_hits.entry((v.prop.clone(), v.signature.clone())).or_insert(0) += 1;
            } else {
                real.push(v);
            }
        }
        for ((p, sig), n) in &known_hits {
            println!("KNOWN-FINDING: property={p} {sig} (observed {n} recorded instance(s) this run)");
        }
        let replay_dir = PathBuf::from(VERIF_ROOT).join("replays");
        let _ = std::fs::create_dir_all(&replay_dir);
        let mut printed: HashSet<(String, String)> = HashSet::new();
        let mut nviol = 0;
        for (i, v) in real.iter().enumerate() {
            if !printed.insert((v.prop.clone(), v.signature.clone())) {
                continue;
            }
            nviol += 1;
            let path = replay_dir.join(format!("{}-{}-{}.json", v.prop, self.args.seed, i));
            let doc = json!({
                "property": v.prop, "check": prop, "tier": self.args.tier.name(), "seed": self.args.seed,
                "signature": v.signature, "detail": v.detail,
            });
            let _ = std::fs::write(&path, serde_json::to_string_pretty(&doc).unwrap());
            println!("VIOLATION property={} replay={} signature={}", v.prop, path.display(), v.signature);
        }
        // Sanitizer slices (valgrind etc.) run a tiny workload: they must neither overwrite the
        // evidence of the real run nor be judged by its floors.
        let slice_mode = std::env::var("VERIF_SANITIZER_SLICE").is_ok();
        if slice_mode {
            self.spec.floors.clear();
        }
        // floors → inconclusive
        let mut inconclusive: Vec<String> = vec![];
        if self.counter("harness_panics") > 0 {
            inconclusive.push(format!("harness panics: {:?}", self.notes));
        }
        for (c, min) in &self.spec.floors {
            let have = if c == "evaluations" { self.evaluations } else if c == "distinct_nontrivial" { self.distinct.len() as u64 } else { self.counter(c) };
            if have < *min {
                inconclusive.push(format!("{c}={have} below floor {min}"));
            }
        }
        if (self.evaluations == 0 || self.distinct.len() < 2) && !slice_mode {
            inconclusive.push("observed fewer than 2 distinct non-trivial cases".into());
        }
        let mut coverage = Map::new();
        coverage.insert("evaluations".into(), json!(self.evaluations));
        coverage.insert("distinct_nontrivial".into(), json!(self.distinct.len()));
        coverage.insert("rule".into(), json!(self.spec.rule));
        if self.samples.is_empty() {
            self.samples.push(json!("no sample recorded"));
        }
        coverage.insert("samples".into(), Value::Array(self.samples.clone()));
        if !self.spec.explanation.is_empty() {
            coverage.insert("explanation".into(), json!(self.spec.explanation));
        }
        let counters: Map<String, Value> = self.counters.iter().map(|(k, v)| (k.clone(), json!(v))).collect();
        coverage.insert("counters".into(), Value::Object(counters));
        let sets: Map<String, Value> = self
            .sets
            .iter()
            .map(|(k, v)| (k.clone(), json!({"count": v.len(), "members": v.iter().take(60).collect::<Vec<_>>()})))
            .collect();
        coverage.insert("observed_sets".into(), Value::Object(sets));
        for (k, v) in std::mem::take(&mut self.extra) {
            coverage.insert(k, v);
        }
        if !self.notes.is_empty() {
            coverage.insert("notes".into(), json!(self.notes));
        }
        let known_list: Vec<Value> = known_hits.iter().map(|((p, s), n)| json!({"property": p, "signature": s, "instances": n})).collect();
        coverage.insert("known_findings_observed".into(), Value::Array(known_list));
        let verdict = if nviol > 0 { "violated" } else if !inconclusive.is_empty() { "inconclusive" } else { "held_on_observed" };
        coverage.insert("verdict".into(), json!(verdict));
        if !inconclusive.is_empty() {
            coverage.insert("inconclusive_reasons".into(), json!(inconclusive));
        }
        let ev = json!({
            "property_id": prop,
            "tier": self.args.tier.name(),
            "seed": self.args.seed as i64,
            "level": self.spec.level,
            "coverage": Value::Object(coverage),
            "assumptions": self.spec.assumptions,
            "wall_s": wall,
            "violations": nviol,
        });
        let evdir = PathBuf::from(VERIF_ROOT).join("evidence");
        let _ = std::fs::create_dir_all(&evdir);
        // a secondary workload of the same property (run by ./check after the primary binary)
        // writes its evidence under another name; the driver merges it into the primary file
        let evname = std::env::var("VERIF_EVIDENCE_NAME").unwrap_or_else(|_| format!("{prop}.json"));
        let evpath = evdir.join(evname);
        if self.args.replay.is_none() && !slice_mode {
            std::fs::write(&evpath, serde_json::to_string_pretty(&ev).unwrap()).expect("write evidence");
        }
        if slice_mode {
            println!("SANITIZER-SLICE-DONE property={prop} evaluations={}", self.evaluations);
        }
        println!(
            "SUMMARY property={prop} tier={} seed={} verdict={verdict} evaluations={} distinct_nontrivial={} wall_s={:.1}",
            self.args.tier.name(), self.args.seed, self.evaluations, self.distinct.len(), wall
        );
        if nviol > 0 {
            1
        } else if !inconclusive.is_empty() {
            println!("INCONCLUSIVE property={prop} reason={}", inconclusive.join("; "));
            2
        } else {
            0
        }
    }
}

// ---------------------------------------------------------------------------------------------
// Known findings
// ---------------------------------------------------------------------------------------------
#[derive(Clone, Debug)]
pub struct KnownFinding {
    pub property: String,
    pub status: String,
    pub signature: String,
}

pub fn load_known_findings() -> Vec<KnownFinding> {
    let path = PathBuf::from(VERIF_ROOT).join("known_findings.json");
    let Ok(text) = std::fs::read_to_string(&path) else { return vec![] };
    let Ok(v) = serde_json::from_str::<Value>(&text) else { return vec![] };
    let mut out = vec![];
    if let Some(arr) = v.get("findings").and_then(|a| a.as_array()) {
        for f in arr {
            out.push(KnownFinding {
                property: f.get("property").and_then(|x| x.as_str()).unwrap_or("").to_string(),
                status: f.get("status").and_then(|x| x.as_str()).unwrap_or("").to_string(),
                signature: f.get("signature").and_then(|x| x.as_str()).unwrap_or("").to_string(),
            });
        }
    }
    out
}

// ---------------------------------------------------------------------------------------------
// Panic capture
// ---------------------------------------------------------------------------------------------
#[derive(Clone, Debug, Default)]
pub struct PanicInfo {
    pub message: String,
    pub location: String,
}
impl PanicInfo {
    pub fn summary(&self) -> String {
        format!("{} @ {}", self.message, self.location)
    }
    /// file:line with the repository prefix stripped: stable signature of a panic site.
    pub fn site(&self) -> String {
        // repository-relative path, also when the code under test lives in a scratch copy (.../repo/<path>)
        match self.location.find("/repo/") {
            Some(i) => self.location[i + 6..].to_string(),
            None => self.location.clone(),
        }
    }
}

thread_local! {
    static LAST_PANIC: RefCell<Option<PanicInfo>> = const { RefCell::new(None) };
    static QUIET: Cell<bool> = const { Cell::new(true) };
}

pub fn install_panic_capture() {
    static ONCE: std::sync::Once = std::sync::Once::new();
    ONCE.call_once(|| {
        std::panic::set_hook(Box::new(|info| {
            let msg = if let Some(s) = info.payload().downcast_ref::<&str>() {
                s.to_string()
            } else if let Some(s) = info.payload().downcast_ref::<String>() {
                s.clone()
            } else {
                "<non-string panic>".to_string()
            };
            let loc = info
                .location()
                .map(|l| format!("{}:{}", l.file(), l.line()))
                .unwrap_or_default();
            if std::env::var("VERIF_SHOW_PANICS").is_ok() {
                eprintln!("[panic] {msg} @ {loc}");
            }
            LAST_PANIC.with(|p| {
                // keep the first panic of a nest (the inner-most cause)
                let mut p = p.borrow_mut();
                if p.is_none() {
                    *p = Some(PanicInfo { message: msg, location: loc });
                }
            });
        }));
    });
}

/// Runs `f`, converting a panic into `Err(PanicInfo)`.
pub fn catch<T, F: FnOnce() -> T + std::panic::UnwindSafe>(f: F) -> Result<T, PanicInfo> {
    install_panic_capture();
    LAST_PANIC.with(|p| *p.borrow_mut() = None);
    match std::panic::catch_unwind(f) {
        Ok(v) => Ok(v),
        Err(_) => Err(LAST_PANIC.with(|p| p.borrow_mut().take()).unwrap_or_default()),
    }
}

/// Like `catch` for closures that borrow mutable state.
pub fn catch_mut<T, F: FnOnce() -> T>(f: F) -> Result<T, PanicInfo> {
    catch(std::panic::AssertUnwindSafe(f))
}

/// Returns (and clears) a panic that was recorded by the hook but swallowed by code under test
/// (e.g. the engine's own catch_unwind around native blueprints).
pub fn take_swallowed_panic() -> Option<PanicInfo> {
    LAST_PANIC.with(|p| p.borrow_mut().take())
}
pub fn clear_swallowed_panic() {
    LAST_PANIC.with(|p| *p.borrow_mut() = None);
}

pub fn hex(b: &[u8]) -> String {
    let mut s = String::with_capacity(b.len() * 2);
    for x in b {
        s.push_str(&format!("{x:02x}"));
    }
    s
}
pub fn unhex(s: &str) -> Vec<u8> {
    (0..s.len() / 2).map(|i| u8::from_str_radix(&s[2 * i..2 * i + 2], 16).unwrap_or(0)).collect()
}

/// Scale a workload size by VERIF_SCALE.
pub fn scaled(args: &Args, n: u64) -> u64 {
    ((n as f64) * args.scale).max(1.0) as u64
}
