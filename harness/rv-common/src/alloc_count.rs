//! A counting global allocator: per-thread live bytes and peak, so a monitor can measure the
//! peak heap growth caused by one call of the code under test.
use std::alloc::{GlobalAlloc, Layout, System};
use std::cell::Cell;

pub struct CountingAlloc;

thread_local! {
    static LIVE: Cell<isize> = const { Cell::new(0) };
    static PEAK: Cell<isize> = const { Cell::new(0) };
    static LARGEST: Cell<usize> = const { Cell::new(0) };
}

unsafe impl GlobalAlloc for CountingAlloc {
    unsafe fn alloc(&self, l: Layout) -> *mut u8 {
        note(l.size() as isize, l.size());
        System.alloc(l)
    }
    unsafe fn dealloc(&self, p: *mut u8, l: Layout) {
        note(-(l.size() as isize), 0);
        System.dealloc(p, l)
    }
    unsafe fn alloc_zeroed(&self, l: Layout) -> *mut u8 {
        note(l.size() as isize, l.size());
        System.alloc_zeroed(l)
    }
    unsafe fn realloc(&self, p: *mut u8, l: Layout, new: usize) -> *mut u8 {
        note(new as isize - l.size() as isize, new);
        System.realloc(p, l, new)
    }
}

#[inline]
fn note(delta: isize, single: usize) {
    let _ = LIVE.try_with(|live| {
        let v = live.get() + delta;
        live.set(v);
        let _ = PEAK.try_with(|p| {
            if v > p.get() {
                p.set(v)
            }
        });
    });
    if single > 0 {
        let _ = LARGEST.try_with(|l| {
            if single > l.get() {
                l.set(single)
            }
        });
    }
}

/// Start a measurement window on this thread.
pub fn begin() {
    LIVE.with(|l| l.set(0));
    PEAK.with(|p| p.set(0));
    LARGEST.with(|p| p.set(0));
}
/// Peak net heap growth (bytes) on this thread since `begin`, and the largest single request.
pub fn end() -> (usize, usize) {
    (PEAK.with(|p| p.get()).max(0) as usize, LARGEST.with(|p| p.get()))
}
