//! C40 - access controller changes need two roles or an elapsed timer.
//!
//! A *safety monitor over the call history*. The harness keeps, per access controller, a model
//! written from the property text: the rule set in force (as set at creation / by the last
//! effective recovery), the pending proposals per proposing role with their exact content, the
//! consensus-clock minute at which the recovery role's timed proposal was made together with the
//! configured delay, and whether the primary role is locked. Every transaction is a list of
//! controller calls made under a set of presented badges; after it commits the monitor decides
//! from the model alone whether each successful call was allowed to be effective, and it reads
//! the stored role assignment and the controlled-asset vault from the database to see what
//! really changed. Only the safety direction is verdict-bearing; "should have succeeded" /
//! "should have failed for a non-safety reason" mismatches are counted under `c40:log:*`.
use radix_engine::blueprints::access_controller::latest::*;
use radix_engine::blueprints::access_controller::{PrimaryRoleBadgeWithdrawAttemptState, PrimaryRoleLockingState, PrimaryRoleRecoveryAttemptState, RecoveryRoleBadgeWithdrawAttemptState, RecoveryRoleRecoveryAttemptState, RecoveryRoleRecoveryState};
use radix_engine::object_modules::role_assignment::RoleAssignmentAccessRuleEntryPayload;
use radix_engine::system::system_substates::KeyValueEntrySubstate;
use rv_common::*;
use rv_ledger::decode::{consensus_clock, raw, vault_amount, ConsensusClock, Db};
use rv_ledger::prelude::*;
use rv_ledger::{outcome_class, Ledger};
use serde_json::{json, Value};
use std::collections::{BTreeSet, VecDeque};
use std::time::Duration;

const P: usize = 0;
const R: usize = 1;
const C: usize = 2;
const ROLE_NAMES: [&str; 3] = ["primary", "recovery", "confirmation"];
const N_BADGES: usize = 6;
/// index of the foreign badge (held by the account, never named by any rule set)
const FOREIGN: usize = 6;

// ------------------------------------------------------------------------------------------
// Harness-side rules: evaluated by the harness itself, never by the engine's auth module
// ------------------------------------------------------------------------------------------
#[derive(Clone, Debug, PartialEq, Eq, Hash)]
enum HRule {
    Any(Vec<usize>),
    All(Vec<usize>),
    AllowAll,
    DenyAll,
}

impl HRule {
    fn satisfied(&self, presented: &BTreeSet<usize>) -> bool {
        match self {
            HRule::Any(v) => v.iter().any(|b| presented.contains(b)),
            HRule::All(v) => v.iter().all(|b| presented.contains(b)),
            HRule::AllowAll => true,
            HRule::DenyAll => false,
        }
    }
    fn to_access_rule(&self, badges: &[ResourceAddress]) -> AccessRule {
        let res = |v: &Vec<usize>| v.iter().map(|b| ResourceOrNonFungible::Resource(badges[*b])).collect::<Vec<_>>();
        match self {
            HRule::Any(v) if v.len() == 1 => AccessRule::Protected(CompositeRequirement::BasicRequirement(BasicRequirement::Require(ResourceOrNonFungible::Resource(badges[v[0]])))),
            HRule::Any(v) => AccessRule::Protected(CompositeRequirement::BasicRequirement(BasicRequirement::AnyOf(res(v)))),
            HRule::All(v) => AccessRule::Protected(CompositeRequirement::BasicRequirement(BasicRequirement::AllOf(res(v)))),
            HRule::AllowAll => AccessRule::AllowAll,
            HRule::DenyAll => AccessRule::DenyAll,
        }
    }
    /// the badges a caller presents to hold this role (None: the role cannot be / need not be proven)
    fn badges_to_hold(&self, rng: &mut Rng) -> Vec<usize> {
        match self {
            HRule::Any(v) => vec![*rng.pick(v)],
            HRule::All(v) => v.clone(),
            _ => vec![],
        }
    }
}

#[derive(Clone, Debug, PartialEq, Eq, Hash)]
struct HRuleSet([HRule; 3]);

impl HRuleSet {
    fn dead() -> Self {
        HRuleSet([HRule::DenyAll, HRule::DenyAll, HRule::DenyAll])
    }
    fn to_rule_set(&self, badges: &[ResourceAddress]) -> RuleSet {
        RuleSet { primary_role: self.0[P].to_access_rule(badges), recovery_role: self.0[R].to_access_rule(badges), confirmation_role: self.0[C].to_access_rule(badges) }
    }
    fn roles_of(&self, presented: &BTreeSet<usize>) -> [bool; 3] {
        [self.0[P].satisfied(presented), self.0[R].satisfied(presented), self.0[C].satisfied(presented)]
    }
}

/// Content of a recovery proposal: an index into the ledger's pool of (pairwise distinct) rule
/// sets plus the proposed timed-recovery delay. Two proposals are "the same" iff both agree.
#[derive(Clone, Debug, PartialEq, Eq, Hash)]
struct Prop {
    rs: usize,
    delay: Option<u32>,
}

#[derive(Clone, Debug)]
struct Timed {
    minute0: i64,
    milli0: i64,
    delay: u32,
}

#[derive(Clone, Debug)]
struct PendRec {
    prop: Prop,
    /// the successful initiate call was made by a caller holding the proposing role
    by_holder: bool,
    /// Some while the recovery role's timer is running (never for the primary role's proposals)
    timed: Option<Timed>,
}

#[derive(Clone, Debug)]
struct Ctl {
    addr: ComponentAddress,
    vault: NodeId,
    asset: ResourceAddress,
    asset_expected: Decimal,
    cur: HRuleSet,
    cur_actual: RuleSet,
    delay: Option<u32>,
    rec: [Option<PendRec>; 2],
    /// pending badge-withdraw attempts per proposer: Some(by_holder)
    wd: [Option<bool>; 2],
    locked: bool,
    withdrawn: bool,
    calls: u64,
    calls_after_withdraw: u64,
    era: &'static str,
    history: VecDeque<String>,
    /// contents proposed earlier per proposer that are no longer pending (cancelled, confirmed,
    /// dropped by a reset): replayed by the workload as hostile confirmations
    stale: [Vec<Prop>; 2],
}

impl Ctl {
    fn state_mask(&self) -> u32 {
        (self.rec[P].is_some() as u32)
            | (self.rec[R].is_some() as u32) << 1
            | (self.rec[R].as_ref().map(|p| p.timed.is_some()).unwrap_or(false) as u32) << 2
            | (self.wd[P].is_some() as u32) << 3
            | (self.wd[R].is_some() as u32) << 4
            | (self.locked as u32) << 5
            | (self.withdrawn as u32) << 6
    }
    fn describe(&self) -> Value {
        json!({
            "address": format!("{:?}", self.addr),
            "created_under": self.era,
            "rules_in_force": format!("{:?}", self.cur),
            "configured_delay_minutes": self.delay,
            "pending_recovery_by_primary": self.rec[P].as_ref().map(|p| format!("{:?}", p)),
            "pending_recovery_by_recovery": self.rec[R].as_ref().map(|p| format!("{:?}", p)),
            "pending_withdraw_by_primary": self.wd[P],
            "pending_withdraw_by_recovery": self.wd[R],
            "primary_locked": self.locked,
            "asset_withdrawn": self.withdrawn,
            "controlled_asset_expected": self.asset_expected.to_string(),
        })
    }
}

#[derive(Clone, Debug)]
enum Call {
    CreateProof,
    InitRec(usize, Prop),
    InitWd(usize),
    QuickRec(usize, Prop),
    QuickWd(usize),
    Timed(Prop),
    CancelRec(usize),
    CancelWd(usize),
    Lock,
    Unlock,
    Stop(Prop),
    Mint(u64),
    LockFee(Decimal),
    WithdrawFee(Decimal),
    Contribute(Decimal),
    /// direct attack on the rule storage: role-assignment `set` on the controller for one of its roles
    DirectSetRole(usize, usize),
}

impl Call {
    fn ident(&self) -> &'static str {
        match self {
            Call::CreateProof => ACCESS_CONTROLLER_CREATE_PROOF_IDENT,
            Call::InitRec(P, _) => ACCESS_CONTROLLER_INITIATE_RECOVERY_AS_PRIMARY_IDENT,
            Call::InitRec(..) => ACCESS_CONTROLLER_INITIATE_RECOVERY_AS_RECOVERY_IDENT,
            Call::InitWd(P) => ACCESS_CONTROLLER_INITIATE_BADGE_WITHDRAW_ATTEMPT_AS_PRIMARY_IDENT,
            Call::InitWd(_) => ACCESS_CONTROLLER_INITIATE_BADGE_WITHDRAW_ATTEMPT_AS_RECOVERY_IDENT,
            Call::QuickRec(P, _) => ACCESS_CONTROLLER_QUICK_CONFIRM_PRIMARY_ROLE_RECOVERY_PROPOSAL_IDENT,
            Call::QuickRec(..) => ACCESS_CONTROLLER_QUICK_CONFIRM_RECOVERY_ROLE_RECOVERY_PROPOSAL_IDENT,
            Call::QuickWd(P) => ACCESS_CONTROLLER_QUICK_CONFIRM_PRIMARY_ROLE_BADGE_WITHDRAW_ATTEMPT_IDENT,
            Call::QuickWd(_) => ACCESS_CONTROLLER_QUICK_CONFIRM_RECOVERY_ROLE_BADGE_WITHDRAW_ATTEMPT_IDENT,
            Call::Timed(_) => ACCESS_CONTROLLER_TIMED_CONFIRM_RECOVERY_IDENT,
            Call::CancelRec(P) => ACCESS_CONTROLLER_CANCEL_PRIMARY_ROLE_RECOVERY_PROPOSAL_IDENT,
            Call::CancelRec(_) => ACCESS_CONTROLLER_CANCEL_RECOVERY_ROLE_RECOVERY_PROPOSAL_IDENT,
            Call::CancelWd(P) => ACCESS_CONTROLLER_CANCEL_PRIMARY_ROLE_BADGE_WITHDRAW_ATTEMPT_IDENT,
            Call::CancelWd(_) => ACCESS_CONTROLLER_CANCEL_RECOVERY_ROLE_BADGE_WITHDRAW_ATTEMPT_IDENT,
            Call::Lock => ACCESS_CONTROLLER_LOCK_PRIMARY_ROLE_IDENT,
            Call::Unlock => ACCESS_CONTROLLER_UNLOCK_PRIMARY_ROLE_IDENT,
            Call::Stop(_) => ACCESS_CONTROLLER_STOP_TIMED_RECOVERY_IDENT,
            Call::Mint(_) => ACCESS_CONTROLLER_MINT_RECOVERY_BADGES_IDENT,
            Call::LockFee(_) => ACCESS_CONTROLLER_LOCK_RECOVERY_FEE_IDENT,
            Call::WithdrawFee(_) => ACCESS_CONTROLLER_WITHDRAW_RECOVERY_FEE_IDENT,
            Call::Contribute(_) => ACCESS_CONTROLLER_CONTRIBUTE_RECOVERY_FEE_IDENT,
            Call::DirectSetRole(..) => "role_assignment:set",
        }
    }
}

#[derive(Clone, Debug, PartialEq, Eq)]
enum Judge {
    Ok,
    Refuse { reason: &'static str, safety: bool },
    Unpredicted,
}

#[derive(Clone, Debug, PartialEq, Eq)]
enum Effect {
    None,
    Recovered(&'static str),
    Withdrawn(&'static str),
}

/// Is this call, made by a caller holding `roles` at clock `clock`, allowed to be effective?
/// Written from the property text; `safety == true` marks the conditions the property states.
fn judge(c: &Ctl, call: &Call, roles: [bool; 3], clock: &ConsensusClock) -> Judge {
    let mut reasons: Vec<(&'static str, bool)> = vec![];
    let confirmer = |p: usize, reasons: &mut Vec<(&'static str, bool)>, own: &'static str, none: &'static str| {
        let others = (0..3).filter(|r| *r != p && roles[*r]).count();
        if others == 0 {
            reasons.push(if roles[p] { (own, true) } else { (none, true) });
        }
    };
    match call {
        Call::CreateProof => {
            if c.locked {
                reasons.push(("create_proof-succeeded-while-primary-role-locked", true));
            }
            if !roles[P] {
                reasons.push(("caller-lacks-primary-role", false));
            }
        }
        Call::InitRec(p, _) => {
            if !roles[*p] {
                reasons.push(("caller-lacks-proposing-role", false));
            }
            if c.rec[*p].is_some() {
                reasons.push(("proposal-already-pending", false));
            }
        }
        Call::InitWd(p) => {
            if !roles[*p] {
                reasons.push(("caller-lacks-proposing-role", false));
            }
            if c.wd[*p].is_some() {
                reasons.push(("withdraw-attempt-already-pending", false));
            }
        }
        Call::QuickRec(p, prop) => {
            match &c.rec[*p] {
                None => reasons.push(("recovery-confirmed-without-pending-proposal", true)),
                Some(pe) => {
                    if pe.prop != *prop {
                        reasons.push(("recovery-confirmed-with-content-different-from-pending-proposal", true));
                    }
                    if !pe.by_holder {
                        reasons.push(("confirmed-recovery-proposal-was-not-made-by-its-role", true));
                    }
                }
            }
            confirmer(*p, &mut reasons, "recovery-proposal-confirmed-by-the-proposing-role-itself", "recovery-proposal-confirmed-by-caller-holding-no-role");
        }
        Call::QuickWd(p) => {
            match &c.wd[*p] {
                None => reasons.push(("asset-withdrawn-without-pending-withdraw-attempt", true)),
                Some(by_holder) => {
                    if !*by_holder {
                        reasons.push(("confirmed-withdraw-attempt-was-not-made-by-its-role", true));
                    }
                }
            }
            confirmer(*p, &mut reasons, "withdraw-attempt-confirmed-by-the-proposing-role-itself", "withdraw-attempt-confirmed-by-caller-holding-no-role");
        }
        Call::Timed(prop) => match &c.rec[R] {
            None => reasons.push(("timed-confirm-without-pending-recovery-role-proposal", true)),
            Some(pe) => {
                if pe.prop != *prop {
                    reasons.push(("timed-confirm-with-content-different-from-pending-proposal", true));
                }
                match &pe.timed {
                    None => reasons.push(("timed-confirm-of-recovery-without-running-timer", true)),
                    Some(t) => {
                        if (clock.minute as i64) < t.minute0 + t.delay as i64 {
                            reasons.push(("timed-confirm-before-configured-delay-elapsed", true));
                        }
                    }
                }
                if !pe.by_holder {
                    reasons.push(("confirmed-recovery-proposal-was-not-made-by-its-role", true));
                }
                // strict reading of the statement: it is *the recovery role* that confirms its own timed
                // recovery. Raised only when everything else about the confirmation is in order.
                if reasons.is_empty() && !roles[R] {
                    reasons.push(("timed-confirm-by-caller-without-recovery-role", true));
                }
            }
        },
        Call::CancelRec(p) => {
            if !roles[*p] {
                reasons.push(("caller-lacks-proposing-role", false));
            }
            if c.rec[*p].is_none() {
                reasons.push(("nothing-to-cancel", false));
            }
        }
        Call::CancelWd(p) => {
            if !roles[*p] {
                reasons.push(("caller-lacks-proposing-role", false));
            }
            if c.wd[*p].is_none() {
                reasons.push(("nothing-to-cancel", false));
            }
        }
        Call::Lock | Call::Unlock => {
            if !roles[R] {
                reasons.push(("caller-lacks-recovery-role", false));
            }
        }
        Call::Stop(prop) => {
            if !roles.iter().any(|r| *r) {
                reasons.push(("caller-holds-no-role", false));
            }
            match &c.rec[R] {
                Some(pe) if pe.timed.is_some() => {
                    if pe.prop != *prop {
                        reasons.push(("stop-with-different-content", false));
                    }
                }
                _ => reasons.push(("no-timed-recovery-to-stop", false)),
            }
        }
        Call::Mint(_) => {
            if !(roles[P] || roles[R]) {
                reasons.push(("caller-lacks-primary-and-recovery-role", false));
            }
            return if reasons.is_empty() { Judge::Unpredicted } else { Judge::Refuse { reason: reasons[0].0, safety: false } };
        }
        Call::LockFee(_) | Call::WithdrawFee(_) | Call::Contribute(_) => return Judge::Unpredicted,
        Call::DirectSetRole(..) => reasons.push(("rule-replaced-by-direct-role-assignment-call", true)),
    }
    if let Some((reason, _)) = reasons.iter().find(|(_, s)| *s) {
        return Judge::Refuse { reason, safety: true };
    }
    match reasons.first() {
        Some((reason, _)) => Judge::Refuse { reason, safety: false },
        None => Judge::Ok,
    }
}

/// What a *successful* call does to the model (the call succeeded, whatever `judge` said).
fn apply(c: &mut Ctl, call: &Call, roles: [bool; 3], clock: &ConsensusClock, pool: &[HRuleSet], pool_actual: &[RuleSet]) -> Effect {
    // remember what stops being pending (workload material only, not used by `judge`)
    let dropped: Vec<usize> = match call {
        Call::QuickRec(..) | Call::Timed(_) | Call::QuickWd(_) => vec![P, R],
        Call::CancelRec(p) => vec![*p],
        _ => vec![],
    };
    for p in dropped {
        if let Some(pe) = &c.rec[p] {
            let prop = pe.prop.clone();
            c.stale[p].retain(|x| *x != prop);
            c.stale[p].push(prop);
            if c.stale[p].len() > 3 {
                c.stale[p].remove(0);
            }
        }
    }
    match call {
        Call::InitRec(p, prop) => {
            let timed = if *p == R { c.delay.map(|d| Timed { minute0: clock.minute as i64, milli0: clock.milli, delay: d }) } else { None };
            c.rec[*p] = Some(PendRec { prop: prop.clone(), by_holder: roles[*p], timed });
            Effect::None
        }
        Call::InitWd(p) => {
            c.wd[*p] = Some(roles[*p]);
            Effect::None
        }
        Call::QuickRec(_, prop) | Call::Timed(prop) => {
            c.cur = pool[prop.rs].clone();
            c.cur_actual = pool_actual[prop.rs].clone();
            c.rec = [None, None];
            c.wd = [None, None];
            c.locked = false;
            Effect::Recovered(match call {
                Call::QuickRec(P, _) => "quick:primary-proposed",
                Call::QuickRec(..) => "quick:recovery-proposed",
                _ => "timed",
            })
        }
        Call::QuickWd(p) => {
            c.asset_expected = Decimal::ZERO;
            c.cur = HRuleSet::dead();
            c.cur_actual = RuleSet { primary_role: AccessRule::DenyAll, recovery_role: AccessRule::DenyAll, confirmation_role: AccessRule::DenyAll };
            c.rec = [None, None];
            c.wd = [None, None];
            c.locked = false;
            c.withdrawn = true;
            Effect::Withdrawn(if *p == P { "primary-proposed" } else { "recovery-proposed" })
        }
        Call::CancelRec(p) => {
            c.rec[*p] = None;
            Effect::None
        }
        Call::CancelWd(p) => {
            c.wd[*p] = None;
            Effect::None
        }
        Call::Lock => {
            c.locked = true;
            Effect::None
        }
        Call::Unlock => {
            c.locked = false;
            Effect::None
        }
        Call::Stop(_) => {
            if let Some(pe) = c.rec[R].as_mut() {
                pe.timed = None;
            }
            Effect::None
        }
        _ => Effect::None,
    }
}

// ------------------------------------------------------------------------------------------
// Observation of the stored state
// ------------------------------------------------------------------------------------------
fn read_roles(db: &Db, addr: &ComponentAddress) -> Option<RuleSet> {
    let mut out: Vec<AccessRule> = vec![];
    for name in ROLE_NAMES {
        let key = ModuleRoleKey::new(ModuleId::Main, RoleKey::new(name));
        let bytes = raw(db, addr.as_node_id(), ROLE_ASSIGNMENT_ROLE_DEF_PARTITION, &SubstateKey::Map(scrypto_encode(&key).ok()?))?;
        let s: KeyValueEntrySubstate<RoleAssignmentAccessRuleEntryPayload> = scrypto_decode(&bytes).ok()?;
        out.push(s.into_value()?.fully_update_and_into_latest_version());
    }
    let confirmation_role = out.pop()?;
    let recovery_role = out.pop()?;
    let primary_role = out.pop()?;
    Some(RuleSet { primary_role, recovery_role, confirmation_role })
}

fn read_state(db: &Db, addr: &ComponentAddress) -> Option<AccessControllerV2Substate> {
    let bytes = raw(db, addr.as_node_id(), MAIN_BASE_PARTITION, &AccessControllerV2Field::State.into())?;
    let s: AccessControllerV2StateFieldSubstate = scrypto_decode(&bytes).ok()?;
    Some(s.into_payload().fully_update_and_into_latest_version())
}

/// Stored-state view used only to cross-check the harness model (logged, never verdict-bearing).
fn stored_mask(s: &AccessControllerV2Substate) -> u32 {
    let (lock, prec, pwd, rrec, rwd) = &s.state;
    (matches!(prec, PrimaryRoleRecoveryAttemptState::RecoveryAttempt(_)) as u32)
        | (matches!(rrec, RecoveryRoleRecoveryAttemptState::RecoveryAttempt(_)) as u32) << 1
        | (matches!(rrec, RecoveryRoleRecoveryAttemptState::RecoveryAttempt(RecoveryRoleRecoveryState::TimedRecovery { .. })) as u32) << 2
        | (matches!(pwd, PrimaryRoleBadgeWithdrawAttemptState::BadgeWithdrawAttempt) as u32) << 3
        | (matches!(rwd, RecoveryRoleBadgeWithdrawAttemptState::BadgeWithdrawAttempt) as u32) << 4
        | (matches!(lock, PrimaryRoleLockingState::Locked) as u32) << 5
}

// ------------------------------------------------------------------------------------------
// World
// ------------------------------------------------------------------------------------------
struct Env {
    kind: &'static str,
    pk: Secp256k1PublicKey,
    account: ComponentAddress,
    /// 6 role badges + 1 foreign badge
    badges: Vec<ResourceAddress>,
    pool: Vec<HRuleSet>,
    pool_actual: Vec<RuleSet>,
    prop_delays: Vec<Option<u32>>,
    /// controlled assets lying in the account (fresh ones and withdrawn ones): (resource, amount)
    free_assets: Vec<(ResourceAddress, Decimal)>,
    next_mint_id: u64,
    upgraded: bool,
}

impl Env {
    fn proof(&self) -> NonFungibleGlobalId {
        NonFungibleGlobalId::from_public_key(&self.pk)
    }
    fn code_version(&self) -> &'static str {
        if self.kind == "latest" || self.upgraded {
            "v2"
        } else {
            "v1"
        }
    }
}

fn gen_rule(rng: &mut Rng, avoid: &BTreeSet<usize>, allow_open: bool) -> HRule {
    let free: Vec<usize> = (0..N_BADGES).filter(|b| !avoid.contains(b)).collect();
    let from: Vec<usize> = if free.len() >= 2 && rng.chance(5, 6) { free } else { (0..N_BADGES).collect() };
    match rng.below(20) {
        0..=11 => HRule::Any(vec![*rng.pick(&from)]),
        12..=15 => {
            let a = *rng.pick(&from);
            let b = *rng.pick(&from);
            if a == b {
                HRule::Any(vec![a])
            } else {
                HRule::Any(vec![a, b])
            }
        }
        16..=17 => {
            let a = *rng.pick(&from);
            let b = *rng.pick(&from);
            if a == b {
                HRule::Any(vec![a])
            } else {
                HRule::All(vec![a, b])
            }
        }
        18 if allow_open => HRule::AllowAll,
        19 if allow_open => HRule::DenyAll,
        _ => HRule::Any(vec![*rng.pick(&from)]),
    }
}

fn gen_pool(rng: &mut Rng, badges: &[ResourceAddress]) -> (Vec<HRuleSet>, Vec<RuleSet>) {
    let one = |b: usize| HRule::Any(vec![b]);
    let mut pool = vec![HRuleSet([one(0), one(1), one(2)]), HRuleSet([one(3), one(4), one(5)]), HRuleSet([one(1), one(2), one(0)])];
    // the fourth set is random: any-of / all-of / overlapping roles / (rarely) open or closed roles
    loop {
        let mut used = BTreeSet::new();
        let mut rules = vec![];
        for _ in 0..3 {
            let r = gen_rule(rng, &used, true);
            if let HRule::Any(v) | HRule::All(v) = &r {
                used.extend(v.iter().cloned());
            }
            rules.push(r);
        }
        let cand = HRuleSet([rules[0].clone(), rules[1].clone(), rules[2].clone()]);
        let actual = cand.to_rule_set(badges);
        if pool.iter().all(|p| p.to_rule_set(badges) != actual) {
            pool.push(cand);
            break;
        }
    }
    let actual = pool.iter().map(|p| p.to_rule_set(badges)).collect();
    (pool, actual)
}

fn new_ledger(kind: &str) -> Ledger {
    match kind {
        "latest" => Ledger::new(),
        _ => Ledger::from_sim(LedgerSimulatorBuilder::new().with_custom_protocol(|b| b.from_bootstrap_to(ProtocolVersion::Anemone)).build()),
    }
}

/// Create one controlled asset in the account (a new resource each time).
fn create_asset(ledger: &mut Ledger, shard: &mut Shard, rng: &mut Rng, env: &mut Env) {
    let (m, amount) = if rng.chance(2, 3) {
        let amount = Decimal::from(rng.range(1, 5));
        let m = ManifestBuilder::new()
            .lock_fee_from_faucet()
            .create_fungible_resource(OwnerRole::None, true, 0, FungibleResourceRoles::default(), metadata!(), Some(amount))
            .try_deposit_entire_worktop_or_abort(env.account, None)
            .build();
        (m, amount)
    } else {
        let n = rng.range(1, 3);
        let entries: Vec<(NonFungibleLocalId, ())> = (0..n).map(|k| (NonFungibleLocalId::integer(k + 1), ())).collect();
        let m = ManifestBuilder::new()
            .lock_fee_from_faucet()
            .create_non_fungible_resource(OwnerRole::None, NonFungibleIdType::Integer, true, NonFungibleResourceRoles::default(), metadata!(), Some(entries))
            .try_deposit_entire_worktop_or_abort(env.account, None)
            .build();
        (m, Decimal::from(n))
    };
    let r = ledger.exec(shard, "setup:create_asset", m, vec![]);
    if r.is_success() {
        let address = r.receipt().expect_commit(true).new_resource_addresses()[0];
        env.free_assets.push((address, amount));
    }
}

fn create_controller(ledger: &mut Ledger, shard: &mut Shard, rng: &mut Rng, env: &mut Env) -> Option<Ctl> {
    if env.free_assets.is_empty() || rng.chance(1, 2) {
        create_asset(ledger, shard, rng, env);
    }
    if env.free_assets.is_empty() {
        return None;
    }
    let k = rng.usize_below(env.free_assets.len());
    let (asset, amount) = env.free_assets.swap_remove(k);
    let rs = rng.usize_below(env.pool.len());
    let delay = match rng.below(12) {
        0 | 1 => None,
        2 | 3 => Some(0),
        4 | 5 => Some(1),
        6 | 7 => Some(2),
        8 => Some(3),
        9 => Some(5),
        10 => Some(1_000_000),
        _ => Some(u32::MAX),
    };
    let rules = env.pool_actual[rs].clone();
    let m = ManifestBuilder::new()
        .lock_fee_from_faucet()
        .withdraw_from_account(env.account, asset, amount)
        .take_all_from_worktop(asset, "controlled_asset")
        .create_access_controller("controlled_asset", rules.primary_role.clone(), rules.recovery_role.clone(), rules.confirmation_role.clone(), delay)
        .build();
    let r = ledger.exec(shard, "create", m, vec![env.proof()]);
    if !r.is_success() {
        shard.count("c40:log:controller_creation_failed");
        env.free_assets.push((asset, amount));
        return None;
    }
    let addr = r.receipt().expect_commit(true).new_component_addresses()[0];
    let st = read_state(ledger.db(), &addr).expect("controller state readable");
    let stored_rules = read_roles(ledger.db(), &addr).expect("controller roles readable");
    if stored_rules != rules {
        shard.violation("rules-after-creation-differ-from-requested-rule-set", json!({"controller": format!("{addr:?}"), "requested": format!("{rules:?}"), "stored": format!("{stored_rules:?}")}));
    }
    shard.count("c40:controllers_created");
    shard.count(&format!("c40:controllers_created_under:{}", env.code_version()));
    shard.seen("c40:configured_delays", &format!("{delay:?}"));
    Some(Ctl {
        addr,
        vault: *st.controlled_asset.0.as_node_id(),
        asset,
        asset_expected: amount,
        cur: env.pool[rs].clone(),
        cur_actual: rules,
        delay,
        rec: [None, None],
        wd: [None, None],
        locked: false,
        withdrawn: false,
        calls: 0,
        calls_after_withdraw: 0,
        era: env.code_version(),
        history: VecDeque::new(),
        stale: [vec![], vec![]],
    })
}

// ------------------------------------------------------------------------------------------
// Workload generation
// ------------------------------------------------------------------------------------------
fn pick_prop(rng: &mut Rng, env: &Env, prefer: Option<&Prop>, other: Option<&Prop>) -> Prop {
    let random = |rng: &mut Rng| Prop { rs: rng.usize_below(env.pool.len()), delay: *rng.pick(&env.prop_delays) };
    match (rng.below(20), prefer) {
        (0..=11, Some(p)) => p.clone(),
        (12 | 13, Some(p)) => {
            // near miss: same rule set, another delay / same delay, another rule set
            if rng.bool() {
                Prop { rs: p.rs, delay: *rng.pick(&env.prop_delays) }
            } else {
                Prop { rs: rng.usize_below(env.pool.len()), delay: p.delay }
            }
        }
        (14 | 15, _) => other.cloned().unwrap_or_else(|| random(rng)),
        _ => random(rng),
    }
}

fn gen_call(rng: &mut Rng, env: &mut Env, c: &Ctl) -> Call {
    let stale_pick = [c.stale[P].last(), c.stale[R].last()];
    let pend = |p: usize| c.rec[p].as_ref().map(|x| &x.prop).or(stale_pick[p]);
    // weights; calls that can currently be effective are boosted
    let mut w: Vec<(u32, u32)> = vec![
        (0, 7),                                             // create_proof
        (1, if c.rec[P].is_none() { 9 } else { 3 }),        // init rec P
        (2, if c.rec[R].is_none() { 9 } else { 3 }),        // init rec R
        (3, if c.wd[P].is_none() { 4 } else { 1 }),         // init wd P
        (4, if c.wd[R].is_none() { 4 } else { 1 }),         // init wd R
        (5, if c.rec[P].is_some() { 14 } else if !c.stale[P].is_empty() { 6 } else { 3 }), // quick rec P
        (6, if c.rec[R].is_some() { 14 } else if !c.stale[R].is_empty() { 6 } else { 3 }), // quick rec R
        (7, if c.wd[P].is_some() { 8 } else { 2 }),         // quick wd P
        (8, if c.wd[R].is_some() { 8 } else { 2 }),         // quick wd R
        (9, if c.rec[R].is_some() { 14 } else if !c.stale[R].is_empty() { 6 } else { 3 }), // timed
        (10, if c.rec[P].is_some() { 3 } else { 1 }),       // cancel rec P
        (11, if c.rec[R].is_some() { 3 } else { 1 }),       // cancel rec R
        (12, if c.wd[P].is_some() { 3 } else { 1 }),        // cancel wd P
        (13, if c.wd[R].is_some() { 3 } else { 1 }),        // cancel wd R
        (14, if c.locked { 2 } else { 6 }),                 // lock
        (15, if c.locked { 5 } else { 2 }),                 // unlock
        (16, if c.rec[R].as_ref().map(|x| x.timed.is_some()).unwrap_or(false) { 5 } else { 1 }), // stop
        (17, 1),
        (18, 1),
        (19, 1),
        (20, 1),
        (21, 2),
    ];
    if c.locked {
        w[0].1 = 14;
    }
    let total: u32 = w.iter().map(|x| x.1).sum();
    let mut t = rng.below(total as u64) as u32;
    let mut kind = 0;
    for (k, wt) in &w {
        if t < *wt {
            kind = *k;
            break;
        }
        t -= wt;
    }
    match kind {
        0 => Call::CreateProof,
        1 => Call::InitRec(P, pick_prop(rng, env, None, pend(R))),
        2 => Call::InitRec(R, pick_prop(rng, env, None, pend(P))),
        3 => Call::InitWd(P),
        4 => Call::InitWd(R),
        5 => Call::QuickRec(P, pick_prop(rng, env, pend(P), pend(R))),
        6 => Call::QuickRec(R, pick_prop(rng, env, pend(R), pend(P))),
        7 => Call::QuickWd(P),
        8 => Call::QuickWd(R),
        9 => Call::Timed(pick_prop(rng, env, pend(R), pend(P))),
        10 => Call::CancelRec(P),
        11 => Call::CancelRec(R),
        12 => Call::CancelWd(P),
        13 => Call::CancelWd(R),
        14 => Call::Lock,
        15 => Call::Unlock,
        16 => Call::Stop(pick_prop(rng, env, pend(R), pend(P))),
        17 => {
            env.next_mint_id += 1;
            Call::Mint(if rng.chance(1, 4) { rng.range(1, env.next_mint_id) } else { env.next_mint_id })
        }
        18 => Call::LockFee(*rng.pick(&[dec!(5), dec!(10), dec!(100000), dec!(0)])),
        19 => Call::WithdrawFee(*rng.pick(&[dec!(1), dec!(5), dec!(1000)])),
        21 => Call::DirectSetRole(rng.usize_below(3), rng.usize_below(env.pool.len())),
        _ => Call::Contribute(*rng.pick(&[dec!(10), dec!(25), dec!(1)])),
    }
}

/// The role whose holder would be allowed to make this call effective (used to steer a share
/// of the workload towards authorised calls; the rest presents arbitrary badge subsets).
fn natural_roles(rng: &mut Rng, call: &Call) -> Vec<usize> {
    match call {
        Call::CreateProof | Call::WithdrawFee(_) => vec![P],
        Call::InitRec(p, _) | Call::InitWd(p) | Call::CancelRec(p) | Call::CancelWd(p) => vec![*p],
        Call::QuickRec(p, _) | Call::QuickWd(p) => {
            let others: Vec<usize> = (0..3).filter(|r| r != p).collect();
            vec![*rng.pick(&others)]
        }
        Call::Timed(_) | Call::Lock | Call::Unlock => vec![R],
        Call::Stop(_) | Call::LockFee(_) | Call::DirectSetRole(..) => vec![rng.usize_below(3)],
        Call::Mint(_) => vec![if rng.bool() { P } else { R }],
        Call::Contribute(_) => vec![],
    }
}

fn gen_presented(rng: &mut Rng, c: &Ctl, calls: &[Call]) -> (BTreeSet<usize>, &'static str) {
    let mut set = BTreeSet::new();
    let hold = |rng: &mut Rng, set: &mut BTreeSet<usize>, role: usize| {
        for b in c.cur.0[role].badges_to_hold(rng) {
            set.insert(b);
        }
    };
    let style = match rng.below(40) {
        0..=14 => {
            // the natural role(s) of each call in the transaction
            for call in calls {
                for r in natural_roles(rng, call) {
                    hold(rng, &mut set, r);
                }
            }
            "natural"
        }
        15..=24 => {
            { let r0 = rng.usize_below(3); hold(rng, &mut set, r0); }
            "one-role"
        }
        25..=28 => {
            let a = rng.usize_below(3);
            hold(rng, &mut set, a);
            { let r1 = (a + 1 + rng.usize_below(2)) % 3; hold(rng, &mut set, r1); }
            "two-roles"
        }
        29 => {
            for r in 0..3 {
                hold(rng, &mut set, r);
            }
            "all-roles"
        }
        30..=32 => "no-badge",
        33 | 34 => {
            set.insert(FOREIGN);
            "foreign-badge"
        }
        35 => {
            { let r0 = rng.usize_below(3); hold(rng, &mut set, r0); }
            set.insert(FOREIGN);
            "one-role+foreign"
        }
        36 | 37 => {
            // the proposer role of a confirm call: the classic "confirm my own proposal"
            for call in calls {
                if let Call::QuickRec(p, _) | Call::QuickWd(p) = call {
                    hold(rng, &mut set, *p);
                }
            }
            if set.is_empty() {
                { let r0 = rng.usize_below(3); hold(rng, &mut set, r0); }
            }
            "proposer-role"
        }
        _ => {
            for b in 0..N_BADGES {
                if rng.chance(1, 3) {
                    set.insert(b);
                }
            }
            "random-subset"
        }
    };
    (set, style)
}

fn gen_calls(rng: &mut Rng, env: &mut Env, c: &Ctl) -> Vec<Call> {
    if rng.chance(5, 6) {
        return vec![gen_call(rng, env, c)];
    }
    let prop = Prop { rs: rng.usize_below(env.pool.len()), delay: *rng.pick(&env.prop_delays) };
    match rng.below(8) {
        0 => vec![Call::InitRec(P, prop.clone()), Call::QuickRec(P, prop)],
        1 => vec![Call::InitRec(R, prop.clone()), Call::QuickRec(R, prop)],
        2 => vec![Call::InitRec(R, prop.clone()), Call::Timed(prop)],
        3 => vec![Call::Lock, Call::CreateProof],
        4 => vec![Call::Unlock, Call::CreateProof],
        5 => vec![Call::InitWd(rng.usize_below(2)), Call::QuickWd(rng.usize_below(2))],
        6 => vec![Call::CancelRec(R), Call::InitRec(R, prop.clone()), Call::Timed(prop)],
        _ => {
            let n = rng.range(2, 3);
            (0..n).map(|_| gen_call(rng, env, c)).collect()
        }
    }
}

fn build_manifest(rng: &mut Rng, env: &Env, c: &Ctl, presented: &BTreeSet<usize>, calls: &[Call]) -> TransactionManifestV1 {
    let fee_from_controller = matches!(calls.first(), Some(Call::LockFee(_))) && rng.chance(2, 3);
    let mut mb = ManifestBuilder::new();
    if !fee_from_controller {
        mb = mb.lock_fee_from_faucet();
    }
    for b in presented {
        mb = mb.create_proof_from_account_of_amount(env.account, env.badges[*b], dec!(1));
    }
    let rule_set = |p: &Prop| env.pool_actual[p.rs].clone();
    let mut returns_buckets = false;
    for (k, call) in calls.iter().enumerate() {
        let ident = call.ident();
        mb = match call {
            Call::CreateProof => {
                let mb = mb.call_method(c.addr, ident, AccessControllerCreateProofInput {});
                if rng.bool() {
                    mb.pop_from_auth_zone(format!("asset_proof_{k}"))
                } else {
                    mb
                }
            }
            Call::InitRec(_, p) => mb.call_method(c.addr, ident, AccessControllerInitiateRecoveryAsPrimaryInput { rule_set: rule_set(p), timed_recovery_delay_in_minutes: p.delay }),
            Call::QuickRec(_, p) => mb.call_method(c.addr, ident, AccessControllerQuickConfirmPrimaryRoleRecoveryProposalInput { rule_set: rule_set(p), timed_recovery_delay_in_minutes: p.delay }),
            Call::Timed(p) => mb.call_method(c.addr, ident, AccessControllerTimedConfirmRecoveryInput { rule_set: rule_set(p), timed_recovery_delay_in_minutes: p.delay }),
            Call::Stop(p) => mb.call_method(c.addr, ident, AccessControllerStopTimedRecoveryInput { rule_set: rule_set(p), timed_recovery_delay_in_minutes: p.delay }),
            Call::InitWd(_) | Call::CancelRec(_) | Call::CancelWd(_) | Call::Lock | Call::Unlock => mb.call_method(c.addr, ident, ()),
            Call::QuickWd(_) => {
                returns_buckets = true;
                mb.call_method(c.addr, ident, ())
            }
            Call::Mint(id) => {
                returns_buckets = true;
                mb.call_method(c.addr, ident, AccessControllerMintRecoveryBadgesInput { non_fungible_local_ids: indexset!(NonFungibleLocalId::integer(*id)) })
            }
            Call::LockFee(a) => mb.call_method(c.addr, ident, AccessControllerLockRecoveryFeeInput { amount: *a }),
            Call::WithdrawFee(a) => {
                returns_buckets = true;
                mb.call_method(c.addr, ident, AccessControllerWithdrawRecoveryFeeInput { amount: *a })
            }
            Call::DirectSetRole(role, rs) => {
                let rules = &env.pool_actual[*rs];
                let rule = [&rules.primary_role, &rules.recovery_role, &rules.confirmation_role][*role].clone();
                mb.set_role(c.addr, ModuleId::Main, RoleKey::new(ROLE_NAMES[*role]), rule)
            }
            Call::Contribute(a) => {
                let name = format!("fee_bucket_{k}");
                mb.withdraw_from_account(env.account, XRD, *a)
                    .take_all_from_worktop(XRD, name.clone())
                    .call_method_with_name_lookup(c.addr, ident, |l| AccessControllerContributeRecoveryFeeManifestInput { bucket: l.bucket(name) })
            }
        };
    }
    if returns_buckets {
        mb = mb.try_deposit_entire_worktop_or_abort(env.account, None);
    }
    mb.build()
}

fn describe_call(call: &Call) -> String {
    match call {
        Call::InitRec(p, x) | Call::QuickRec(p, x) => format!("{}(proposer={}, rule_set=#{}, delay={:?})", call.ident(), ROLE_NAMES[*p], x.rs, x.delay),
        Call::Timed(x) | Call::Stop(x) => format!("{}(rule_set=#{}, delay={:?})", call.ident(), x.rs, x.delay),
        Call::Mint(id) => format!("{}(#{id}#)", call.ident()),
        Call::DirectSetRole(role, rs) => format!("{}({} := {} rule of rule_set #{rs})", call.ident(), ROLE_NAMES[*role], ROLE_NAMES[*role]),
        Call::LockFee(a) | Call::WithdrawFee(a) | Call::Contribute(a) => format!("{}({a})", call.ident()),
        _ => format!("{}()", call.ident()),
    }
}

fn roles_str(roles: [bool; 3]) -> String {
    let s: Vec<&str> = (0..3).filter(|r| roles[*r]).map(|r| ROLE_NAMES[r]).collect();
    if s.is_empty() {
        "none".into()
    } else {
        s.join("+")
    }
}

// ------------------------------------------------------------------------------------------
// One controller transaction: generate, predict, execute, judge, observe
// ------------------------------------------------------------------------------------------
struct Ctx<'a> {
    shard_index: usize,
    ledger_no: u64,
    tx_no: u64,
    env: &'a mut Env,
}

fn controller_tx(ledger: &mut Ledger, shard: &mut Shard, rng: &mut Rng, cx: &mut Ctx, ctls: &mut Vec<Ctl>, k: usize) {
    let clock = consensus_clock(ledger.db()).expect("clock readable");
    let calls = gen_calls(rng, cx.env, &ctls[k]);
    let (presented, style) = gen_presented(rng, &ctls[k], &calls);
    let manifest = build_manifest(rng, cx.env, &ctls[k], &presented, &calls);
    let manifest_text = rv_ledger::describe_manifest(&manifest, &[]);
    // prediction on a copy of the model
    let before = ctls[k].clone();
    let mut sim = before.clone();
    let mut judged: Vec<(Judge, [bool; 3], Effect)> = vec![];
    let mut create_proof_under_lock = false;
    for call in &calls {
        let roles = sim.cur.roles_of(&presented);
        let mut j = judge(&sim, call, roles, &clock);
        if j == Judge::Ok && matches!(call, Call::QuickWd(_)) && calls.iter().take(judged.len()).any(|c| matches!(c, Call::CreateProof)) {
            // a proof created earlier in the transaction still locks the asset in the vault
            j = Judge::Unpredicted;
        }
        if matches!(call, Call::CreateProof) && sim.locked {
            create_proof_under_lock = true;
        }
        let e = apply(&mut sim, call, roles, &clock, &cx.env.pool, &cx.env.pool_actual);
        judged.push((j, roles, e));
    }
    let label = if calls.len() == 1 { calls[0].ident() } else { "multi-call" };
    let r = ledger.exec(shard, label, manifest, vec![cx.env.proof()]);
    let Some(rc) = &r.receipt else {
        shard.count("c40:log:no_receipt");
        return;
    };
    let cls = outcome_class(rc);
    let ok = rc.is_commit_success();
    shard.seen("c40:presentation_styles", style);
    shard.seen("c40:outcome_classes", &cls);
    let first_refusal = judged.iter().position(|(j, _, _)| matches!(j, Judge::Refuse { .. }));
    let unpredicted = judged.iter().any(|(j, _, _)| *j == Judge::Unpredicted);
    let line = format!(
        "tx#{} minute={} ms={} presented={:?} [{}] -> {}",
        cx.tx_no,
        clock.minute,
        clock.milli,
        presented,
        calls.iter().zip(&judged).map(|(c, (j, roles, _))| format!("{} as {} (model: {})", describe_call(c), roles_str(*roles), match j { Judge::Ok => "allowed".to_string(), Judge::Unpredicted => "unpredicted".to_string(), Judge::Refuse { reason, .. } => format!("refuse:{reason}") })).collect::<Vec<_>>().join("; "),
        cls
    );
    let (shard_index, ledger_no, tx_no, ledger_kind, code_version) = (cx.shard_index, cx.ledger_no, cx.tx_no, cx.env.kind, cx.env.code_version());
    let pool_text: Vec<String> = cx.env.pool.iter().map(|p| format!("{p:?}")).collect();
    let detail = |extra: Value, c: &Ctl| -> Value {
        json!({
            "replay": {"shard": shard_index, "ledger": ledger_no, "tx_no": tx_no},
            "ledger_kind": ledger_kind, "controller_code": code_version,
            "clock": {"minute": clock.minute, "milli": clock.milli, "epoch": clock.epoch, "round": clock.round},
            "transaction": line, "manifest": manifest_text,
            "model_before": before.describe(), "observed": extra,
            "recent_history_of_controller": c.history.iter().collect::<Vec<_>>(),
            "rule_set_pool": pool_text,
        })
    };
    for (call, (j, roles, _)) in calls.iter().zip(&judged) {
        let name = call.ident();
        shard.count(&format!("c40:call:{name}:{}", if ok { "effective" } else { "refused" }));
        shard.nontrivial(&("c40", name, roles, before.state_mask(), format!("{j:?}"), ok, calls.len() > 1));
    }
    if calls.len() == 1 {
        shard.seen("c40:method_outcomes", &format!("{}:{}", calls[0].ident(), cls));
    } else {
        shard.count(&format!("c40:multi_call_transactions:{}", if ok { "committed" } else { "failed" }));
    }
    if create_proof_under_lock {
        shard.count("c40:create_proof_attempts_while_locked");
    }
    if ok {
        for (call, (j, roles, e)) in calls.iter().zip(&judged) {
            match j {
                Judge::Refuse { reason, safety: true } => {
                    shard.violation(*reason, detail(json!({"offending_call": describe_call(call), "caller_roles": roles_str(*roles), "outcome": cls}), &ctls[k]));
                }
                Judge::Refuse { reason, safety: false } => {
                    shard.count(&format!("c40:log:unexpected_success:{}:{reason}", call.ident()));
                    shard.notes.push(format!("C40 log: unexpected success ({reason}) {line}"));
                    shard.notes.truncate(20);
                }
                _ => {}
            }
            match e {
                Effect::Recovered(path) => {
                    shard.count(&format!("c40:effective_recoveries:{path}"));
                    shard.count("c40:effective_recoveries");
                    if *path == "timed" {
                        if !roles[R] {
                            shard.count("c40:timed_confirm_effective_for_caller_without_recovery_role");
                        }
                        if let (Call::Timed(_), Some(pe)) = (call, &before.rec[R]) {
                            if let Some(t) = &pe.timed {
                                shard.seen("c40:timed_confirm_minutes_past_threshold", &format!("{}", (clock.minute as i64 - t.minute0 - t.delay as i64).min(5)));
                                if clock.milli - t.milli0 < t.delay as i64 * 60_000 {
                                    shard.count("c40:timed_confirm_effective_within_minute_rounding_slack");
                                }
                            }
                        }
                    }
                    if before.locked {
                        shard.count("c40:effective_recoveries_while_primary_locked");
                    }
                }
                Effect::Withdrawn(path) => {
                    shard.count(&format!("c40:badge_withdrawals:{path}"));
                    shard.count("c40:badge_withdrawals");
                }
                Effect::None => {}
            }
        }
        ctls[k] = sim;
        if ctls[k].withdrawn && !before.withdrawn {
            cx.env.free_assets.push((before.asset, before.asset_expected));
        }
    } else {
        match first_refusal {
            Some(i) => {
                if let Judge::Refuse { reason, .. } = &judged[i].0 {
                    let is_confirm = matches!(calls[i], Call::QuickRec(..) | Call::QuickWd(_) | Call::Timed(_));
                    let reason = if *reason == "create_proof-succeeded-while-primary-role-locked" { "create_proof-while-primary-role-locked" } else { reason };
                    shard.count(&format!("c40:{}:{reason}", if is_confirm { "refused_confirms" } else { "refused_other" }));
                }
            }
            None if !unpredicted => {
                shard.count(&format!("c40:log:unexpected_failure:{}:{}", label, cls));
                if shard.notes.len() < 20 {
                    shard.notes.push(format!("C40 log: unexpected failure {line}"));
                }
            }
            None => {}
        }
    }
    let c = &mut ctls[k];
    c.calls += 1;
    if c.withdrawn {
        c.calls_after_withdraw += 1;
    }
    c.history.push_back(line.clone());
    if c.history.len() > 40 {
        c.history.pop_front();
    }
    if shard.want_sample() && ok && judged.iter().any(|(_, _, e)| *e != Effect::None) {
        shard.sample(|| json!({"effective_change": line}));
    }
    let effective_here: Vec<Effect> = if ok { judged.iter().map(|(_, _, e)| e.clone()).filter(|e| *e != Effect::None).collect() } else { vec![] };
    observe_all(ledger, shard, cx, ctls, Some((k, &effective_here, &detail)));
}

/// Compare the stored rules / controlled-asset vaults of all live controllers with the model.
fn observe_all(ledger: &Ledger, shard: &mut Shard, cx: &Ctx<'_>, ctls: &mut Vec<Ctl>, tx: Option<(usize, &Vec<Effect>, &dyn Fn(Value, &Ctl) -> Value)>) {
    let db = ledger.db();
    let mut retire: Vec<usize> = vec![];
    for i in 0..ctls.len() {
        let here = tx.as_ref().filter(|(k, _, _)| *k == i);
        let mk = |extra: Value, c: &Ctl| -> Value {
            match &here {
                Some((_, _, d)) => d(extra, c),
                None => json!({"replay": {"shard": cx.shard_index, "ledger": cx.ledger_no, "tx_no": cx.tx_no}, "ledger_kind": cx.env.kind, "controller": c.describe(), "observed": extra, "note": "changed by a transaction that did not call this controller", "recent_history_of_controller": c.history.iter().collect::<Vec<_>>()}),
            }
        };
        let Some(stored) = read_roles(db, &ctls[i].addr) else {
            shard.count("c40:log:roles_unreadable");
            continue;
        };
        shard.count("c40:stored_rule_sets_compared");
        if stored != ctls[i].cur_actual {
            let recovered = here.map(|(_, e, _)| e.iter().any(|x| matches!(x, Effect::Recovered(_) | Effect::Withdrawn(_)))).unwrap_or(false);
            let sig = if recovered { "rules-after-confirmation-differ-from-the-confirmed-proposal" } else { "rules-replaced-without-authorised-confirmation" };
            shard.violation(sig, mk(json!({"stored_rules": format!("{stored:?}"), "rules_per_model": format!("{:?}", ctls[i].cur_actual)}), &ctls[i]));
            // resynchronise the model with what is stored, or retire the controller
            if let Some(j) = cx.env.pool_actual.iter().position(|p| *p == stored) {
                ctls[i].cur = cx.env.pool[j].clone();
                ctls[i].cur_actual = stored;
            } else {
                retire.push(i);
            }
        }
        let amount = vault_amount(db, &ctls[i].vault).unwrap_or(Decimal::ZERO);
        if amount < ctls[i].asset_expected {
            shard.violation("controlled-asset-left-the-vault-without-authorised-withdrawal", mk(json!({"vault_amount": amount.to_string(), "amount_per_model": ctls[i].asset_expected.to_string()}), &ctls[i]));
            ctls[i].asset_expected = amount;
        } else if amount > ctls[i].asset_expected {
            // a confirmed withdrawal must actually empty the vault; anything else is only logged
            shard.count("c40:log:vault_holds_more_than_model");
            ctls[i].asset_expected = amount;
        }
        // model cross-check against the stored state machine (harness self-check, not a verdict)
        if let Some(st) = read_state(db, &ctls[i].addr) {
            if stored_mask(&st) != (ctls[i].state_mask() & 0x3f) {
                shard.count("c40:log:model_diverges_from_stored_state");
                if shard.notes.len() < 20 {
                    shard.notes.push(format!("C40 log: model mask {:#b} vs stored {:#b} for {:?} at tx#{}; history {:?}", ctls[i].state_mask() & 0x3f, stored_mask(&st), ctls[i].addr, cx.tx_no, ctls[i].history.back()));
                }
            }
            if st.timed_recovery_delay_in_minutes != ctls[i].delay {
                shard.count("c40:log:stored_delay_differs_from_configured");
                ctls[i].delay = st.timed_recovery_delay_in_minutes;
            }
        }
    }
    for i in retire.into_iter().rev() {
        ctls.remove(i);
    }
}

fn advance_time(ledger: &mut Ledger, shard: &mut Shard, rng: &mut Rng, ctls: &[Ctl]) {
    let clock = consensus_clock(ledger.db()).expect("clock readable");
    let now = clock.minute as i64;
    let thresholds: Vec<i64> = ctls.iter().filter_map(|c| c.rec[R].as_ref()?.timed.as_ref().map(|t| t.minute0 + t.delay as i64)).collect();
    let near: Vec<i64> = thresholds.iter().cloned().filter(|t| *t > now && *t - now < 100).collect();
    let (ts, kind) = if !near.is_empty() && rng.chance(3, 4) {
        let t = *rng.pick(&near);
        match rng.below(5) {
            0 | 1 => ((t - 1) * 60_000 + 59_999, "to-last-ms-before-threshold"),
            2 => (t * 60_000, "to-threshold-exactly"),
            3 => (t * 60_000 + rng.below(60_000) as i64, "into-threshold-minute"),
            _ => ((t + rng.range(1, 3) as i64) * 60_000 + rng.below(60_000) as i64, "past-threshold"),
        }
    } else {
        match rng.below(5) {
            0 => (clock.milli + 1, "+1ms"),
            1 => (clock.milli + rng.range(2, 59_999) as i64, "+seconds"),
            2 => (clock.milli + 60_000, "+1min"),
            3 => (clock.milli, "+0"),
            _ => (clock.milli + rng.range(60_000, 240_000) as i64, "+minutes"),
        }
    };
    let ts = ts.max(clock.milli);
    let r = ledger.next_round(shard, clock.round + 1, ts, vec![], 0);
    shard.seen("c40:time_advance_kinds", kind);
    if r.is_success() {
        shard.count("c40:time_advances");
        let after = consensus_clock(ledger.db()).expect("clock readable");
        let crossed = thresholds.iter().filter(|t| now < **t && **t <= after.minute as i64).count();
        if crossed > 0 {
            shard.add("c40:time_advances_crossing_a_delay", 1);
            shard.nontrivial(&("c40-time", kind, crossed.min(3)));
        }
    } else {
        shard.count("c40:log:round_change_not_committed");
    }
}

// ------------------------------------------------------------------------------------------
// Shard driver
// ------------------------------------------------------------------------------------------
#[derive(Clone, Debug)]
struct Params {
    seed: u64,
    ledgers_per_shard: u64,
    steps: u64,
    live_controllers: usize,
    calls_per_controller: u64,
}

fn params(args: &Args, tier: Tier) -> Params {
    Params { seed: args.seed, ledgers_per_shard: tier.pick(2, 400), steps: scaled(args, 3000), live_controllers: 3, calls_per_controller: 40 }
}

fn ledger_kind(shard_index: usize, ledger_no: u64) -> &'static str {
    match (shard_index as u64 + 3 * ledger_no) % 8 {
        3 => "anemone",
        1 | 6 => "anemone-upgraded-mid-history",
        _ => "latest",
    }
}

fn run_shard(i: usize, shard: &mut Shard, p: &Params) {
    for l in 0..p.ledgers_per_shard {
        if shard.time_up() {
            break;
        }
        run_ledger(i, l, shard, p, None);
    }
}

/// One ledger history. Its randomness depends only on (seed, ledger number, shard index), so a
/// recorded violation can be replayed from these coordinates plus the transaction number.
fn run_ledger(i: usize, l: u64, shard: &mut Shard, p: &Params, stop_after: Option<u64>) {
    let rng = &mut Rng::from_parts(p.seed, 40_000 + l, i as u64);
    let kind = ledger_kind(i, l);
    shard.seen("c40:ledger_kinds", kind);
    let mut ledger = new_ledger(kind);
    ledger.walk_every = 1500;
    let (pk, _sk, account) = ledger.sim.new_allocated_account();
    // role badges
    let mut badges = vec![];
    while badges.len() < N_BADGES + 1 {
        let m = ManifestBuilder::new()
            .lock_fee_from_faucet()
            .create_fungible_resource(OwnerRole::None, true, 0, FungibleResourceRoles::default(), metadata!(), Some(dec!(10)))
            .try_deposit_entire_worktop_or_abort(account, None)
            .build();
        let r = ledger.exec(shard, "setup:create_badge", m, vec![]);
        badges.push(r.receipt().expect_commit(true).new_resource_addresses()[0]);
    }
    let (pool, pool_actual) = gen_pool(rng, &badges);
    let mut env = Env { kind, pk, account, badges, pool, pool_actual, prop_delays: vec![None, Some(1), Some(7)], free_assets: vec![], next_mint_id: 0, upgraded: false };
    let mut ctls: Vec<Ctl> = vec![];
    let upgrade_at = if kind == "anemone-upgraded-mid-history" { Some(p.steps / 4 + rng.below(p.steps / 4 + 1)) } else { None };
    let mut tx_no = 0u64;
    while tx_no < p.steps && !(stop_after.is_none() && shard.time_up()) {
        tx_no += 1;
        if let Some(s) = stop_after {
            if tx_no > s {
                break;
            }
        }
        if Some(tx_no) == upgrade_at {
            // enact all later protocol versions on the running ledger: controllers created under the
            // v1 code keep their stored state and are from now on driven by the v2 code
            ProtocolBuilder::for_simulator().from_current_to_latest().commit_each_protocol_update(ledger.sim.substate_db_mut());
            ledger.sim.update_transaction_validator_after_manual_protocol_update();
            env.upgraded = true;
            shard.count("c40:protocol_upgrades_mid_history");
            shard.add("c40:controllers_carried_over_protocol_upgrade", ctls.len() as u64);
            let cx = Ctx { shard_index: i, ledger_no: l, tx_no, env: &mut env };
            observe_all(&ledger, shard, &cx, &mut ctls, None);
        }
        // retire finished controllers, keep the population up
        ctls.retain(|c| !(c.calls >= p.calls_per_controller && !c.withdrawn) && c.calls_after_withdraw < 8);
        while ctls.len() < p.live_controllers {
            match create_controller(&mut ledger, shard, rng, &mut env) {
                Some(c) => ctls.push(c),
                None => break,
            }
        }
        if ctls.is_empty() {
            shard.count("c40:log:no_live_controller");
            continue;
        }
        match rng.below(20) {
            0..=3 => {
                advance_time(&mut ledger, shard, rng, &ctls);
                let cx = Ctx { shard_index: i, ledger_no: l, tx_no, env: &mut env };
                observe_all(&ledger, shard, &cx, &mut ctls, None);
            }
            _ => {
                let k = rng.usize_below(ctls.len());
                let mut cx = Ctx { shard_index: i, ledger_no: l, tx_no, env: &mut env };
                controller_tx(&mut ledger, shard, rng, &mut cx, &mut ctls, k);
            }
        }
    }
    if stop_after.is_none() {
        rv_ledger::walkers::walk_all(shard, &ledger, "end of C40 history");
    }
    shard.count("c40:histories");
    shard.max("c40:transactions_in_one_history", tx_no);
}

fn spec(args: &Args) -> Spec {
    let q = args.tier == Tier::Quick;
    Spec::new(
        "C40",
        "exploration",
        "per shard 2 (quick) / as many as fit the time budget (thorough) ledger histories of 3000 transactions each (latest protocol = v2 controller code; Anemone = v1 code; Anemone upgraded to latest mid-history = v1-created state driven by v2 code) with 3 live access controllers at a time over fungible / non-fungible controlled assets, each driven for ~40 calls: every method (create_proof, initiate/cancel/quick-confirm recovery and badge withdraw for both proposers, timed_confirm_recovery, stop_timed_recovery, lock/unlock primary, mint_recovery_badges, lock/withdraw/contribute recovery fee, plus direct role-assignment `set` calls on the controller) called with the natural role, one/two/all roles, the proposer's own role, no badge, a foreign badge or a random subset of 6 role badges; proposals from a pool of 4 rule sets x 3 delays so equal / near-miss / other-proposer contents collide; 1-3 calls per transaction; consensus time advanced by real round changes to the last ms before / exactly at / into / past the timed-recovery threshold; non-trivial = a controller call; distinct = distinct (method, roles held by caller, controller state, model verdict, outcome)",
    )
    .assume("\"the configured delay has elapsed\" is evaluated at the minute resolution of the consensus clock used by the controller: confirm minute >= proposal minute + delay (confirmations inside the rounding slack are counted separately)")
    .assume("the statement is read strictly: an effective timed_confirm_recovery by a caller not holding the recovery role is a violation (signature timed-confirm-by-caller-without-recovery-role, raised only when the proposal is the recovery role's own, identical, still timed and the delay has elapsed); the method is Public in the v1 and v2 auth templates, so this is expected as a known finding; such confirmations are also counted")
    .assume("a quick confirmation or badge withdrawal resets the controller (all pending proposals dropped, primary unlocked), as documented; the model follows this")
    .assume("roles are decided by the harness from the badges presented in the transaction and the rule set in force per its own model, not by the engine's auth module")
    .floor("c40:effective_recoveries:quick:primary-proposed", if q { 40 } else { 400 })
    .floor("c40:effective_recoveries:quick:recovery-proposed", if q { 40 } else { 400 })
    .floor("c40:effective_recoveries:timed", if q { 30 } else { 300 })
    .floor("c40:badge_withdrawals", if q { 20 } else { 200 })
    .floor("c40:refused_confirms:recovery-proposal-confirmed-by-the-proposing-role-itself", if q { 40 } else { 400 })
    .floor("c40:refused_confirms:withdraw-attempt-confirmed-by-the-proposing-role-itself", if q { 10 } else { 100 })
    .floor("c40:refused_confirms:recovery-confirmed-with-content-different-from-pending-proposal", if q { 40 } else { 400 })
    .floor("c40:refused_confirms:timed-confirm-before-configured-delay-elapsed", if q { 30 } else { 300 })
    .floor("c40:refused_confirms:timed-confirm-of-recovery-without-running-timer", if q { 10 } else { 100 })
    .floor("c40:create_proof_attempts_while_locked", if q { 50 } else { 500 })
    .floor("c40:refused_other:create_proof-while-primary-role-locked", if q { 30 } else { 300 })
    .floor("c40:refused_other:rule-replaced-by-direct-role-assignment-call", if q { 20 } else { 200 })
    .floor("c40:time_advances_crossing_a_delay", if q { 30 } else { 300 })
    .floor("c40:stored_rule_sets_compared", if q { 10_000 } else { 100_000 })
    .floor("c40:controllers_created", if q { 100 } else { 1000 })
}

pub fn run(args: &Args) -> i32 {
    let mut report = Report::new(args, spec(args));
    if let Some(path) = &args.replay {
        return replay(args, path, report);
    }
    let p = params(args, args.tier);
    let budget = Duration::from_secs(budget_secs(args.tier, 60, 900));
    report.run_shards(40, args.threads, budget, |i, _rng, shard| run_shard(i, shard, &p));
    report.finish()
}

/// Re-runs the recorded ledger history (same seed, shard and ledger number) up to and including
/// the recorded transaction and reports whether the same violation class shows up again.
fn replay(args: &Args, path: &std::path::Path, mut report: Report) -> i32 {
    let doc: Value = serde_json::from_str(&std::fs::read_to_string(path).expect("replay file")).expect("json");
    let c = &doc["detail"]["replay"];
    let (Some(shard_index), Some(ledger_no), Some(tx_no)) = (c["shard"].as_u64(), c["ledger"].as_u64(), c["tx_no"].as_u64()) else {
        println!("replay file carries no (shard, ledger, tx_no) coordinates: {}", doc["detail"]);
        return 2;
    };
    let tier = if doc["tier"].as_str() == Some("thorough") { Tier::Thorough } else { Tier::Quick };
    let mut p = params(args, tier);
    p.seed = doc["seed"].as_i64().map(|s| s as u64).unwrap_or(args.seed);
    let signature = doc["signature"].as_str().unwrap_or("").to_string();
    let mut shard = Shard::new(shard_index as usize, "C40", tier, std::time::Instant::now() + Duration::from_secs(3600));
    run_ledger(shard_index as usize, ledger_no, &mut shard, &p, Some(tx_no));
    let again = shard.violations.iter().filter(|v| v.signature == signature).count();
    println!("replayed ledger {ledger_no} of shard {shard_index}, seed {} up to transaction {tx_no}: {} violation(s), {} with the recorded signature {signature}", p.seed, shard.violations.len(), again);
    for v in &shard.violations {
        println!("  {} {}", v.signature, v.detail["transaction"]);
    }
    report.merge(shard);
    report.spec.floors.clear();
    report.finish()
}
