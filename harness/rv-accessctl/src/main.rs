//! Access-controller checks (C40): a safety monitor over histories of access-controller calls.
mod c40;

fn main() {
    let args = rv_common::parse_args();
    let code = match args.prop.as_str() {
        "C40" => c40::run(&args),
        other => {
            eprintln!("rv-accessctl: no check named {other}");
            2
        }
    };
    std::process::exit(code);
}
