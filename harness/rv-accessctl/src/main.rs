fn main() {
    let args = rv_common::parse_args();
    eprintln!("no check named {}", args.prop);
    std::process::exit(2);
}
