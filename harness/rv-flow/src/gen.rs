//! Generator of hostile instruction sequences. It steps a copy of the reference model while it
//! generates so that it can aim at boundaries (exactly the balance, exactly the withdrawable
//! amount under a lock, one unit more, divisibility violations, stale ids ...).
use crate::ins::*;
use crate::model::*;
use crate::world::*;
use num_bigint::BigInt;
use num_traits::Zero;
use rv_common::Rng;
use rv_ledger::prelude::Decimal;
use std::collections::{BTreeMap, BTreeSet};

#[derive(Clone, Debug)]
pub struct Profile {
    pub name: &'static str,
    /// chance (percent) that a case is a V2 manifest
    pub v2_pct: u64,
    /// per-instruction chance (percent) of a deliberately bad bucket / proof id
    pub bad_id_pct: u64,
    /// chance (percent) that an amount / id choice is taken from the hostile classes
    pub hostile_amount_pct: u64,
    pub w_proof: u64,
    pub w_assert: u64,
    pub w_flow: u64,
    pub w_drop_auth: u64,
    pub w_lock_scenario: u64,
    pub w_compose_scenario: u64,
    /// recall from / burn inside observed accounts allowed?
    pub direct_vault_ops: bool,
    pub faucet_free_pct: u64,
    /// chance (percent) of a tidy ending (everything returned / deposited)
    pub tidy_pct: u64,
    pub max_len: usize,
}

pub const P_C09: Profile = Profile { name: "c09", direct_vault_ops: true, faucet_free_pct: 3, v2_pct: 50, bad_id_pct: 3, hostile_amount_pct: 25, w_proof: 2, w_assert: 6, w_flow: 10, w_drop_auth: 1, w_lock_scenario: 1, w_compose_scenario: 0, tidy_pct: 80, max_len: 22 };
pub const P_C10: Profile = Profile { name: "c10", direct_vault_ops: true, faucet_free_pct: 3, v2_pct: 30, bad_id_pct: 1, hostile_amount_pct: 30, w_proof: 6, w_assert: 1, w_flow: 8, w_drop_auth: 1, w_lock_scenario: 8, w_compose_scenario: 5, tidy_pct: 90, max_len: 24 };
pub const P_C36: Profile = Profile { name: "c36", direct_vault_ops: true, faucet_free_pct: 3, v2_pct: 50, bad_id_pct: 8, hostile_amount_pct: 15, w_proof: 6, w_assert: 2, w_flow: 10, w_drop_auth: 2, w_lock_scenario: 2, w_compose_scenario: 1, tidy_pct: 85, max_len: 20 };
pub const P_C38: Profile = Profile { name: "c38", direct_vault_ops: false, faucet_free_pct: 12, v2_pct: 70, bad_id_pct: 0, hostile_amount_pct: 6, w_proof: 1, w_assert: 6, w_flow: 12, w_drop_auth: 0, w_lock_scenario: 0, w_compose_scenario: 0, tidy_pct: 97, max_len: 18 };

pub struct Case {
    pub ins: Vec<Ins>,
    pub v2: bool,
}

fn unit_dec(info: &ResInfo) -> BigInt {
    info.unit()
}

fn to_dec(a: &BigInt) -> Decimal {
    // clamp into Decimal range
    let max = big_of(Decimal::MAX);
    let min = big_of(Decimal::MIN);
    if *a > max {
        Decimal::MAX
    } else if *a < min {
        Decimal::MIN
    } else {
        dec_of(a)
    }
}

/// Amount aimed at the boundaries of (total, free = withdrawable) of a container.
pub fn pick_amount(rng: &mut Rng, p: &Profile, info: &ResInfo, total: &BigInt, free: &BigInt) -> Decimal {
    let u = unit_dec(info);
    if rng.below(100) < p.hostile_amount_pct {
        let a = match rng.below(14) {
            0 => free + &u,
            1 => total + &u,
            2 => free.clone(),
            3 => total.clone(),
            4 => {
                // divisibility violation just below the withdrawable amount
                if info.divisibility < 18 || !info.fungible {
                    free - (&u / 2u32)
                } else {
                    free - 1u32
                }
            }
            5 => BigInt::from(1u32), // one atto
            6 => -u.clone(),
            7 => return Decimal::MAX,
            8 => BigInt::zero(),
            9 => free - &u,
            10 => (free + &u / 10u32).max(BigInt::zero()),
            11 => (total - free).max(BigInt::zero()), // exactly the locked part
            12 => free + 1u32,
            _ => total * 2u32,
        };
        return to_dec(&a);
    }
    // well-formed amounts within what can be taken
    let units_free = (free / &u).to_string().parse::<u64>().unwrap_or(0);
    if units_free == 0 {
        return to_dec(&BigInt::zero());
    }
    let n = match rng.below(6) {
        0 => units_free,
        1 => 1,
        2 => units_free / 2,
        _ => rng.range(1, units_free.min(if info.fungible { 5000 } else { 3 })),
    };
    to_dec(&(BigInt::from(n) * &u))
}

fn pick_ids(rng: &mut Rng, p: &Profile, all: &BTreeSet<u64>, locked: &BTreeSet<u64>) -> Vec<u64> {
    let free: Vec<u64> = all.difference(locked).cloned().collect();
    let allv: Vec<u64> = all.iter().cloned().collect();
    if rng.below(100) < p.hostile_amount_pct {
        match rng.below(7) {
            0 => return allv,                                             // everything, including locked ids
            1 => return locked.iter().take(1).cloned().collect(),         // a locked id
            2 => return vec![9_000_000 + rng.below(5)],                   // absent id
            3 => return vec![],                                           // empty set
            4 => {
                let mut v = free.clone();
                v.push(9_000_000);
                return v;
            }
            5 => return free, // exactly the free ones
            _ => {
                // duplicate entries
                if let Some(x) = free.first() {
                    return vec![*x, *x];
                }
                return vec![];
            }
        }
    }
    if free.is_empty() {
        return vec![];
    }
    let k = match rng.below(4) {
        0 => free.len(),
        _ => rng.range(1, free.len().min(3) as u64) as usize,
    };
    let mut f = free;
    rng.shuffle(&mut f);
    f.truncate(k);
    f.sort();
    f
}

/// A constraint for a balance; `violate` steers towards one the balance does not satisfy.
fn cons_for(rng: &mut Rng, info: &ResInfo, h: Option<&Holding>, violate: bool) -> Cons {
    let mut c = cons_any(rng, info, h);
    for _ in 0..8 {
        if eval_cons(&c, h) != violate {
            break;
        }
        c = cons_any(rng, info, h);
    }
    c
}

fn cons_any(rng: &mut Rng, info: &ResInfo, h: Option<&Holding>) -> Cons {
    let u = info.unit();
    let amount = h.map(|h| h.amount()).unwrap_or_else(BigInt::zero);
    let below = (&amount - &u).max(BigInt::zero());
    if info.fungible {
        match rng.below(9) {
            0 => Cons::NonZero,
            1 => Cons::Exact(to_dec(&amount)),
            2 => Cons::AtLeast(to_dec(&amount)),
            3 => Cons::AtLeast(to_dec(&(&amount + &u))),
            4 => Cons::Exact(to_dec(&below)),
            5 => Cons::General { required: vec![], lower: Some(to_dec(&amount)), upper: Some(to_dec(&amount)), allowed: None },
            6 => Cons::General { required: vec![], lower: Some(to_dec(&BigInt::zero())), upper: Some(to_dec(&below)), allowed: None },
            7 => Cons::General { required: vec![], lower: None, upper: None, allowed: None },
            _ => Cons::AtLeast(to_dec(&below)),
        }
    } else {
        let ids: Vec<u64> = match h {
            Some(Holding::N(s)) => s.iter().cloned().collect(),
            _ => vec![],
        };
        let mut minus_one = ids.clone();
        minus_one.pop();
        let mut plus_one = ids.clone();
        plus_one.push(9_100_000);
        let n = ids.len() as u32;
        match rng.below(12) {
            0 => Cons::NonZero,
            1 => Cons::ExactNf(ids),
            2 => Cons::AtLeastNf(minus_one),
            3 => Cons::ExactNf(minus_one),
            4 => Cons::AtLeastNf(plus_one),
            5 => Cons::Exact(Decimal::from(n)),
            6 => Cons::AtLeast(Decimal::from(n + 1)),
            7 => Cons::General { required: minus_one, lower: Some(Decimal::from(n)), upper: Some(Decimal::from(n)), allowed: Some(plus_one) },
            8 => Cons::General { required: vec![], lower: Some(Decimal::ZERO), upper: None, allowed: Some(minus_one) },
            9 => Cons::General { required: ids, lower: None, upper: Some(Decimal::from(n)), allowed: None },
            10 => Cons::General { required: vec![], lower: Some(Decimal::ZERO), upper: Some(Decimal::from(n.saturating_sub(1))), allowed: None },
            _ => Cons::AtLeast(Decimal::from(n)),
        }
    }
}

struct Gen<'a> {
    rng: &'a mut Rng,
    p: Profile,
    m: Model,
    v2: bool,
    out: Vec<Ins>,
    stopped: bool,
    n_acct: usize,
    violate_pct: u64,
    /// ids that existed and were consumed (for deliberate re-use)
    dead_buckets: Vec<u32>,
    dead_proofs: Vec<u32>,
    /// the instruction the model refuses, and why
    failed: Option<(Ins, FailClass)>,
}

impl<'a> Gen<'a> {
    fn push(&mut self, i: Ins) {
        if self.stopped {
            self.out.push(i);
            return;
        }
        let (b0, p0): (Vec<u32>, Vec<u32>) = (self.m.buckets.keys().cloned().collect(), self.m.proofs.keys().cloned().collect());
        let before = self.m.clone();
        match self.m.step(&i) {
            Ok(()) => {}
            Err(stop) => {
                // keep the state in front of the failing instruction (for the blind tidy ending)
                self.m = before;
                self.stopped = true;
                if let Stop::Fail(class) = stop {
                    self.failed = Some((i.clone(), class));
                }
                self.out.push(i);
                return;
            }
        }
        let died_b: Vec<u32> = b0.into_iter().filter(|b| !self.m.buckets.contains_key(b)).collect();
        let died_p: Vec<u32> = p0.into_iter().filter(|p| !self.m.proofs.contains_key(p)).collect();
        self.dead_buckets.extend(died_b.iter().cloned());
        self.dead_proofs.extend(died_p.iter().cloned());
        self.out.push(i);
        // deliberate use-after-consume right behind the consuming instruction
        if !self.stopped && self.rng.below(100) < self.p.bad_id_pct * 2 {
            if let Some(b) = died_b.first().cloned() {
                let a = self.acct();
                let again = match self.rng.below(5) {
                    0 => Ins::Return { bucket: b },
                    1 => Ins::Burn { bucket: b },
                    2 => Ins::Deposit { acct: a, bucket: b, kind: DepKind::TryAbort },
                    3 => Ins::ProofFromBucketAll { bucket: b },
                    _ => Ins::DepositBatch { acct: a, buckets: vec![b], kind: DepKind::TryAbort },
                };
                self.push(again);
            } else if let Some(p) = died_p.first().cloned() {
                let again = match self.rng.below(3) {
                    0 => Ins::DropProof { proof: p },
                    1 => Ins::CloneProof { proof: p },
                    _ => Ins::PushAz { proof: p },
                };
                self.push(again);
            }
        }
    }

    fn acct(&mut self) -> usize {
        self.rng.usize_below(self.n_acct)
    }
    fn bucket_burnable(&self, b: u32) -> bool {
        self.m.buckets.get(&b).map(|c| self.m.res[self.m.containers[*c].res].burnable).unwrap_or(true)
    }
    fn wild(&mut self) -> bool {
        self.rng.below(100) < self.p.hostile_amount_pct
    }
    /// should the next assertion be one that does not hold?
    fn violate(&mut self) -> bool {
        self.rng.below(100) < self.violate_pct
    }
    fn res(&mut self) -> usize {
        self.rng.usize_below(self.m.res.len())
    }

    fn some_bucket(&mut self) -> Option<u32> {
        if self.rng.below(100) < self.p.bad_id_pct {
            // stale or never-created id
            if !self.dead_buckets.is_empty() && self.rng.bool() {
                return Some(*self.rng.pick(&self.dead_buckets));
            }
            return Some(match self.rng.below(3) {
                0 => self.m.next_bucket + self.rng.below(3) as u32,
                1 => self.rng.below(self.m.next_bucket.max(1) as u64) as u32,
                _ => u32::MAX - self.rng.below(2) as u32,
            });
        }
        let ks: Vec<u32> = self.m.buckets.keys().cloned().collect();
        if ks.is_empty() {
            None
        } else {
            Some(*self.rng.pick(&ks))
        }
    }

    fn some_proof(&mut self) -> Option<u32> {
        if self.rng.below(100) < self.p.bad_id_pct {
            if !self.dead_proofs.is_empty() && self.rng.bool() {
                return Some(*self.rng.pick(&self.dead_proofs));
            }
            return Some(match self.rng.below(2) {
                0 => self.m.next_proof + self.rng.below(3) as u32,
                _ => self.rng.below(self.m.next_proof.max(1) as u64) as u32,
            });
        }
        let ks: Vec<u32> = self.m.proofs.keys().cloned().collect();
        if ks.is_empty() {
            None
        } else {
            Some(*self.rng.pick(&ks))
        }
    }

    fn container_amounts(&self, c: usize) -> (BigInt, BigInt, BTreeSet<u64>, BTreeSet<u64>) {
        let ct = &self.m.containers[c];
        match &ct.hold {
            Holding::F(t) => (t.clone(), t - ct.locked_amount(), BTreeSet::new(), BTreeSet::new()),
            Holding::N(s) => {
                let l = ct.locked_ids();
                let free = s.difference(&l).count();
                (BigInt::from(s.len()) * one(), BigInt::from(free) * one(), s.clone(), l)
            }
        }
    }

    fn dep_kind(&mut self) -> DepKind {
        if !self.m.sigs_present && self.rng.chance(4, 5) {
            return *self.rng.pick(&[DepKind::TryAbort, DepKind::TryRefund]);
        }
        *self.rng.pick(&[DepKind::Deposit, DepKind::Deposit, DepKind::TryAbort, DepKind::TryRefund])
    }

    fn op_source(&mut self) {
        // bring resources in: withdraw / recall, sometimes with a next-call assertion in front
        if !self.m.faucet_free_used && self.rng.below(100) < self.p.faucet_free_pct {
            if self.p.name == "c38" && self.rng.chance(1, 2) {
                // a deposit with statically known XRD content into an account, then the faucet's
                // statically unknown return deposited into the SAME account (the analyser has to
                // widen the bounds of the earlier, known deposit)
                if let Some(xrd) = self.m.res.iter().position(|r| r.name == "XRD") {
                    let (a, x) = (self.acct(), self.acct());
                    let v = self.m.vaults[&(a, xrd)];
                    let info = self.m.res[xrd].clone();
                    let (total, free, _, _) = self.container_amounts(v);
                    let amt = pick_amount(self.rng, &self.p, &info, &total, &free);
                    self.push(Ins::Withdraw { acct: a, res: xrd, amount: amt });
                    let kind = self.dep_kind();
                    self.push(Ins::DepositWorktop { acct: x, kind });
                    self.push(Ins::FaucetFree);
                    if self.rng.bool() {
                        let kind = self.dep_kind();
                        self.push(Ins::DepositWorktop { acct: x, kind });
                    }
                    return;
                }
            }
            return self.push(Ins::FaucetFree);
        }
        let (a, r) = (self.acct(), self.res());
        let v = self.m.vaults[&(a, r)];
        let info = self.m.res[r].clone();
        let (total, free, ids, locked) = self.container_amounts(v);
        let by_ids = !info.fungible && self.rng.chance(4, 5);
        let ins = if by_ids {
            let pick = pick_ids(self.rng, &self.p, &ids, &locked);
            if self.p.direct_vault_ops && info.recallable && self.rng.chance(1, 6) {
                Ins::RecallNf { acct: a, res: r, ids: pick }
            } else {
                Ins::WithdrawNf { acct: a, res: r, ids: pick }
            }
        } else {
            let mut amt = pick_amount(self.rng, &self.p, &info, &total, &free);
            if !info.fungible {
                // amount-based non-fungible withdrawal: keep to the deterministic cases mostly
                let wild = self.wild();
                amt = match self.rng.below(8) {
                    0 | 4 | 5 => to_dec(&free),
                    1 => Decimal::ZERO,
                    2 if wild => to_dec(&(&free + one())),
                    3 if wild => to_dec(&(one() / 2u32)),
                    _ => amt,
                };
            }
            if self.p.direct_vault_ops && info.recallable && self.rng.chance(1, 6) && info.fungible {
                Ins::Recall { acct: a, res: r, amount: amt }
            } else {
                Ins::Withdraw { acct: a, res: r, amount: amt }
            }
        };
        if self.v2 && self.rng.below(100) < self.p.w_assert * 3 {
            // assertion about what the next call returns
            let mut probe = self.m.clone();
            let before = probe.worktop_holding(r).cloned();
            let returned: Option<Holding> = if probe.step(&ins).is_ok() {
                // what arrived = after - before (fresh model: compute from the instruction)
                match (&ins, probe.worktop_holding(r), before) {
                    (_, Some(Holding::F(after)), Some(Holding::F(b))) => Some(Holding::F(after - b)),
                    (_, Some(Holding::F(after)), None) => Some(Holding::F(after.clone())),
                    (_, Some(Holding::N(after)), Some(Holding::N(b))) => Some(Holding::N(after.difference(&b).cloned().collect())),
                    (_, Some(Holding::N(after)), None) => Some(Holding::N(after.clone())),
                    _ => None,
                }
            } else {
                None
            };
            let mut cons = vec![(r, { let v = self.violate(); cons_for(self.rng, &info, returned.as_ref(), v) })];
            if self.rng.chance(1, 4) {
                let other = (r + 1) % self.m.res.len();
                let oi = self.m.res[other].clone();
                cons.push((other, { let v = self.violate(); cons_for(self.rng, &oi, None, v) }));
            }
            let only = self.rng.bool();
            if self.rng.chance(1, 8) && (!only || self.violate()) {
                cons.clear();
            }
            self.push(if only { Ins::AssertNextCallOnly { cons } } else { Ins::AssertNextCallInclude { cons } });
        }
        self.push(ins);
    }

    fn op_take(&mut self) {
        let on_wt: Vec<usize> = self.m.worktop.keys().cloned().collect();
        let r = if !on_wt.is_empty() && self.rng.chance(9, 10) { *self.rng.pick(&on_wt) } else { self.res() };
        let info = self.m.res[r].clone();
        let (total, free, ids, locked) = match self.m.worktop.get(&r) {
            Some(c) => self.container_amounts(*c),
            None => (BigInt::zero(), BigInt::zero(), BTreeSet::new(), BTreeSet::new()),
        };
        let ins = match self.rng.below(10) {
            0 | 1 => Ins::TakeAll { res: r },
            _ if !info.fungible && self.rng.chance(4, 5) => Ins::TakeNf { res: r, ids: pick_ids(self.rng, &self.p, &ids, &locked) },
            _ => {
                let mut amt = pick_amount(self.rng, &self.p, &info, &total, &free);
                if self.rng.chance(1, 5) {
                    amt = to_dec(&total); // the bucket-move path
                }
                if !info.fungible {
                    let wild = self.wild();
                    amt = match self.rng.below(6) {
                        0 | 4 => to_dec(&total),
                        1 => Decimal::ZERO,
                        2 if wild => to_dec(&(&total + one())),
                        3 if wild => to_dec(&(one() / 4u32)),
                        _ => amt,
                    };
                }
                Ins::Take { res: r, amount: amt }
            }
        };
        self.push(ins);
    }

    fn op_bucket_sink(&mut self) {
        let Some(b) = self.some_bucket() else { return self.op_take() };
        let ins = match self.rng.below(10) {
            0..=3 => Ins::Return { bucket: b },
            4 if self.bucket_burnable(b) || self.rng.chance(1, 5) => Ins::Burn { bucket: b },
            4 => Ins::Return { bucket: b },
            5..=7 => {
                let a = self.acct();
                let kind = self.dep_kind();
                Ins::Deposit { acct: a, bucket: b, kind }
            }
            _ => {
                let mut bs = vec![b];
                let ks: Vec<u32> = self.m.buckets.keys().cloned().collect();
                for k in ks {
                    if k != b && self.rng.bool() {
                        bs.push(k);
                    }
                }
                if self.rng.below(100) < self.p.bad_id_pct {
                    bs.push(b); // the same bucket twice
                }
                let a = self.acct();
                let kind = self.dep_kind();
                Ins::DepositBatch { acct: a, buckets: bs, kind }
            }
        };
        self.push(ins);
    }

    fn op_worktop_sink(&mut self) {
        let a = self.acct();
        let kind = self.dep_kind();
        self.push(Ins::DepositWorktop { acct: a, kind });
    }

    fn op_assert(&mut self) {
        let on_wt: Vec<usize> = self.m.worktop.keys().cloned().collect();
        let r = if !on_wt.is_empty() && self.rng.chance(4, 5) { *self.rng.pick(&on_wt) } else { self.res() };
        let info = self.m.res[r].clone();
        let h = self.m.worktop_holding(r).cloned();
        let amount = h.as_ref().map(|h| h.amount()).unwrap_or_else(BigInt::zero);
        let u = info.unit();
        let choice = self.rng.below(if self.v2 { 10 } else { 5 });
        let ins = match choice {
            0 | 1 => {
                let a = if self.violate() {
                    match self.rng.below(3) {
                        0 => &amount + &u,
                        1 => &amount + 1u32,
                        _ => &amount * 2u32 + &u,
                    }
                } else {
                    match self.rng.below(5) {
                        0 | 1 => amount.clone(),
                        2 => (&amount - &u).max(BigInt::zero()),
                        3 => BigInt::zero(),
                        _ => &amount / 2u32,
                    }
                };
                Ins::AssertContains { res: r, amount: to_dec(&a) }
            }
            2 | 3 | 4 if info.fungible || choice == 2 => {
                if amount.is_zero() && !self.violate() {
                    Ins::AssertContains { res: r, amount: Decimal::ZERO }
                } else {
                    Ins::AssertContainsAny { res: r }
                }
            }
            3 | 4 => {
                {
                    let ids: BTreeSet<u64> = match &h {
                        Some(Holding::N(s)) => s.clone(),
                        _ => BTreeSet::new(),
                    };
                    let mut pick: Vec<u64> = ids.iter().cloned().filter(|_| self.rng.bool()).collect();
                    if self.violate() {
                        pick.push(9_200_000);
                    }
                    Ins::AssertContainsNf { res: r, ids: pick }
                }
            }
            5 | 6 | 7 => {
                // worktop-wide assertion
                let only = self.rng.bool();
                let viol = self.violate();
                let mut cons = vec![];
                for rr in 0..self.m.res.len() {
                    let present = self.m.worktop.contains_key(&rr);
                    let include = if present { (only && !viol) || self.rng.chance(5, 6) } else { self.rng.chance(1, 6) };
                    if include {
                        let ii = self.m.res[rr].clone();
                        let hh = self.m.worktop_holding(rr).cloned();
                        let v = viol && self.rng.bool();
                        cons.push((rr, cons_for(self.rng, &ii, hh.as_ref(), v)));
                    }
                }
                if (viol || self.m.worktop.is_empty() || !only) && self.rng.chance(1, 6) {
                    cons.clear(); // ASSERT_WORKTOP_IS_EMPTY when `only`
                }
                if only {
                    Ins::AssertResourcesOnly { cons }
                } else {
                    Ins::AssertResourcesInclude { cons }
                }
            }
            _ => match self.some_bucket() {
                Some(b) => {
                    let (ii, hh) = match self.m.buckets.get(&b) {
                        Some(c) => (self.m.res[self.m.containers[*c].res].clone(), Some(self.m.containers[*c].hold.clone())),
                        None => (info.clone(), None),
                    };
                    Ins::AssertBucket { bucket: b, cons: { let v = self.violate(); cons_for(self.rng, &ii, hh.as_ref(), v) } }
                }
                None => Ins::AssertContainsAny { res: r },
            },
        };
        self.push(ins);
    }

    fn op_proof(&mut self) {
        match self.rng.below(12) {
            0..=2 => {
                // proof on an account vault
                let (a, r) = (self.acct(), self.res());
                let v = self.m.vaults[&(a, r)];
                let info = self.m.res[r].clone();
                let (total, _free, ids, _locked) = self.container_amounts(v);
                if info.fungible {
                    // proofs may overlap: aim relative to the total, not to the free part
                    let wild = self.wild();
                    let amt = match self.rng.below(8) {
                        0 => to_dec(&total),
                        1 if wild => to_dec(&(&total + info.unit())),
                        2 => to_dec(&info.unit()),
                        3 => pick_amount(self.rng, &self.p, &info, &total, &total),
                        _ => {
                            let units = (&total / info.unit()).to_string().parse::<u64>().unwrap_or(0).max(1);
                            to_dec(&(BigInt::from(self.rng.range(1, units)) * info.unit()))
                        }
                    };
                    self.push(Ins::AcctProofAmount { acct: a, res: r, amount: amt });
                } else {
                    let pick = pick_ids(self.rng, &self.p, &ids, &BTreeSet::new());
                    self.push(Ins::AcctProofNf { acct: a, res: r, ids: pick });
                }
            }
            3..=5 => {
                let Some(b) = self.some_bucket() else { return self.op_source() };
                let (info, total, ids) = match self.m.buckets.get(&b) {
                    Some(c) => {
                        let (t, _, ids, _) = self.container_amounts(*c);
                        (self.m.res[self.m.containers[*c].res].clone(), t, ids)
                    }
                    None => (self.m.res[0].clone(), BigInt::zero(), BTreeSet::new()),
                };
                let ins = match self.rng.below(4) {
                    0 => Ins::ProofFromBucketAll { bucket: b },
                    _ if !info.fungible => Ins::ProofFromBucketNf { bucket: b, ids: pick_ids(self.rng, &self.p, &ids, &BTreeSet::new()) },
                    _ => {
                        let wild = self.wild();
                        let amt = match self.rng.below(6) {
                            0 => to_dec(&total),
                            1 if wild => to_dec(&(&total + info.unit())),
                            2 => pick_amount(self.rng, &self.p, &info, &total, &total),
                            _ => {
                                let units = (&total / info.unit()).to_string().parse::<u64>().unwrap_or(0).max(1);
                                to_dec(&(BigInt::from(self.rng.range(1, units)) * info.unit()))
                            }
                        };
                        Ins::ProofFromBucketAmount { bucket: b, amount: amt }
                    }
                };
                self.push(ins);
            }
            6 => {
                if let Some(p) = self.some_proof() {
                    self.push(Ins::CloneProof { proof: p });
                }
            }
            7 | 8 => {
                if let Some(p) = self.some_proof() {
                    self.push(Ins::DropProof { proof: p });
                } else if !self.m.auth_zone.is_empty() {
                    self.push(Ins::PopAz);
                }
            }
            9 => {
                if !self.m.auth_zone.is_empty() || self.rng.chance(1, 10) {
                    self.push(Ins::PopAz);
                } else if let Some(p) = self.some_proof() {
                    self.push(Ins::PushAz { proof: p });
                }
            }
            10 => {
                if let Some(p) = self.some_proof() {
                    self.push(Ins::PushAz { proof: p });
                }
            }
            _ => {
                // composed proof from the auth zone
                let rs: Vec<usize> = self.m.auth_zone.iter().map(|u| self.m.proof_tab[*u].res).collect();
                if rs.is_empty() && !self.wild() {
                    return self.op_vault_lock_scenario();
                }
                let r = if rs.is_empty() { self.res() } else { *self.rng.pick(&rs) };
                let info = self.m.res[r].clone();
                let ins = match self.rng.below(3) {
                    0 => Ins::ProofFromAzAll { res: r },
                    _ if info.fungible => {
                        let max: BigInt = self.m.auth_zone.iter().filter(|u| self.m.proof_tab[**u].res == r).flat_map(|u| self.m.proof_tab[*u].evidence.iter()).filter_map(|(_, l)| if let Lock::F(a) = l { Some(a.clone()) } else { None }).max().unwrap_or_else(BigInt::zero);
                        Ins::ProofFromAzAmount { res: r, amount: pick_amount(self.rng, &self.p, &info, &max, &max) }
                    }
                    _ => {
                        let ids: BTreeSet<u64> = self.m.auth_zone.iter().filter(|u| self.m.proof_tab[**u].res == r).flat_map(|u| self.m.proof_tab[*u].evidence.iter()).filter_map(|(_, l)| if let Lock::N(s) = l { Some(s.clone()) } else { None }).flatten().collect();
                        Ins::ProofFromAzNf { res: r, ids: pick_ids(self.rng, &self.p, &ids, &BTreeSet::new()) }
                    }
                };
                self.push(ins);
            }
        }
    }

    /// amount relative to the withdrawable part of a (possibly locked) container
    fn boundary_amount(&mut self, info: &ResInfo, total: &BigInt, free: &BigInt) -> (Decimal, &'static str) {
        let u = info.unit();
        let wild = self.p.hostile_amount_pct > 0;
        match self.rng.below(if wild { 10 } else { 4 }) {
            0 | 1 => (to_dec(free), "exactly-withdrawable"),
            2 => (to_dec(&(free - &u).max(BigInt::zero())), "one-unit-below"),
            3 => (to_dec(&(free / 2u32 / &u * &u)), "half"),
            4 | 5 => (to_dec(&(free + &u)), "one-unit-above"),
            6 => (to_dec(&(free + 1u32)), "one-atto-above"),
            7 => (to_dec(total), "whole-content"),
            8 => (to_dec(&(free - &u / 2u32)), "divisibility-violation"),
            _ => (to_dec(&(total - free)), "exactly-the-locked-part"),
        }
    }

    /// proofs on an account vault, then a withdrawal / burn / recall aimed at the lock boundary,
    /// optionally releasing the proofs first
    fn op_vault_lock_scenario(&mut self) {
        let (a, r) = (self.acct(), self.res());
        let v = self.m.vaults[&(a, r)];
        let info = self.m.res[r].clone();
        let n_proofs = self.rng.range(1, 3);
        for _ in 0..n_proofs {
            if self.stopped {
                return;
            }
            let (total, _f, ids, _l) = self.container_amounts(v);
            if info.fungible {
                let units = (&total / info.unit()).to_string().parse::<u64>().unwrap_or(0);
                if units == 0 {
                    return;
                }
                let amt = match self.rng.below(5) {
                    0 => total.clone(),
                    1 => info.unit(),
                    _ => BigInt::from(self.rng.range(1, units)) * info.unit(),
                };
                self.push(Ins::AcctProofAmount { acct: a, res: r, amount: to_dec(&amt) });
            } else {
                let mut pick: Vec<u64> = ids.iter().cloned().filter(|_| self.rng.chance(1, 3)).collect();
                if pick.is_empty() {
                    match ids.iter().next() {
                        Some(x) => pick.push(*x),
                        None => return,
                    }
                }
                self.push(Ins::AcctProofNf { acct: a, res: r, ids: pick });
            }
            // sometimes shuffle the proof through named form: pop, clone, drop one of the two
            if !self.stopped && self.rng.chance(1, 3) {
                self.push(Ins::PopAz);
                if let Some((&p, _)) = self.m.proofs.iter().next_back() {
                    match self.rng.below(4) {
                        0 => {
                            self.push(Ins::CloneProof { proof: p });
                            self.push(Ins::DropProof { proof: p });
                        }
                        1 => self.push(Ins::PushAz { proof: p }),
                        2 => self.push(Ins::CloneProof { proof: p }),
                        _ => {}
                    }
                }
            }
        }
        if self.stopped {
            return;
        }
        let release = self.rng.chance(1, 3);
        if release {
            // all proofs gone: the full amount must be withdrawable again
            if !self.m.proofs.is_empty() {
                self.push(Ins::DropNamedProofs);
            }
            self.push(Ins::DropAzRegular);
        }
        let (total, free, ids, locked) = self.container_amounts(v);
        let ins = if info.fungible {
            let (amt, _) = if release && self.rng.chance(2, 3) { (to_dec(&total), "whole-after-release") } else { self.boundary_amount(&info, &total, &free) };
            match self.rng.below(5) {
                0 if info.burnable => Ins::AcctBurn { acct: a, res: r, amount: if big_of(amt) > BigInt::from(40u32) * one() && self.rng.chance(3, 4) { to_dec(&(info.unit() * 2u32)) } else { amt } },
                1 if info.recallable => Ins::Recall { acct: a, res: r, amount: amt },
                _ => Ins::Withdraw { acct: a, res: r, amount: amt },
            }
        } else {
            let free_ids: Vec<u64> = ids.difference(&locked).cloned().collect();
            let wild = self.p.hostile_amount_pct > 0;
            let pick: Vec<u64> = match self.rng.below(if wild { 6 } else { 3 }) {
                0 => free_ids.clone(),
                1 | 2 => free_ids.iter().take(2).cloned().collect(),
                3 => locked.iter().take(1).cloned().collect(),
                4 => ids.iter().cloned().collect(),
                _ => {
                    let mut x: Vec<u64> = free_ids.iter().take(1).cloned().collect();
                    x.extend(locked.iter().take(1));
                    x
                }
            };
            match self.rng.below(5) {
                0 => Ins::RecallNf { acct: a, res: r, ids: pick },
                1 if pick.len() <= 1 => Ins::AcctBurnNf { acct: a, res: r, ids: pick },
                _ => Ins::WithdrawNf { acct: a, res: r, ids: pick },
            }
        };
        self.push(ins);
    }

    /// a bucket with live proofs: take / return / burn / deposit around the lock boundary
    fn op_bucket_lock_scenario(&mut self) {
        // get a bucket
        if self.m.buckets.is_empty() {
            if self.m.worktop.is_empty() {
                self.op_source();
            }
            if self.stopped {
                return;
            }
            let on_wt: Vec<usize> = self.m.worktop.keys().cloned().collect();
            if on_wt.is_empty() {
                return;
            }
            let r = *self.rng.pick(&on_wt);
            self.push(Ins::TakeAll { res: r });
        }
        if self.stopped {
            return;
        }
        let ks: Vec<u32> = self.m.buckets.keys().cloned().collect();
        let b = *self.rng.pick(&ks);
        let c = self.m.buckets[&b];
        let r = self.m.containers[c].res;
        let info = self.m.res[r].clone();
        let n_proofs = self.rng.range(1, 3);
        for _ in 0..n_proofs {
            if self.stopped {
                return;
            }
            let (total, _f, ids, _l) = self.container_amounts(c);
            if total.is_zero() {
                return;
            }
            let ins = if info.fungible {
                let units = (&total / info.unit()).to_string().parse::<u64>().unwrap_or(1).max(1);
                match self.rng.below(4) {
                    0 => Ins::ProofFromBucketAll { bucket: b },
                    _ => Ins::ProofFromBucketAmount { bucket: b, amount: to_dec(&(BigInt::from(self.rng.range(1, units)) * info.unit())) },
                }
            } else {
                let mut pick: Vec<u64> = ids.iter().cloned().filter(|_| self.rng.chance(1, 3)).collect();
                if pick.is_empty() {
                    pick.extend(ids.iter().take(1));
                }
                if self.rng.chance(1, 4) {
                    Ins::ProofFromBucketAll { bucket: b }
                } else {
                    Ins::ProofFromBucketNf { bucket: b, ids: pick }
                }
            };
            self.push(ins);
        }
        if self.stopped {
            return;
        }
        let release = self.rng.chance(1, 3);
        if release && !self.m.proofs.is_empty() {
            self.push(Ins::DropNamedProofs);
        }
        match self.rng.below(8) {
            0 if info.burnable => self.push(Ins::Burn { bucket: b }),
            0 | 1 | 2 => {
                let a = self.acct();
                let kind = self.dep_kind();
                self.push(Ins::Deposit { acct: a, bucket: b, kind });
            }
            _ => {
                // put the (locked) bucket on the worktop and take from it there
                self.push(Ins::Return { bucket: b });
                if self.stopped {
                    return;
                }
                let Some(&wc) = self.m.worktop.get(&r) else { return };
                let (total, free, ids, locked) = self.container_amounts(wc);
                let ins = if info.fungible {
                    let (amt, _) = self.boundary_amount(&info, &total, &free);
                    Ins::Take { res: r, amount: amt }
                } else {
                    let free_ids: Vec<u64> = ids.difference(&locked).cloned().collect();
                    let wild = self.p.hostile_amount_pct > 0;
                    match self.rng.below(if wild { 5 } else { 3 }) {
                        0 => Ins::TakeNf { res: r, ids: free_ids },
                        1 => Ins::TakeNf { res: r, ids: free_ids.into_iter().take(1).collect() },
                        2 => Ins::TakeAll { res: r },
                        3 => Ins::TakeNf { res: r, ids: locked.iter().take(1).cloned().collect() },
                        _ => Ins::TakeNf { res: r, ids: ids.iter().cloned().collect() },
                    }
                };
                self.push(ins);
                if !self.stopped && self.rng.chance(1, 4) {
                    // hand the rest (still locked) to an account: must be refused while proofs live
                    let a = self.acct();
                    let kind = self.dep_kind();
                    self.push(Ins::DepositWorktop { acct: a, kind });
                }
            }
        }
    }

    /// Overlapping proofs on ONE container pushed to the auth zone in ascending / descending / equal
    /// order (optionally a second container), then a composition from the auth zone aimed at the
    /// backing that is really there: max per container (summed over containers), one unit more,
    /// the sum of the proofs, one unit more than the sum.
    fn op_composition_scenario(&mut self) {
        // a single-kind zone in a good share of cases (mixed kinds hit the known C11 trap)
        if !self.m.auth_zone.is_empty() && self.rng.chance(4, 5) {
            self.push(Ins::DropAzRegular);
        }
        let fungibles: Vec<usize> = (0..self.m.res.len()).filter(|r| self.m.res[*r].fungible).collect();
        let nfs: Vec<usize> = (0..self.m.res.len()).filter(|r| !self.m.res[*r].fungible).collect();
        if self.rng.chance(1, 6) && !nfs.is_empty() {
            let rr = *self.rng.pick(&nfs);
            return self.nf_composition(rr);
        }
        let r = *self.rng.pick(&fungibles);
        let info = self.m.res[r].clone();
        let u = info.unit();
        let n = self.rng.range(2, 3) as usize;
        let mut all_amounts: Vec<BigInt> = vec![];
        let mut avail = BigInt::zero();
        let n_containers = if self.rng.chance(1, 5) { 2 } else { 1 };
        let via_bucket = self.rng.chance(1, 3);
        let mut used_accts: Vec<usize> = vec![];
        for k in 0..n_containers {
            if self.stopped {
                return;
            }
            // the container: an account vault, or a fresh bucket (first container only)
            let mut a = self.acct();
            while used_accts.contains(&a) {
                a = (a + 1) % self.n_acct;
            }
            used_accts.push(a);
            let bucket: Option<u32> = if via_bucket && k == 0 {
                let v = self.m.vaults[&(a, r)];
                let (_t, free, _, _) = self.container_amounts(v);
                let units = (&free / &u).to_string().parse::<u64>().unwrap_or(0);
                if units < 4 {
                    return;
                }
                let x = BigInt::from(self.rng.range(4, units.min(60))) * &u;
                self.push(Ins::Withdraw { acct: a, res: r, amount: to_dec(&x) });
                if self.stopped {
                    return;
                }
                self.push(Ins::TakeAll { res: r });
                self.m.buckets.keys().next_back().cloned()
            } else {
                None
            };
            if self.stopped {
                return;
            }
            let c = match bucket {
                Some(b) => self.m.buckets[&b],
                None => self.m.vaults[&(a, r)],
            };
            let (total, _, _, _) = self.container_amounts(c);
            let units = (&total / &u).to_string().parse::<u64>().unwrap_or(0);
            if units < 3 {
                return;
            }
            // amounts in the chosen order
            let hi = units.min(40);
            let mut xs: Vec<u64> = (0..n).map(|_| self.rng.range(1, hi)).collect();
            match self.rng.below(4) {
                0 | 1 => {
                    xs.sort();
                    xs.dedup();
                    while xs.len() < n {
                        let last = *xs.last().unwrap();
                        if last + 1 > units {
                            break;
                        }
                        xs.push(last + 1);
                    }
                } // ascending (strictly)
                2 => {
                    xs.sort();
                    xs.reverse();
                } // descending
                _ => {
                    let x = xs[0];
                    xs = vec![x; n];
                } // equal
            }
            let mut mx = BigInt::zero();
            for x in xs {
                if self.stopped {
                    return;
                }
                let amt = BigInt::from(x) * &u;
                match bucket {
                    Some(b) => {
                        self.push(Ins::ProofFromBucketAmount { bucket: b, amount: to_dec(&amt) });
                        if self.stopped {
                            return;
                        }
                        let p = self.m.next_proof - 1;
                        self.push(Ins::PushAz { proof: p });
                    }
                    None => self.push(Ins::AcctProofAmount { acct: a, res: r, amount: to_dec(&amt) }),
                }
                if amt > mx {
                    mx = amt.clone();
                }
                all_amounts.push(amt);
            }
            avail += mx;
        }
        if self.stopped {
            return;
        }
        let sum: BigInt = all_amounts.iter().sum();
        let ins = match self.rng.below(12) {
            0 | 1 => Ins::ProofFromAzAmount { res: r, amount: to_dec(&avail) },
            2 | 3 | 4 => Ins::ProofFromAzAmount { res: r, amount: to_dec(&(&avail + &u)) },
            5 | 6 => Ins::ProofFromAzAmount { res: r, amount: to_dec(&sum) },
            7 => Ins::ProofFromAzAmount { res: r, amount: to_dec(&(&sum + &u)) },
            8 => Ins::ProofFromAzAmount { res: r, amount: to_dec(&(&avail - &u).max(u.clone())) },
            9 => Ins::ProofFromAzAmount { res: r, amount: to_dec(&(&avail + 1u32)) },
            10 => Ins::ProofFromAzAmount { res: r, amount: to_dec(all_amounts.last().unwrap()) },
            _ => Ins::ProofFromAzAll { res: r },
        };
        self.push(ins);
        // sometimes compose again on top (the composed proof is a named proof, the base is unchanged)
        if !self.stopped && self.rng.chance(1, 4) {
            self.push(Ins::ProofFromAzAmount { res: r, amount: to_dec(&(&avail + &u)) });
        }
    }

    fn nf_composition(&mut self, r: usize) {
        let a = self.acct();
        let v = self.m.vaults[&(a, r)];
        let (_, _, ids, _) = self.container_amounts(v);
        let ids: Vec<u64> = ids.into_iter().collect();
        if ids.len() < 3 {
            return;
        }
        // two overlapping id proofs {0,1} and {1,2}
        self.push(Ins::AcctProofNf { acct: a, res: r, ids: vec![ids[0], ids[1]] });
        if self.stopped {
            return;
        }
        self.push(Ins::AcctProofNf { acct: a, res: r, ids: vec![ids[1], ids[2]] });
        if self.stopped {
            return;
        }
        let ins = match self.rng.below(5) {
            0 => Ins::ProofFromAzNf { res: r, ids: vec![ids[0], ids[1], ids[2]] },
            1 if ids.len() > 3 => Ins::ProofFromAzNf { res: r, ids: vec![ids[0], ids[3]] }, // ids[3] is in the vault but not proven
            2 => Ins::ProofFromAzNf { res: r, ids: vec![ids[2], 9_300_000] },
            3 => Ins::ProofFromAzAll { res: r },
            _ => Ins::ProofFromAzNf { res: r, ids: vec![ids[1]] },
        };
        self.push(ins);
    }

    fn op_drop_auth(&mut self) {
        let ins = match self.rng.below(6) {
            0 => Ins::DropAzProofs,
            1 | 2 => Ins::DropAzRegular,
            3 => Ins::DropAzSigs,
            4 => Ins::DropNamedProofs,
            _ => Ins::DropAllProofs,
        };
        self.push(ins);
    }

    fn op_account_direct(&mut self) {
        // burn inside an account (possibly under a live vault proof)
        let (a, r) = (self.acct(), self.res());
        let v = self.m.vaults[&(a, r)];
        let info = self.m.res[r].clone();
        if !info.burnable {
            return self.op_source();
        }
        let (total, free, ids, locked) = self.container_amounts(v);
        if info.fungible {
            // keep burns small unless aiming at the boundary
            let mut amt = pick_amount(self.rng, &self.p, &info, &total, &free);
            if big_of(amt) > BigInt::from(50u32) * one() && big_of(amt) < free {
                amt = to_dec(&(info.unit() * 3u32));
            }
            self.push(Ins::AcctBurn { acct: a, res: r, amount: amt });
        } else {
            let mut pick = pick_ids(self.rng, &self.p, &ids, &locked);
            if pick.len() > 1 && pick.iter().all(|i| ids.contains(i) && !locked.contains(i)) {
                pick.truncate(1);
            }
            self.push(Ins::AcctBurnNf { acct: a, res: r, ids: pick });
        }
    }

    /// The model refuses an instruction; an engine that wrongly lets it pass should then find a
    /// manifest that completes cleanly, so that the wrong success becomes visible: release all
    /// proofs, return every bucket that would be alive, deposit the whole worktop. Needs no
    /// knowledge of amounts. (With a correct engine the transaction fails before it gets here.)
    fn blind_tidy(&mut self, failed: &Ins) {
        let mut live: BTreeSet<u32> = self.m.buckets.keys().cloned().collect();
        match failed {
            Ins::Take { .. } | Ins::TakeNf { .. } | Ins::TakeAll { .. } => {
                live.insert(self.m.next_bucket);
            }
            Ins::Return { bucket } | Ins::Burn { bucket } | Ins::Deposit { bucket, .. } => {
                live.remove(bucket);
            }
            Ins::DepositBatch { buckets, .. } => {
                for b in buckets {
                    live.remove(b);
                }
            }
            _ => {}
        }
        self.out.push(Ins::DropNamedProofs);
        self.out.push(Ins::DropAzRegular);
        for b in live {
            self.out.push(Ins::Return { bucket: b });
        }
        let a = self.acct();
        self.out.push(Ins::DepositWorktop { acct: a, kind: DepKind::TryAbort });
    }

    fn tidy(&mut self) {
        // release locks, then hand everything back
        let any_locked_bucket = self.m.buckets.values().any(|c| self.m.containers[*c].is_locked()) || self.m.worktop.values().any(|c| self.m.containers[*c].is_locked());
        if any_locked_bucket || self.rng.chance(1, 3) {
            if !self.m.proofs.is_empty() {
                self.push(Ins::DropNamedProofs);
            }
            if any_locked_bucket && !self.m.auth_zone.is_empty() {
                self.push(Ins::DropAzRegular);
            }
        }
        let ks: Vec<u32> = self.m.buckets.keys().cloned().collect();
        for b in ks {
            if self.rng.chance(2, 3) {
                self.push(Ins::Return { bucket: b });
            } else {
                let a = self.acct();
                let kind = self.dep_kind();
                self.push(Ins::Deposit { acct: a, bucket: b, kind });
            }
        }
        if !self.m.worktop.is_empty() || self.rng.chance(1, 3) {
            self.op_worktop_sink();
        }
    }
}

pub fn generate(rng: &mut Rng, p: &Profile, res: &[ResInfo], holdings: &BTreeMap<(usize, usize), Holding>, n_acct: usize) -> Case {
    let v2 = rng.below(100) < p.v2_pct;
    let m = Model::new(res, holdings);
    // mood of the case: clean (everything well-formed), mild, wild
    let mut p = p.clone();
    let violate_pct;
    match rng.below(10) {
        0..=3 => {
            p.bad_id_pct = 0;
            p.hostile_amount_pct = 0;
            p.tidy_pct = 100;
            violate_pct = 0;
        }
        4..=7 => {
            p.bad_id_pct /= 2;
            p.hostile_amount_pct /= 3;
            violate_pct = 6;
        }
        _ => violate_pct = 30,
    }
    let mut g = Gen { rng, p: p.clone(), m, v2, out: vec![], stopped: false, n_acct, violate_pct, dead_buckets: vec![], dead_proofs: vec![], failed: None };
    let fee = if g.rng.bool() { FeeSource::Faucet } else { FeeSource::FeeAccount };
    g.push(Ins::LockFee(fee));
    let len = g.rng.range(2, p.max_len as u64) as usize;
    let p = &p;
    let mut after_stop = 0;
    while g.out.len() < len {
        if g.stopped {
            // a refused instruction is mostly followed by the blind tidy ending only
            after_stop += 1;
            if after_stop > 2 || g.failed.is_some() {
                break;
            }
        }
        let have_buckets = !g.m.buckets.is_empty();
        let have_wt = !g.m.worktop.is_empty();
        // weights
        let w_source = p.w_flow * if have_wt || have_buckets { 1 } else { 3 };
        let w_take = if have_wt { p.w_flow * 2 } else { p.w_flow / 4 };
        let w_bsink = if have_buckets { p.w_flow * 2 } else { p.w_flow / 8 };
        let w_wsink = if have_wt { p.w_flow / 2 } else { p.w_flow / 8 };
        let w_direct = if p.direct_vault_ops { p.w_flow / 4 } else { 0 };
        let ws = [w_source, w_take, w_bsink, w_wsink, p.w_assert, p.w_proof, p.w_drop_auth, w_direct, p.w_lock_scenario, p.w_lock_scenario, p.w_compose_scenario];
        let total: u64 = ws.iter().sum();
        let mut x = g.rng.below(total.max(1));
        let mut k = 0;
        while k < ws.len() && x >= ws[k] {
            x -= ws[k];
            k += 1;
        }
        match k {
            0 => g.op_source(),
            1 => g.op_take(),
            2 => g.op_bucket_sink(),
            3 => g.op_worktop_sink(),
            4 => g.op_assert(),
            5 => g.op_proof(),
            6 => g.op_drop_auth(),
            7 => g.op_account_direct(),
            8 => g.op_vault_lock_scenario(),
            9 => g.op_bucket_lock_scenario(),
            _ => g.op_composition_scenario(),
        }
    }
    if !g.stopped && g.rng.below(100) < p.tidy_pct {
        g.tidy();
    } else if let Some((failed, class)) = g.failed.clone() {
        let meaningful = !matches!(class, FailClass::UnknownBucket | FailClass::UnknownProof | FailClass::LeftoverWorktop | FailClass::DanglingNonEmptyBucket | FailClass::DanglingEmptyBucket);
        if meaningful && g.rng.chance(3, 4) {
            g.blind_tidy(&failed);
        }
    }
    let mut ins = g.out;
    if !v2 {
        ins.retain(|i| !i.v2_only());
    }
    Case { ins, v2 }
}
