//! Manifest-level reference model of the transaction processor's resource semantics, written
//! from the property texts of C09 / C10 (not from the engine code):
//!
//! * resources live in *containers* (account vaults, buckets); the worktop keeps at most one
//!   container per resource; named buckets and named proofs are numbered in creation order;
//! * a proof locks an amount (fungible) or an id set (non-fungible) in its container(s); the
//!   locked part of a container is max(locked amounts) / union(locked ids); only the rest can
//!   leave the container; a container with a live proof cannot be destroyed (merged into
//!   another container, deposited, burned);
//! * a transaction must fail if it uses an unknown / consumed bucket or proof, takes more than
//!   is present, violates an assertion, leaves resources on the worktop or in a bucket.
//!
//! The model predicts for an instruction sequence either `Success` with the final holdings of
//! every account vault, or the first failing instruction with a failure class, or `Unknown`
//! (the outcome depends on an implementation choice the properties leave open, e.g. *which*
//! non-fungibles an amount-based take selects).
use crate::ins::*;
use crate::world::*;
use num_bigint::BigInt;
use num_traits::{Signed, Zero};
use rv_ledger::prelude::Decimal;
use std::collections::{BTreeMap, BTreeSet};

#[derive(Clone, Copy, Debug, PartialEq, Eq, Hash, PartialOrd, Ord)]
pub enum FailClass {
    // --- stated by C09
    UnknownBucket,
    UnknownProof,
    TakeMoreThanPresent,
    VaultInsufficient,
    NegativeAmount,
    AssertionFailed,
    LeftoverWorktop,
    DanglingNonEmptyBucket,
    // --- stated by C10
    Locked,
    Divisibility,
    /// a composition from the auth zone asks for more than sum over containers of max(proofs on it)
    CompositionExceedsBase,
    // --- expected to fail, but no property of this crate says so (logged only)
    DanglingEmptyBucket,
    Auth,
    EmptyProof,
    ProofExceedsContainer,
    AuthZoneEmpty,
    NoBaseProofs,
    KindMismatch,
    NotBurnable,
    FaucetTwice,
}

impl FailClass {
    pub fn c09_verdict(&self) -> bool {
        use FailClass::*;
        matches!(self, UnknownBucket | UnknownProof | TakeMoreThanPresent | VaultInsufficient | NegativeAmount | AssertionFailed | LeftoverWorktop | DanglingNonEmptyBucket)
    }
    pub fn c10_verdict(&self) -> bool {
        matches!(self, FailClass::Locked | FailClass::Divisibility | FailClass::CompositionExceedsBase)
    }
}

#[derive(Clone, Debug, PartialEq, Eq)]
pub enum Outcome {
    Success,
    Fail { at: usize, class: FailClass },
    Unknown { at: usize, why: &'static str },
}

pub enum Stop {
    Fail(FailClass),
    Unknown(&'static str),
}
use Stop::*;

#[derive(Clone, Debug)]
pub enum Lock {
    F(BigInt),
    N(BTreeSet<u64>),
}

#[derive(Clone, Debug)]
pub struct Container {
    pub res: usize,
    pub hold: Holding,
    /// proof uid -> what that proof locks here
    pub locks: BTreeMap<usize, Lock>,
    pub vault_of: Option<usize>,
}

impl Container {
    pub fn locked_amount(&self) -> BigInt {
        self.locks.values().filter_map(|l| if let Lock::F(a) = l { Some(a.clone()) } else { None }).max().unwrap_or_else(BigInt::zero)
    }
    pub fn locked_ids(&self) -> BTreeSet<u64> {
        let mut s = BTreeSet::new();
        for l in self.locks.values() {
            if let Lock::N(ids) = l {
                s.extend(ids.iter().cloned());
            }
        }
        s
    }
    pub fn is_locked(&self) -> bool {
        !self.locks.is_empty()
    }
}

#[derive(Clone, Debug)]
pub struct ProofInfo {
    pub res: usize,
    pub evidence: Vec<(usize, Lock)>,
    pub alive: bool,
}

/// What a call returned to the transaction processor (buckets), for next-call assertions.
type Returned = Vec<(usize, Holding)>;

#[derive(Clone)]
pub struct Model {
    pub res: Vec<ResInfo>,
    pub containers: Vec<Container>,
    pub vaults: BTreeMap<(usize, usize), usize>,
    pub worktop: BTreeMap<usize, usize>,
    pub buckets: BTreeMap<u32, usize>,
    pub next_bucket: u32,
    pub proofs: BTreeMap<u32, usize>,
    pub next_proof: u32,
    pub proof_tab: Vec<ProofInfo>,
    pub auth_zone: Vec<usize>,
    pub sigs_present: bool,
    pub next_call: Option<(bool, Vec<(usize, Cons)>)>,
    pub proofs_created: u32,
    /// coverage notes: interesting situations the run went through
    pub notes: BTreeSet<&'static str>,
    pub max_overlap: usize,
    pub faucet_free_used: bool,
}

fn dec(d: &Decimal) -> BigInt {
    big_of(*d)
}

impl Model {
    pub fn new(res: &[ResInfo], holdings: &BTreeMap<(usize, usize), Holding>) -> Model {
        let mut m = Model {
            res: res.to_vec(),
            containers: vec![],
            vaults: BTreeMap::new(),
            worktop: BTreeMap::new(),
            buckets: BTreeMap::new(),
            next_bucket: 0,
            proofs: BTreeMap::new(),
            next_proof: 0,
            proof_tab: vec![],
            auth_zone: vec![],
            sigs_present: true,
            next_call: None,
            proofs_created: 0,
            notes: BTreeSet::new(),
            max_overlap: 0,
            faucet_free_used: false,
        };
        for ((a, r), h) in holdings {
            m.containers.push(Container { res: *r, hold: h.clone(), locks: BTreeMap::new(), vault_of: Some(*a) });
            m.vaults.insert((*a, *r), m.containers.len() - 1);
        }
        m
    }

    pub fn vault_holdings(&self) -> BTreeMap<(usize, usize), Holding> {
        self.vaults.iter().map(|(k, c)| (*k, self.containers[*c].hold.clone())).collect()
    }

    pub fn worktop_holding(&self, r: usize) -> Option<&Holding> {
        self.worktop.get(&r).map(|c| &self.containers[*c].hold)
    }

    fn empty_holding(&self, r: usize) -> Holding {
        if self.res[r].fungible {
            Holding::F(BigInt::zero())
        } else {
            Holding::N(BTreeSet::new())
        }
    }

    fn new_container(&mut self, r: usize, hold: Holding) -> usize {
        self.containers.push(Container { res: r, hold, locks: BTreeMap::new(), vault_of: None });
        self.containers.len() - 1
    }

    fn new_bucket(&mut self, c: usize) -> u32 {
        let id = self.next_bucket;
        self.next_bucket += 1;
        self.buckets.insert(id, c);
        id
    }

    /// Amount-based removal from a container. `exact_moves`: taking exactly the whole content
    /// is a move of the container itself (worktop semantics), handled by the caller.
    fn take_amount(&mut self, c: usize, amount: &BigInt) -> Result<Holding, Stop> {
        let r = self.containers[c].res;
        let info = self.res[r].clone();
        if amount.is_negative() {
            return Err(Fail(FailClass::NegativeAmount));
        }
        let total = self.containers[c].hold.amount();
        if *amount > total {
            return Err(Fail(if self.containers[c].vault_of.is_some() { FailClass::VaultInsufficient } else { FailClass::TakeMoreThanPresent }));
        }
        if !(amount % info.unit()).is_zero() {
            return Err(Fail(FailClass::Divisibility));
        }
        match &self.containers[c].hold {
            Holding::F(t) => {
                let free = t - self.containers[c].locked_amount();
                if *amount > free {
                    self.notes.insert("take-refused-because-locked");
                    return Err(Fail(FailClass::Locked));
                }
                if self.containers[c].is_locked() {
                    if *amount == free && !amount.is_zero() {
                        self.notes.insert("take-exactly-withdrawable-under-lock");
                    } else {
                        self.notes.insert("take-under-lock");
                    }
                }
                let left = t - amount;
                self.containers[c].hold = Holding::F(left);
                Ok(Holding::F(amount.clone()))
            }
            Holding::N(ids) => {
                let n = (amount / one()).to_string().parse::<usize>().unwrap_or(usize::MAX);
                if n == 0 {
                    return Ok(Holding::N(BTreeSet::new()));
                }
                let locked = self.containers[c].locked_ids();
                let free: BTreeSet<u64> = ids.difference(&locked).cloned().collect();
                if n > free.len() {
                    return Err(Fail(FailClass::Locked));
                }
                if n == free.len() {
                    let left: BTreeSet<u64> = ids.intersection(&locked).cloned().collect();
                    self.containers[c].hold = Holding::N(left);
                    return Ok(Holding::N(free));
                }
                // which ids an amount-based take selects is not specified
                Err(Unknown("amount-based take of some non-fungibles"))
            }
        }
    }

    fn take_ids(&mut self, c: usize, want: &BTreeSet<u64>) -> Result<Holding, Stop> {
        let Holding::N(ids) = &self.containers[c].hold else {
            return Err(Fail(FailClass::KindMismatch));
        };
        if !want.is_subset(ids) {
            return Err(Fail(if self.containers[c].vault_of.is_some() { FailClass::VaultInsufficient } else { FailClass::TakeMoreThanPresent }));
        }
        let locked = self.containers[c].locked_ids();
        if want.intersection(&locked).next().is_some() {
            self.notes.insert("take-refused-because-locked");
            return Err(Fail(FailClass::Locked));
        }
        if self.containers[c].is_locked() {
            self.notes.insert("take-under-lock");
        }
        let left: BTreeSet<u64> = ids.difference(want).cloned().collect();
        self.containers[c].hold = Holding::N(left);
        Ok(Holding::N(want.clone()))
    }

    /// A bucket arrives on the worktop.
    fn put_on_worktop(&mut self, c: usize) -> Result<(), Stop> {
        let r = self.containers[c].res;
        if self.containers[c].hold.is_empty() {
            // an empty bucket is dropped
            return Ok(());
        }
        match self.worktop.get(&r).cloned() {
            None => {
                if self.containers[c].is_locked() {
                    self.notes.insert("locked-bucket-becomes-worktop-container");
                }
                self.worktop.insert(r, c);
                Ok(())
            }
            Some(w) => {
                if self.containers[c].is_locked() {
                    // the locked container would cease to exist
                    self.notes.insert("locked-bucket-merge-refused");
                    return Err(Fail(FailClass::Locked));
                }
                let add = std::mem::replace(&mut self.containers[c].hold, Holding::F(BigInt::zero()));
                self.merge_into(w, add);
                Ok(())
            }
        }
    }

    fn merge_into(&mut self, c: usize, add: Holding) {
        match (&mut self.containers[c].hold, add) {
            (Holding::F(t), Holding::F(a)) => *t += a,
            (Holding::N(t), Holding::N(a)) => t.extend(a),
            _ => panic!("model: resource kind confusion"),
        }
    }

    /// A container is destroyed and its content handed on (deposit / burn / merge).
    fn consume_container(&mut self, c: usize) -> Result<Holding, Stop> {
        if self.containers[c].is_locked() {
            self.notes.insert("consume-of-locked-bucket-refused");
            return Err(Fail(FailClass::Locked));
        }
        let r = self.containers[c].res;
        let e = self.empty_holding(r);
        Ok(std::mem::replace(&mut self.containers[c].hold, e))
    }

    fn check_next_call(&mut self, returned: &Returned) -> Result<(), Stop> {
        let Some((only, cons)) = self.next_call.take() else { return Ok(()) };
        let mut agg: BTreeMap<usize, Holding> = BTreeMap::new();
        for (r, h) in returned {
            match agg.get_mut(r) {
                None => {
                    agg.insert(*r, h.clone());
                }
                Some(Holding::F(t)) => {
                    if let Holding::F(a) = h {
                        *t += a
                    }
                }
                Some(Holding::N(t)) => {
                    if let Holding::N(a) = h {
                        t.extend(a.iter().cloned())
                    }
                }
            }
        }
        self.notes.insert("next-call-assertion-evaluated");
        if eval_constraints(&self.res, &cons, &agg, only) {
            Ok(())
        } else {
            Err(Fail(FailClass::AssertionFailed))
        }
    }

    /// A call returned these buckets: assertion on the return, then onto the worktop.
    fn call_returns(&mut self, returned: Vec<Holding>, r: usize) -> Result<(), Stop> {
        let ret: Returned = returned.iter().map(|h| (r, h.clone())).collect();
        self.check_next_call(&ret)?;
        for h in returned {
            let c = self.new_container(r, h);
            self.put_on_worktop(c)?;
        }
        Ok(())
    }

    fn need_sigs(&self) -> Result<(), Stop> {
        if self.sigs_present {
            Ok(())
        } else {
            Err(Fail(FailClass::Auth))
        }
    }

    fn new_proof(&mut self, res: usize, evidence: Vec<(usize, Lock)>) -> usize {
        let uid = self.proof_tab.len();
        for (c, l) in &evidence {
            self.containers[*c].locks.insert(uid, l.clone());
            self.max_overlap = self.max_overlap.max(self.containers[*c].locks.len());
            if self.containers[*c].locks.len() > 1 {
                self.notes.insert("overlapping-proofs-on-one-container");
            }
        }
        self.proof_tab.push(ProofInfo { res, evidence, alive: true });
        self.proofs_created += 1;
        uid
    }

    fn name_proof(&mut self, uid: usize) -> u32 {
        let id = self.next_proof;
        self.next_proof += 1;
        self.proofs.insert(id, uid);
        id
    }

    fn drop_proof_uid(&mut self, uid: usize) {
        let ev = std::mem::take(&mut self.proof_tab[uid].evidence);
        for (c, _) in &ev {
            self.containers[*c].locks.remove(&uid);
            if self.containers[*c].locks.is_empty() {
                self.notes.insert("all-proofs-of-a-container-dropped");
            }
        }
        self.proof_tab[uid].alive = false;
    }

    /// Lock for a proof of `amount` on container c.
    fn lock_for_amount(&mut self, c: usize, amount: &BigInt) -> Result<Lock, Stop> {
        let r = self.containers[c].res;
        let info = self.res[r].clone();
        if amount.is_negative() {
            return Err(Fail(FailClass::NegativeAmount));
        }
        if !(amount % info.unit()).is_zero() {
            return Err(Fail(FailClass::Divisibility));
        }
        if amount.is_zero() {
            return Err(Fail(FailClass::EmptyProof));
        }
        if *amount > self.containers[c].hold.amount() {
            return Err(Fail(FailClass::ProofExceedsContainer));
        }
        if !info.fungible {
            let Holding::N(ids) = &self.containers[c].hold else { unreachable!() };
            if *amount == BigInt::from(ids.len()) * one() {
                return Ok(Lock::N(ids.clone()));
            }
            return Err(Unknown("amount-based proof of some non-fungibles"));
        }
        Ok(Lock::F(amount.clone()))
    }

    fn lock_for_ids(&mut self, c: usize, want: &BTreeSet<u64>) -> Result<Lock, Stop> {
        let Holding::N(ids) = &self.containers[c].hold else {
            return Err(Fail(FailClass::KindMismatch));
        };
        if want.is_empty() {
            return Err(Fail(FailClass::EmptyProof));
        }
        if !want.is_subset(ids) {
            return Err(Fail(FailClass::ProofExceedsContainer));
        }
        Ok(Lock::N(want.clone()))
    }

    fn lock_for_all(&mut self, c: usize) -> Result<Lock, Stop> {
        match &self.containers[c].hold {
            Holding::F(t) if t.is_zero() => Err(Fail(FailClass::EmptyProof)),
            Holding::F(t) => Ok(Lock::F(t.clone())),
            Holding::N(s) if s.is_empty() => Err(Fail(FailClass::EmptyProof)),
            Holding::N(s) => Ok(Lock::N(s.clone())),
        }
    }

    fn bucket(&self, b: u32) -> Result<usize, Stop> {
        self.buckets.get(&b).cloned().ok_or(Fail(FailClass::UnknownBucket))
    }
    fn take_bucket(&mut self, b: u32) -> Result<usize, Stop> {
        self.buckets.remove(&b).ok_or(Fail(FailClass::UnknownBucket))
    }
    fn take_named_proof(&mut self, p: u32) -> Result<usize, Stop> {
        self.proofs.remove(&p).ok_or(Fail(FailClass::UnknownProof))
    }

    fn deposit_holding(&mut self, acct: usize, r: usize, h: Holding) {
        let v = self.vaults[&(acct, r)];
        self.merge_into(v, h);
    }

    /// per-container maximum of what the auth-zone proofs of resource r lock
    fn az_base(&self, r: usize) -> BTreeMap<usize, Lock> {
        let mut base: BTreeMap<usize, Lock> = BTreeMap::new();
        for uid in &self.auth_zone {
            let p = &self.proof_tab[*uid];
            if p.res != r {
                continue;
            }
            for (c, l) in &p.evidence {
                match (base.get_mut(c), l) {
                    (None, l) => {
                        base.insert(*c, l.clone());
                    }
                    (Some(Lock::F(m)), Lock::F(a)) => {
                        if a > m {
                            *m = a.clone()
                        }
                    }
                    (Some(Lock::N(m)), Lock::N(a)) => m.extend(a.iter().cloned()),
                    _ => {}
                }
            }
        }
        base
    }

    /// coverage: in which order do several auth-zone proofs on ONE container appear (by amount)?
    fn note_composition_shape(&mut self, r: usize) {
        let mut per: BTreeMap<usize, Vec<BigInt>> = BTreeMap::new();
        let mut kinds: BTreeSet<bool> = BTreeSet::new();
        for uid in &self.auth_zone {
            let p = &self.proof_tab[*uid];
            kinds.insert(self.res[p.res].fungible);
            if p.res != r {
                continue;
            }
            for (c, l) in &p.evidence {
                if let Lock::F(a) = l {
                    per.entry(*c).or_default().push(a.clone());
                }
            }
        }
        if kinds.len() > 1 {
            self.notes.insert("composition-in-mixed-kind-zone");
        }
        for v in per.values() {
            if v.len() < 2 {
                continue;
            }
            let asc = v.windows(2).any(|w| w[0] < w[1]);
            let desc = v.windows(2).any(|w| w[0] > w[1]);
            self.notes.insert(match (asc, desc) {
                (true, false) => "composition-over-ascending-overlap",
                (false, true) => "composition-over-descending-overlap",
                (false, false) => "composition-over-equal-overlap",
                (true, true) => "composition-over-mixed-order-overlap",
            });
        }
        if per.len() > 1 {
            self.notes.insert("composition-over-several-containers");
        }
    }

    pub fn step(&mut self, ins: &Ins) -> Result<(), Stop> {
        match ins {
            Ins::LockFee(_) => {
                self.check_next_call(&vec![])?;
                Ok(())
            }
            Ins::FaucetFree => {
                if self.faucet_free_used {
                    return Err(Fail(FailClass::FaucetTwice));
                }
                self.faucet_free_used = true;
                let xrd = self.res.iter().position(|r| r.name == "XRD").expect("XRD is part of the world");
                self.notes.insert("resources-from-an-unknown-component");
                self.call_returns(vec![Holding::F(BigInt::from(10_000u32) * one())], xrd)
            }
            Ins::Withdraw { acct, res, amount } => {
                self.need_sigs()?;
                let v = self.vaults[&(*acct, *res)];
                let h = self.take_amount(v, &dec(amount))?;
                self.call_returns(vec![h], *res)
            }
            Ins::WithdrawNf { acct, res, ids } => {
                self.need_sigs()?;
                let v = self.vaults[&(*acct, *res)];
                let want: BTreeSet<u64> = ids.iter().cloned().collect();
                let h = if want.is_empty() && !self.res[*res].fungible { Holding::N(BTreeSet::new()) } else { self.take_ids(v, &want)? };
                self.call_returns(vec![h], *res)
            }
            Ins::AcctProofAmount { acct, res, amount } => {
                self.need_sigs()?;
                let v = self.vaults[&(*acct, *res)];
                let l = self.lock_for_amount(v, &dec(amount))?;
                self.check_next_call(&vec![])?;
                let uid = self.new_proof(*res, vec![(v, l)]);
                self.auth_zone.push(uid);
                self.notes.insert("vault-proof");
                Ok(())
            }
            Ins::AcctProofNf { acct, res, ids } => {
                self.need_sigs()?;
                let v = self.vaults[&(*acct, *res)];
                let want: BTreeSet<u64> = ids.iter().cloned().collect();
                let l = self.lock_for_ids(v, &want)?;
                self.check_next_call(&vec![])?;
                let uid = self.new_proof(*res, vec![(v, l)]);
                self.auth_zone.push(uid);
                self.notes.insert("vault-proof");
                Ok(())
            }
            Ins::AcctBurn { acct, res, amount } => {
                self.need_sigs()?;
                let v = self.vaults[&(*acct, *res)];
                let _ = self.take_amount(v, &dec(amount))?;
                self.check_next_call(&vec![])
            }
            Ins::AcctBurnNf { acct, res, ids } => {
                self.need_sigs()?;
                let v = self.vaults[&(*acct, *res)];
                let want: BTreeSet<u64> = ids.iter().cloned().collect();
                if !want.is_empty() || self.res[*res].fungible {
                    let _ = self.take_ids(v, &want)?;
                }
                self.check_next_call(&vec![])
            }
            Ins::Recall { acct, res, amount } => {
                let v = self.vaults[&(*acct, *res)];
                let h = self.take_amount(v, &dec(amount))?;
                self.call_returns(vec![h], *res)
            }
            Ins::RecallNf { acct, res, ids } => {
                let v = self.vaults[&(*acct, *res)];
                let want: BTreeSet<u64> = ids.iter().cloned().collect();
                let h = if want.is_empty() && !self.res[*res].fungible { Holding::N(BTreeSet::new()) } else { self.take_ids(v, &want)? };
                self.call_returns(vec![h], *res)
            }
            Ins::Take { res, amount } => {
                let a = dec(amount);
                if a.is_zero() {
                    let e = self.empty_holding(*res);
                    let c = self.new_container(*res, e);
                    self.new_bucket(c);
                    return Ok(());
                }
                if a.is_negative() {
                    return Err(Fail(FailClass::NegativeAmount));
                }
                let Some(w) = self.worktop.get(res).cloned() else {
                    return Err(Fail(FailClass::TakeMoreThanPresent));
                };
                let total = self.containers[w].hold.amount();
                if a > total {
                    return Err(Fail(FailClass::TakeMoreThanPresent));
                }
                if a == total {
                    // the whole container moves (with whatever locks it carries)
                    self.notes.insert("take-exactly-the-worktop-balance");
                    if self.containers[w].is_locked() {
                        self.notes.insert("locked-worktop-container-moved-whole");
                    }
                    self.worktop.remove(res);
                    self.new_bucket(w);
                    return Ok(());
                }
                let h = self.take_amount(w, &a)?;
                let c = self.new_container(*res, h);
                self.new_bucket(c);
                Ok(())
            }
            Ins::TakeNf { res, ids } => {
                let want: BTreeSet<u64> = ids.iter().cloned().collect();
                if want.is_empty() {
                    let e = self.empty_holding(*res);
                    let c = self.new_container(*res, e);
                    self.new_bucket(c);
                    return Ok(());
                }
                let Some(w) = self.worktop.get(res).cloned() else {
                    return Err(Fail(FailClass::TakeMoreThanPresent));
                };
                let Holding::N(have) = &self.containers[w].hold else {
                    return Err(Fail(FailClass::KindMismatch));
                };
                if !want.is_subset(have) {
                    return Err(Fail(FailClass::TakeMoreThanPresent));
                }
                if want.len() == have.len() {
                    self.notes.insert("take-exactly-the-worktop-balance");
                    self.worktop.remove(res);
                    self.new_bucket(w);
                    return Ok(());
                }
                let h = self.take_ids(w, &want)?;
                let c = self.new_container(*res, h);
                self.new_bucket(c);
                Ok(())
            }
            Ins::TakeAll { res } => {
                match self.worktop.remove(res) {
                    Some(w) => {
                        if self.containers[w].is_locked() {
                            self.notes.insert("locked-worktop-container-moved-whole");
                        }
                        self.new_bucket(w);
                    }
                    None => {
                        let e = self.empty_holding(*res);
                        let c = self.new_container(*res, e);
                        self.new_bucket(c);
                    }
                }
                Ok(())
            }
            Ins::Return { bucket } => {
                let c = self.take_bucket(*bucket)?;
                self.put_on_worktop(c)
            }
            Ins::Burn { bucket } => {
                let c = self.take_bucket(*bucket)?;
                if !self.res[self.containers[c].res].burnable {
                    return Err(Fail(FailClass::NotBurnable));
                }
                let _ = self.consume_container(c)?;
                self.check_next_call(&vec![])
            }
            Ins::AssertContains { res, amount } => {
                let have = self.worktop_holding(*res).map(|h| h.amount()).unwrap_or_else(BigInt::zero);
                self.notes.insert(if have == dec(amount) { "assert-amount-exactly-met" } else { "assert-amount" });
                if have >= dec(amount) {
                    Ok(())
                } else {
                    Err(Fail(FailClass::AssertionFailed))
                }
            }
            Ins::AssertContainsAny { res } => {
                let have = self.worktop_holding(*res).map(|h| h.amount()).unwrap_or_else(BigInt::zero);
                if have.is_positive() {
                    Ok(())
                } else {
                    Err(Fail(FailClass::AssertionFailed))
                }
            }
            Ins::AssertContainsNf { res, ids } => {
                if self.res[*res].fungible {
                    return Err(Unknown("id assertion on a fungible"));
                }
                let want: BTreeSet<u64> = ids.iter().cloned().collect();
                let empty = BTreeSet::new();
                let have = match self.worktop_holding(*res) {
                    Some(Holding::N(s)) => s,
                    _ => &empty,
                };
                if want.is_subset(have) {
                    Ok(())
                } else {
                    Err(Fail(FailClass::AssertionFailed))
                }
            }
            Ins::AssertResourcesOnly { cons } | Ins::AssertResourcesInclude { cons } => {
                let only = matches!(ins, Ins::AssertResourcesOnly { .. });
                let agg: BTreeMap<usize, Holding> = self.worktop.iter().map(|(r, c)| (*r, self.containers[*c].hold.clone())).collect();
                if cons_kind_mismatch(&self.res, cons) {
                    return Err(Unknown("constraint of the wrong kind for the resource"));
                }
                if eval_constraints(&self.res, cons, &agg, only) {
                    Ok(())
                } else {
                    Err(Fail(FailClass::AssertionFailed))
                }
            }
            Ins::AssertNextCallOnly { cons } | Ins::AssertNextCallInclude { cons } => {
                if cons_kind_mismatch(&self.res, cons) {
                    return Err(Unknown("constraint of the wrong kind for the resource"));
                }
                self.next_call = Some((matches!(ins, Ins::AssertNextCallOnly { .. }), cons.clone()));
                Ok(())
            }
            Ins::AssertBucket { bucket, cons } => {
                let c = self.bucket(*bucket)?;
                let r = self.containers[c].res;
                if cons_kind_mismatch(&self.res, &[(r, cons.clone())]) {
                    return Err(Unknown("constraint of the wrong kind for the resource"));
                }
                if eval_cons(cons, Some(&self.containers[c].hold)) {
                    Ok(())
                } else {
                    Err(Fail(FailClass::AssertionFailed))
                }
            }
            Ins::ProofFromBucketAmount { bucket, amount } => {
                let c = self.bucket(*bucket)?;
                let l = self.lock_for_amount(c, &dec(amount))?;
                let r = self.containers[c].res;
                let uid = self.new_proof(r, vec![(c, l)]);
                self.name_proof(uid);
                self.notes.insert("bucket-proof");
                Ok(())
            }
            Ins::ProofFromBucketNf { bucket, ids } => {
                let c = self.bucket(*bucket)?;
                let want: BTreeSet<u64> = ids.iter().cloned().collect();
                let l = self.lock_for_ids(c, &want)?;
                let r = self.containers[c].res;
                let uid = self.new_proof(r, vec![(c, l)]);
                self.name_proof(uid);
                self.notes.insert("bucket-proof");
                Ok(())
            }
            Ins::ProofFromBucketAll { bucket } => {
                let c = self.bucket(*bucket)?;
                let l = self.lock_for_all(c)?;
                let r = self.containers[c].res;
                let uid = self.new_proof(r, vec![(c, l)]);
                self.name_proof(uid);
                self.notes.insert("bucket-proof");
                Ok(())
            }
            Ins::ProofFromAzAmount { res, amount } => {
                let a = dec(amount);
                let info = self.res[*res].clone();
                if a.is_negative() {
                    return Err(Fail(FailClass::NegativeAmount));
                }
                if !(&a % info.unit()).is_zero() {
                    return Err(Fail(FailClass::Divisibility));
                }
                let base = self.az_base(*res);
                if !info.fungible {
                    return Err(Unknown("amount-based composed proof of non-fungibles"));
                }
                // backing available to a composition: per container the MAX of the auth-zone proofs on
                // it (overlapping proofs lock the maximum, not the sum), summed over distinct containers
                let avail: BigInt = base.values().map(|l| if let Lock::F(x) = l { x.clone() } else { BigInt::zero() }).sum();
                self.note_composition_shape(*res);
                if a > avail {
                    if base.is_empty() {
                        return Err(Fail(FailClass::NoBaseProofs));
                    }
                    self.notes.insert("composition-beyond-max-per-container");
                    return Err(Fail(FailClass::CompositionExceedsBase));
                }
                if a == avail {
                    self.notes.insert("composition-exactly-max-per-container");
                }
                self.notes.insert("composition-within-max-per-container");
                if a.is_zero() {
                    return Err(Fail(FailClass::EmptyProof));
                }
                let evidence: Vec<(usize, Lock)> = if base.len() == 1 {
                    vec![(*base.keys().next().unwrap(), Lock::F(a))]
                } else if a == avail {
                    base.into_iter().collect()
                } else {
                    return Err(Unknown("composed proof over several containers"));
                };
                let uid = self.new_proof(*res, evidence);
                self.name_proof(uid);
                self.notes.insert("composed-proof");
                Ok(())
            }
            Ins::ProofFromAzNf { res, ids } => {
                if self.res[*res].fungible {
                    return Err(Fail(FailClass::KindMismatch));
                }
                let want: BTreeSet<u64> = ids.iter().cloned().collect();
                let base = self.az_base(*res);
                let mut ev: BTreeMap<usize, BTreeSet<u64>> = BTreeMap::new();
                for id in &want {
                    let Some((c, _)) = base.iter().find(|(_, l)| matches!(l, Lock::N(s) if s.contains(id))) else {
                        if base.is_empty() {
                            return Err(Fail(FailClass::NoBaseProofs));
                        }
                        self.notes.insert("composition-beyond-max-per-container");
                        return Err(Fail(FailClass::CompositionExceedsBase));
                    };
                    ev.entry(*c).or_default().insert(*id);
                }
                if want.is_empty() {
                    return Err(Fail(FailClass::EmptyProof));
                }
                let uid = self.new_proof(*res, ev.into_iter().map(|(c, s)| (c, Lock::N(s))).collect());
                self.name_proof(uid);
                self.notes.insert("composed-proof");
                Ok(())
            }
            Ins::ProofFromAzAll { res } => {
                self.note_composition_shape(*res);
                let base = self.az_base(*res);
                if base.is_empty() {
                    return Err(Fail(FailClass::EmptyProof));
                }
                let uid = self.new_proof(*res, base.into_iter().collect());
                self.name_proof(uid);
                self.notes.insert("composed-proof");
                Ok(())
            }
            Ins::CloneProof { proof } => {
                let uid = *self.proofs.get(proof).ok_or(Fail(FailClass::UnknownProof))?;
                let (r, ev) = (self.proof_tab[uid].res, self.proof_tab[uid].evidence.clone());
                let n = self.new_proof(r, ev);
                self.name_proof(n);
                self.notes.insert("cloned-proof");
                Ok(())
            }
            Ins::DropProof { proof } => {
                let uid = self.take_named_proof(*proof)?;
                self.drop_proof_uid(uid);
                Ok(())
            }
            Ins::PushAz { proof } => {
                let uid = self.take_named_proof(*proof)?;
                self.auth_zone.push(uid);
                Ok(())
            }
            Ins::PopAz => {
                let uid = self.auth_zone.pop().ok_or(Fail(FailClass::AuthZoneEmpty))?;
                self.name_proof(uid);
                Ok(())
            }
            Ins::DropAzProofs => {
                for uid in std::mem::take(&mut self.auth_zone) {
                    self.drop_proof_uid(uid);
                }
                self.sigs_present = false;
                Ok(())
            }
            Ins::DropAzRegular => {
                for uid in std::mem::take(&mut self.auth_zone) {
                    self.drop_proof_uid(uid);
                }
                Ok(())
            }
            Ins::DropAzSigs => {
                self.sigs_present = false;
                Ok(())
            }
            Ins::DropNamedProofs => {
                for (_, uid) in std::mem::take(&mut self.proofs) {
                    self.drop_proof_uid(uid);
                }
                Ok(())
            }
            Ins::DropAllProofs => {
                for (_, uid) in std::mem::take(&mut self.proofs) {
                    self.drop_proof_uid(uid);
                }
                for uid in std::mem::take(&mut self.auth_zone) {
                    self.drop_proof_uid(uid);
                }
                self.sigs_present = false;
                Ok(())
            }
            Ins::Deposit { acct, bucket, kind } => {
                let c = self.take_bucket(*bucket)?;
                if *kind == DepKind::Deposit {
                    self.need_sigs()?;
                }
                let r = self.containers[c].res;
                let h = self.consume_container(c)?;
                self.deposit_holding(*acct, r, h);
                self.check_next_call(&vec![])
            }
            Ins::DepositBatch { acct, buckets, kind } => {
                let mut cs = vec![];
                for b in buckets {
                    cs.push(self.take_bucket(*b)?);
                }
                if *kind == DepKind::Deposit {
                    self.need_sigs()?;
                }
                for c in cs {
                    let r = self.containers[c].res;
                    let h = self.consume_container(c)?;
                    self.deposit_holding(*acct, r, h);
                }
                self.check_next_call(&vec![])
            }
            Ins::DepositWorktop { acct, kind } => {
                let cs: Vec<usize> = std::mem::take(&mut self.worktop).into_values().collect();
                if *kind == DepKind::Deposit {
                    self.need_sigs()?;
                }
                for c in cs {
                    let r = self.containers[c].res;
                    let h = self.consume_container(c)?;
                    self.deposit_holding(*acct, r, h);
                }
                self.check_next_call(&vec![])
            }
        }
    }

    /// End of the manifest.
    pub fn finish(&mut self) -> Result<(), Stop> {
        if !self.worktop.is_empty() {
            return Err(Fail(FailClass::LeftoverWorktop));
        }
        let mut empty_dangling = false;
        for c in self.buckets.values() {
            if !self.containers[*c].hold.is_empty() {
                return Err(Fail(FailClass::DanglingNonEmptyBucket));
            }
            empty_dangling = true;
        }
        if empty_dangling {
            return Err(Fail(FailClass::DanglingEmptyBucket));
        }
        Ok(())
    }

    pub fn run(&mut self, ins: &[Ins]) -> Outcome {
        for (k, i) in ins.iter().enumerate() {
            match self.step(i) {
                Ok(()) => {}
                Err(Fail(class)) => return Outcome::Fail { at: k, class },
                Err(Unknown(why)) => return Outcome::Unknown { at: k, why },
            }
        }
        match self.finish() {
            Ok(()) => Outcome::Success,
            Err(Fail(class)) => Outcome::Fail { at: ins.len(), class },
            Err(Unknown(why)) => Outcome::Unknown { at: ins.len(), why },
        }
    }
}

/// Does a constraint use id sets on a fungible (meaningless; the generator avoids it)?
pub fn cons_kind_mismatch(res: &[ResInfo], cons: &[(usize, Cons)]) -> bool {
    cons.iter().any(|(r, c)| {
        res[*r].fungible
            && match c {
                Cons::ExactNf(_) | Cons::AtLeastNf(_) => true,
                Cons::General { required, allowed, .. } => !required.is_empty() || allowed.is_some(),
                _ => false,
            }
    })
}

/// Mathematical meaning of one constraint on a balance (None = nothing of that resource).
pub fn eval_cons(c: &Cons, h: Option<&Holding>) -> bool {
    let amount = h.map(|h| h.amount()).unwrap_or_else(BigInt::zero);
    let empty = BTreeSet::new();
    let ids: &BTreeSet<u64> = match h {
        Some(Holding::N(s)) => s,
        _ => &empty,
    };
    match c {
        Cons::NonZero => amount.is_positive(),
        Cons::Exact(d) => amount == dec(d),
        Cons::AtLeast(d) => amount >= dec(d),
        Cons::ExactNf(want) => {
            let w: BTreeSet<u64> = want.iter().cloned().collect();
            *ids == w
        }
        Cons::AtLeastNf(want) => want.iter().all(|i| ids.contains(i)),
        Cons::General { required, lower, upper, allowed } => {
            let lo = match lower {
                None => amount.is_positive(),
                Some(d) => amount >= dec(d),
            };
            let hi = match upper {
                None => true,
                Some(d) => amount <= dec(d),
            };
            let req = required.iter().all(|i| ids.contains(i));
            let allow = match allowed {
                None => true,
                Some(a) => ids.iter().all(|i| a.contains(i)),
            };
            lo && hi && req && allow
        }
    }
}

pub fn eval_constraints(_res: &[ResInfo], cons: &[(usize, Cons)], balances: &BTreeMap<usize, Holding>, only: bool) -> bool {
    if only {
        for (r, h) in balances {
            if !h.is_empty() && !cons.iter().any(|(cr, _)| cr == r) {
                return false;
            }
        }
    }
    cons.iter().all(|(r, c)| eval_cons(c, balances.get(r)))
}
