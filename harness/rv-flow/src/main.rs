//! rv-flow: manifest-level resource flow checks (C09, C10, C36 run-time half, C38). One shared
//! reference model + generator; every case is executed on the monitored ledger and judged by all
//! four oracles, each violation reported under the id of the property it contradicts.
use rv_common::*;
use std::time::Duration;

mod gen;
mod ins;
mod model;
mod run;
mod world;

use gen::*;
use run::*;
use world::*;

fn spec(prop: &str) -> Spec {
    let rule = "generated manifests (V1 and V2 instruction vectors, statically valid and invalid) over 3 fungibles (divisibility 0/2/18) and 2 non-fungibles held by 3 accounts: account withdraw / recall / burn / create_proof, worktop take (amount below / equal to / above the balance, ids, all), return, burn, all worktop / bucket / next-call assertions, bucket / auth-zone / cloned proofs, deposits (single, batch, entire worktop, try_* variants), auth-zone drops; amounts aimed at boundaries (exactly the balance, exactly the withdrawable amount under a lock, one unit / one atto more, divisibility violations, negative, MAX), stale and never-created bucket / proof ids. Each manifest is executed on the monitored ledger; a reference model written from the property text predicts success (with final holdings of every account vault) or the first failing instruction and its class. A case is non-trivial when it was committed; distinct = distinct (manifest version, predicted class, observed class, instruction-kind sequence).";
    let s = Spec::new(prop, "exploration", rule)
        .assume("account vault contents are read from raw substates (decoding layer trusted); the reference model is the specification of worktop / bucket / proof semantics (container identity: a take of exactly the balance moves the container, as the property's rationale states)")
        .assume("which non-fungibles an amount-based take / proof selects is unspecified: such cases are executed but carry no verdict (counted as model:unknown)")
        .floor("model:predicted-success/observed-success", 300)
        .floor("model:predicted-fail/observed-fail", 300);
    match prop {
        "C09" => s
            .floor("c09:final_holdings_compared", 300)
            .floor("c09:lifecycle_failures_confirmed", 200)
            .floor("c09:assertion_failures_confirmed", 30)
            .floor("agreed-failure:LeftoverWorktop", 10)
            .floor("agreed-failure:DanglingNonEmptyBucket", 5)
            .floor("agreed-failure:UnknownBucket", 10)
            .floor("agreed-failure:TakeMoreThanPresent", 20)
            .floor("situation:take-exactly-the-worktop-balance", 100)
            .explain("C09: (a)/(b) a manifest the model says must fail for a lifecycle reason (unknown or consumed bucket / proof, take above the balance, negative amount, failed assertion, leftover worktop, dangling non-empty bucket) must not succeed; (c) an assertion error is only acceptable where the model's first failure is an assertion, and a predicted-success manifest must not fail with an assertion / missing-resource error; (d) after success every account vault holds exactly what the model computed."),
        "C10" => s
            .floor("c10:locked_refusals_confirmed", 150)
            .floor("c10:lock_or_divisibility_failures_confirmed", 300)
            .floor("c10:successes_with_proofs", 200)
            .floor("c10:exactly_withdrawable_taken_under_lock", 30)
            .floor("c10:containers_fully_unlocked_then_used", 50)
            .floor("situation:overlapping-proofs-on-one-container", 100)
            .floor("situation:vault-proof", 200)
            .floor("situation:bucket-proof", 200)
            .floor("c10:compositions_beyond_max_refused", 100)
            .floor("c10:compositions_within_max_succeeded", 100)
            .floor("situation:composition-over-ascending-overlap", 100)
            .floor("situation:composition-over-descending-overlap", 50)
            .floor("situation:composition-over-equal-overlap", 30)
            .explain("C10: container model {content, live proofs}; withdrawable = content - max(proof amounts) (ids: content minus union of proven ids). Taking / burning / recalling / depositing more than the withdrawable part, or destroying a container with a live proof, must fail (safety); taking exactly the withdrawable amount, and the full amount once all proofs are dropped, must succeed (a refusal with an insufficient / locked error of a manifest the model accepts is a violation); amounts violating divisibility must fail. Compositions from the auth zone (CREATE_PROOF_FROM_AUTH_ZONE_OF_AMOUNT / _OF_NON_FUNGIBLES) are backed by at most, per container, the max of the auth-zone proofs on that container (ids: their union), summed over distinct containers: asking for more must fail (composition:succeeded-although-exceeds-max-per-container), asking for at most that must not be refused for lack of base proofs; the amount produced by _OF_ALL is not observable from a manifest and carries no verdict."),
        "C36" => s
            .floor("c36:accepted_by_ruleset_all_and_executed", 500)
            .floor("c36:rejected_by_ruleset_all", 200)
            .floor("c36:accepted_and_failed_at_run_time_for_other_reasons", 100)
            .floor("c36:run_time_id_errors_observed", 50)
            .explain("C36(b): every generated manifest is validated by StaticManifestInterpreter (rulesets all and babylon_equivalent) and executed regardless; an accepted manifest must never fail with BucketNotFound / ProofNotFound / AddressReservationNotFound / AddressNotFound. Rejected manifests that do hit such errors are counted to show the generator reaches them."),
        "C38" => s
            .floor("c38:successful_executions_compared", 400)
            .floor("c38:bounds_evaluated", 1500)
            .floor("c38:bounds_with_finite_upper", 500)
            .floor("c38:id_bounds_evaluated", 100)
            .floor("c38:aggregated_deposit_bounds_evaluated", 500)
            .explain("C38: for every manifest the StaticResourceMovementsVisitor accepts and whose execution succeeds: per account and resource the gross amounts / ids deposited and withdrawn (from the vaults' own events) lie within the summed bounds of the account deposit / withdraw invocations (lower, upper, required ids moved, moved ids within allowlists, nothing moved where no invocation may move it), the net change of the vault balance (pre / post database) lies within [deposit.lower - withdraw.upper, deposit.upper - withdraw.lower], and the aggregated NetDeposits bounds hold. Manifests that recall from or burn inside an observed account are skipped (not account sends)."),
        _ => s,
    }
}

fn profile_for(prop: &str) -> &'static Profile {
    match prop {
        "C09" => &P_C09,
        "C10" => &P_C10,
        "C36" => &P_C36,
        _ => &P_C38,
    }
}

const PHASE: u64 = 9;

/// Self-validation support only: scratch builds of the engine carry breaking edits that are
/// switched on by the environment variable RV_BREAK. Some of them would already break genesis /
/// the world set-up, so `RV_BREAK_LATE=<name>` arms the break only once every shard has built
/// its world (all shards wait here, nothing reads the environment meanwhile). Without
/// RV_BREAK_LATE this is a no-op.
fn late_break_barrier(n_shards: usize) {
    use std::sync::atomic::{AtomicUsize, Ordering};
    static ARRIVED: AtomicUsize = AtomicUsize::new(0);
    static ARMED: AtomicUsize = AtomicUsize::new(0);
    let Ok(name) = std::env::var("RV_BREAK_LATE") else { return };
    let k = ARRIVED.fetch_add(1, Ordering::SeqCst) + 1;
    let t0 = std::time::Instant::now();
    if k == n_shards {
        std::env::set_var("RV_BREAK", &name);
        ARMED.store(1, Ordering::SeqCst);
    }
    while ARMED.load(Ordering::SeqCst) == 0 && t0.elapsed() < Duration::from_secs(600) {
        std::thread::sleep(Duration::from_millis(20));
    }
}

/// Runs shard `idx` for at most `cases` iterations (or until `stop_after` for replays).
fn run_shard(args: &Args, prop: &str, idx: usize, rng: &mut Rng, shard: &mut Shard, cases: u64, only_verdict_of: Option<u64>) {
    let p = profile_for(prop);
    let mut w = World::new(shard, rng);
    late_break_barrier(if only_verdict_of.is_some() { 1 } else { args.threads });
    w.ledger.walk_every = args.tier.pick(400, 1500);
    let mut it = 0u64;
    while it < cases && (only_verdict_of.is_some() || !shard.time_up()) {
        if it % 25 == 0 {
            w.refill(shard);
        }
        let holdings = w.all_holdings();
        let case = generate(rng, p, &w.res, &holdings, N_ACCOUNTS);
        let ctx = CaseCtx { seed: args.seed, shard: idx, iteration: it, profile: p, phase: PHASE };
        let before = shard.violations.len();
        let out = run_case(shard, &mut w, &case, &ctx);
        if let Some(target) = only_verdict_of {
            if it == target {
                println!("replayed iteration {it} of shard {idx}: predicted {:?}, observed {:?}", out.model, out.real);
                println!("{}", ins::render(&w, &case.ins));
                for v in &shard.violations[before..] {
                    println!("  VIOLATION {} {}", v.prop, v.signature);
                }
                if shard.violations.len() == before {
                    println!("  no violation at this iteration");
                }
                return;
            } else {
                // earlier iterations only rebuild the ledger history
                shard.violations.truncate(before);
            }
        }
        it += 1;
    }
    rv_ledger::walkers::walk_all(shard, &w.ledger, &format!("end of shard {idx}"));
    shard.count("histories");
}

fn run(args: &Args, prop: &str) -> i32 {
    let mut report = Report::new(args, spec(prop));
    if let Some(path) = &args.replay {
        return replay(args, prop, path, report);
    }
    let per_shard = scaled(args, args.tier.pick(5000, 60_000));
    let budget = Duration::from_secs(budget_secs(args.tier, 50, 720));
    report.run_shards(PHASE, args.threads, budget, |idx, rng, shard| {
        run_shard(args, prop, idx, rng, shard, per_shard, None);
    });
    report.finish()
}

fn replay(args: &Args, prop: &str, path: &std::path::Path, mut report: Report) -> i32 {
    let doc: serde_json::Value = serde_json::from_str(&std::fs::read_to_string(path).expect("replay file")).expect("json");
    let r = &doc["detail"]["replay"];
    let (Some(seed), Some(shard_idx), Some(iteration)) = (r["seed"].as_i64(), r["shard"].as_u64(), r["iteration"].as_u64()) else {
        println!("replay file has no (seed, shard, iteration): {}", doc["detail"]);
        return 2;
    };
    let check = doc["check"].as_str().unwrap_or(prop).to_string();
    let mut a = args.clone();
    a.seed = seed as u64;
    if let Some(t) = doc["tier"].as_str() {
        a.tier = if t == "thorough" { Tier::Thorough } else { Tier::Quick };
    }
    let mut rng = Rng::from_parts(a.seed, PHASE, shard_idx);
    let mut shard = Shard::new(shard_idx as usize, &check, a.tier, std::time::Instant::now() + Duration::from_secs(3600));
    run_shard(&a, &check, shard_idx as usize, &mut rng, &mut shard, iteration + 1, Some(iteration));
    // only the violations of the replayed iteration remain
    shard.nontrivial(&1);
    shard.nontrivial(&2);
    shard.evaluations += 1;
    report.merge(shard);
    report.spec.floors.clear();
    report.finish()
}

fn main() {
    let args = parse_args();
    let code = match args.prop.as_str() {
        p @ ("C09" | "C10" | "C36" | "C38") => run(&args, p),
        other => {
            eprintln!("rv-flow: no check named {other}");
            2
        }
    };
    std::process::exit(code);
}
