//! Executes one generated case on the monitored ledger and applies the oracles of C09, C10,
//! C36 (run-time half) and C38. Violations are reported under the id of the property they
//! contradict, whatever check is running.
use crate::gen::*;
use crate::ins::*;
use crate::model::*;
use crate::world::*;
use num_bigint::BigInt;
use num_traits::{Signed, Zero};
use rv_common::*;
use rv_ledger::prelude::*;
use rv_ledger::prelude::static_resource_movements::*;
use serde_json::{json, Value};
use std::collections::{BTreeMap, BTreeSet};

#[derive(Clone, Copy, Debug, PartialEq, Eq)]
pub enum ErrClass {
    Assertion,
    BucketNotFound,
    ProofNotFound,
    ReservationOrAddressNotFound,
    Insufficient,
    Locked,
    InvalidAmount,
    Auth,
    Dangling,
    EmptyProof,
    ComposeInsufficient,
    Other,
}

pub fn classify_error(e: &RuntimeError) -> (ErrClass, String) {
    let s = format!("{:?}", e);
    let has = |p: &str| s.contains(p);
    let c = if has("AssertionFailed") || has("AssertNextCallReturnsFailed") || has("AssertBucketContentsFailed") {
        ErrClass::Assertion
    } else if has("BucketNotFound") {
        ErrClass::BucketNotFound
    } else if has("ProofNotFound") {
        ErrClass::ProofNotFound
    } else if has("AddressReservationNotFound") || has("AddressNotFound") {
        ErrClass::ReservationOrAddressNotFound
    } else if has("BucketError(Locked") || has("Locked(") {
        ErrClass::Locked
    } else if has("InsufficientBalance") || has("MissingNonFungibleLocalId") || has("MissingId") || has("NotEnoughAmount") {
        ErrClass::Insufficient
    } else if has("InvalidAmount") || has("InvalidTakeAmount") {
        ErrClass::InvalidAmount
    } else if has("AuthError") || has("Unauthorized") {
        ErrClass::Auth
    } else if has("DropNonEmptyBucket") || has("OrphanedNodes") {
        ErrClass::Dangling
    } else if has("InsufficientBaseProofs") {
        ErrClass::ComposeInsufficient
    } else if has("EmptyProofNotAllowed") {
        ErrClass::EmptyProof
    } else {
        ErrClass::Other
    };
    (c, rv_ledger::monitors::error_class(e))
}

#[derive(Clone, Debug)]
pub enum Real {
    Success,
    Failure(ErrClass, String, String),
    NotCommitted(String),
}

#[derive(Default, Clone, Debug)]
pub struct Flow {
    pub dep: BigInt,
    pub wd: BigInt,
    pub dep_ids: Vec<u64>,
    pub wd_ids: Vec<u64>,
}

/// Gross deposits / withdrawals of the observed account vaults, from the vaults' own events.
pub fn observed_flows(w: &World, commit: &CommitResult) -> BTreeMap<(usize, usize), Flow> {
    let by_node: BTreeMap<NodeId, (usize, usize)> = w.vaults.iter().map(|(k, v)| (*v, *k)).collect();
    let mut out: BTreeMap<(usize, usize), Flow> = BTreeMap::new();
    for (id, data) in &commit.application_events {
        let Emitter::Method(node, _) = &id.0 else { continue };
        let Some(key) = by_node.get(node) else { continue };
        let f = out.entry(*key).or_default();
        let name = id.1.as_str();
        if w.res[key.1].fungible {
            let amt = scrypto_decode::<fungible_vault::DepositEvent>(data).ok().map(|e| big_of(e.amount)).unwrap_or_default();
            match name {
                "DepositEvent" => f.dep += amt,
                "WithdrawEvent" | "RecallEvent" => f.wd += amt,
                _ => {}
            }
        } else {
            let ids: Vec<u64> = scrypto_decode::<non_fungible_vault::DepositEvent>(data).ok().map(|e| e.ids.iter().filter_map(id_num).collect()).unwrap_or_default();
            match name {
                "DepositEvent" => {
                    f.dep += BigInt::from(ids.len()) * one();
                    f.dep_ids.extend(ids);
                }
                "WithdrawEvent" | "RecallEvent" => {
                    f.wd += BigInt::from(ids.len()) * one();
                    f.wd_ids.extend(ids);
                }
                _ => {}
            }
        }
    }
    out
}

pub struct CaseCtx<'a> {
    pub seed: u64,
    pub shard: usize,
    pub iteration: u64,
    pub profile: &'a Profile,
    pub phase: u64,
}

fn detail(ctx: &CaseCtx, w: &World, case: &Case, extra: Value) -> Value {
    json!({
        "replay": {"seed": ctx.seed as i64, "phase": ctx.phase, "shard": ctx.shard, "iteration": ctx.iteration, "profile": ctx.profile.name},
        "manifest_version": if case.v2 { "V2" } else { "V1" },
        "instructions": render(w, &case.ins),
        "observed": extra,
    })
}

fn lb_dec(l: &LowerBound) -> (BigInt, bool) {
    match l {
        LowerBound::NonZero => (BigInt::zero(), true),
        LowerBound::Inclusive(d) => (big_of(*d), false),
    }
}

/// Sum of static bounds of several invocations for one resource.
#[derive(Default, Debug)]
struct SumBounds {
    lo: BigInt,
    nonzero: bool,
    hi: Option<BigInt>, // None = unbounded
    hi_unbounded: bool,
    required: BTreeSet<u64>,
    /// Some(set) while every contributing invocation had an allowlist
    allowed: Option<BTreeSet<u64>>,
    contributions: usize,
}

impl SumBounds {
    fn add(&mut self, b: &ResourceBounds) {
        let (l, u) = b.numeric_bounds();
        let (lo, nz) = lb_dec(&l);
        self.lo += lo;
        self.nonzero |= nz;
        match u {
            UpperBound::Unbounded => self.hi_unbounded = true,
            UpperBound::Inclusive(d) => {
                let cur = self.hi.take().unwrap_or_else(BigInt::zero);
                self.hi = Some(cur + big_of(d));
            }
        }
        self.required.extend(b.required_ids().iter().filter_map(id_num));
        let this_allowed: Option<BTreeSet<u64>> = match b.allowed_ids() {
            AllowedIds::Any => None,
            AllowedIds::Allowlist(s) => Some(s.iter().filter_map(id_num).collect()),
        };
        self.allowed = match (self.contributions, self.allowed.take(), this_allowed) {
            (0, _, t) => t,
            (_, Some(mut a), Some(t)) => {
                a.extend(t);
                Some(a)
            }
            _ => None,
        };
        self.contributions += 1;
    }
    fn add_unknown(&mut self) {
        self.hi_unbounded = true;
        self.allowed = None;
        self.contributions += 1;
    }
    fn upper(&self) -> Option<BigInt> {
        if self.hi_unbounded {
            None
        } else {
            Some(self.hi.clone().unwrap_or_else(BigInt::zero))
        }
    }
}

pub struct CaseOutcome {
    pub model: Outcome,
    pub real: Real,
}

/// Run one case. `primary` is the property of the running check (only used for counters).
pub fn run_case(shard: &mut Shard, w: &mut World, case: &Case, ctx: &CaseCtx) -> CaseOutcome {
    let pre = w.all_holdings();
    let mut model = Model::new(&w.res, &pre);
    let predicted = model.run(&case.ins);
    if std::env::var("RV_FLOW_DEBUG").is_ok() {
        if let Outcome::Fail { at, class } = &predicted {
            eprintln!("DEBUG {:?} at {} : {:?}", class, at, case.ins.get(*at));
        }
    }

    // ---------------- static side
    let m1 = if case.v2 { None } else { manifest_v1(w, &case.ins) };
    let m2 = if case.v2 { Some(manifest_v2(w, &case.ins)) } else { None };
    let (static_all, static_bab, analysis): (Result<(), ManifestValidationError>, Result<(), ManifestValidationError>, Result<StaticResourceMovementsOutput, StaticResourceMovementsError>) = {
        fn go<M: ReadableManifest>(m: &M) -> (Result<(), ManifestValidationError>, Result<(), ManifestValidationError>, Result<StaticResourceMovementsOutput, StaticResourceMovementsError>) {
            let a = StaticManifestInterpreter::new(ValidationRuleset::all(), m).validate();
            let b = StaticManifestInterpreter::new(ValidationRuleset::babylon_equivalent(), m).validate();
            let mut visitor = StaticResourceMovementsVisitor::new(m.is_subintent());
            let c = StaticManifestInterpreter::new(ValidationRuleset::all(), m).validate_and_apply_visitor(&mut visitor).map(|_| visitor.output());
            (a, b, c)
        }
        match (&m1, &m2) {
            (Some(m), _) => go(m),
            (_, Some(m)) => go(m),
            _ => unreachable!("a V1 case only holds V1 instructions"),
        }
    };

    // ---------------- execution
    let description = format!("{} case seed={} shard={} iteration={}\n{}", if case.v2 { "V2" } else { "V1" }, ctx.seed, ctx.shard, ctx.iteration, render(w, &case.ins));
    let label = format!("flow:{}", ctx.profile.name);
    let proofs = w.proofs();
    let cfg = ExecutionConfig::for_test_transaction();
    let exec = match (m1, m2) {
        (Some(m), _) => w.ledger.exec_any(shard, &label, m, proofs, cfg, description, false),
        (_, Some(m)) => w.ledger.exec_any(shard, &label, m, proofs, cfg, description, false),
        _ => unreachable!(),
    };
    let real = match &exec.receipt {
        None => Real::NotCommitted("no receipt (panic or not convertible)".into()),
        Some(r) => match &r.result {
            TransactionResult::Commit(c) => match &c.outcome {
                TransactionOutcome::Success(_) => Real::Success,
                TransactionOutcome::Failure(e) => {
                    let (c, path) = classify_error(e);
                    Real::Failure(c, path, format!("{:?}", e).chars().take(300).collect())
                }
            },
            _ => Real::NotCommitted(rv_ledger::outcome_class(r)),
        },
    };
    let post = w.all_holdings();

    // ---------------- coverage bookkeeping
    shard.count(if case.v2 { "cases:v2" } else { "cases:v1" });
    shard.max("instructions_per_manifest", case.ins.len() as u64);
    for i in &case.ins {
        shard.seen("instruction_kinds", i.kind());
    }
    for n in &model.notes {
        shard.count(&format!("situation:{n}"));
    }
    shard.max("overlapping_proofs_on_one_container", model.max_overlap as u64);
    let pred_s = match &predicted {
        Outcome::Success => "success".to_string(),
        Outcome::Fail { class, .. } => format!("fail:{:?}", class),
        Outcome::Unknown { why, .. } => format!("unknown:{why}"),
    };
    let real_s = match &real {
        Real::Success => "success".to_string(),
        Real::Failure(c, p, _) => format!("failure:{:?}:{}", c, p),
        Real::NotCommitted(s) => format!("not-committed:{s}"),
    };
    shard.seen("predicted_classes", &pred_s);
    shard.seen("observed_classes", &real_s);
    shard.nontrivial(&(ctx.profile.name, case.v2, &pred_s, &real_s, case.ins.iter().map(|i| i.kind()).collect::<Vec<_>>()));
    let obs_json = |extra: Value| json!({"predicted": pred_s, "observed": real_s, "extra": extra, "situations": model.notes.iter().collect::<Vec<_>>()});

    // ---------------- C09 / C10: model vs execution
    let proofs_involved = model.proofs_created > 0;
    match (&predicted, &real) {
        (Outcome::Unknown { .. }, _) => shard.count("model:unknown(no verdict)"),
        (_, Real::NotCommitted(s)) => {
            shard.count("harness:not_committed");
            shard.seen("harness:not_committed_reasons", s);
        }
        (Outcome::Fail { at, class }, Real::Success) => {
            shard.count("model:predicted-fail/observed-success");
            let d = detail(ctx, w, case, obs_json(json!({"model_failing_instruction": at})));
            if class.c09_verdict() {
                shard.violation_for("C09", format!("succeeded-although:{:?}", class), d);
            } else if *class == FailClass::CompositionExceedsBase {
                shard.violation_for("C10", "composition:succeeded-although-exceeds-max-per-container", d);
            } else if class.c10_verdict() {
                shard.violation_for("C10", format!("succeeded-although:{:?}", class), d);
            } else {
                shard.count(&format!("nonverdict-mismatch:expected-{:?}-but-succeeded", class));
                if shard.notes.len() < 10 {
                    shard.notes.push(format!("non-verdict mismatch {:?} iteration {} shard {}", class, ctx.iteration, ctx.shard));
                }
            }
        }
        (Outcome::Fail { class, at }, Real::Failure(ec, path, _)) => {
            shard.count("model:predicted-fail/observed-fail");
            shard.count(&format!("agreed-failure:{:?}", class));
            if class.c09_verdict() {
                shard.count("c09:lifecycle_failures_confirmed");
            }
            if class.c10_verdict() {
                shard.count("c10:lock_or_divisibility_failures_confirmed");
                if *class == FailClass::Locked {
                    shard.count("c10:locked_refusals_confirmed");
                }
                if *class == FailClass::CompositionExceedsBase {
                    shard.count("c10:compositions_beyond_max_refused");
                }
            }
            // assertion exactness: an assertion error where the model's first failure is something else
            if *ec == ErrClass::Assertion && *class != FailClass::AssertionFailed {
                shard.violation_for("C09", "assertion-failed-where-model-says-it-holds", detail(ctx, w, case, obs_json(json!({"model_failing_instruction": at, "error": path}))));
            }
            if *class == FailClass::AssertionFailed {
                if *ec == ErrClass::Assertion {
                    shard.count("c09:assertion_failures_confirmed");
                } else {
                    shard.count(&format!("class-mismatch:model-AssertionFailed/engine-{:?}", ec));
                }
            }
        }
        (Outcome::Success, Real::Success) => {
            shard.count("model:predicted-success/observed-success");
            if proofs_involved {
                shard.count("c10:successes_with_proofs");
            }
            if model.notes.contains("take-exactly-withdrawable-under-lock") {
                shard.count("c10:exactly_withdrawable_taken_under_lock");
            }
            if model.notes.contains("composition-within-max-per-container") {
                shard.count("c10:compositions_within_max_succeeded");
            }
            if model.notes.contains("all-proofs-of-a-container-dropped") {
                shard.count("c10:containers_fully_unlocked_then_used");
            }
            // (d) final per-account holdings
            let want = model.vault_holdings();
            let mut diffs = vec![];
            for (k, h) in &want {
                if post.get(k) != Some(h) {
                    diffs.push(json!({"account": k.0, "resource": w.res[k.1].name, "model": h.show(), "ledger": post.get(k).map(|x| x.show()), "before": pre.get(k).map(|x| x.show())}));
                }
            }
            shard.count("c09:final_holdings_compared");
            if !diffs.is_empty() {
                shard.violation_for("C09", "final-account-holdings-differ-from-model", detail(ctx, w, case, obs_json(json!({"differences": diffs}))));
            }
        }
        (Outcome::Success, Real::Failure(ec, path, full)) => {
            shard.count("model:predicted-success/observed-fail");
            let d = detail(ctx, w, case, obs_json(json!({"error": full})));
            match ec {
                ErrClass::Assertion => shard.violation_for("C09", "assertion-failed-though-satisfied-in-model", d),
                ErrClass::BucketNotFound | ErrClass::ProofNotFound => shard.violation_for("C09", format!("live-id-reported-missing:{:?}", ec), d),
                ErrClass::ComposeInsufficient => shard.violation_for("C10", "composition:refused-although-within-max-per-container", d),
                ErrClass::Insufficient | ErrClass::Locked | ErrClass::InvalidAmount => {
                    if proofs_involved {
                        shard.violation_for("C10", format!("withdrawable-amount-refused:{:?}", ec), d)
                    } else {
                        shard.violation_for("C09", format!("resources-missing:{:?}", ec), d)
                    }
                }
                _ => {
                    shard.count(&format!("nonverdict-mismatch:unexpected-failure:{}", path));
                    if shard.notes.len() < 3 {
                        shard.notes.push(format!("unexpected failure {} iteration {} shard {}", path, ctx.iteration, ctx.shard));
                    }
                }
            }
        }
    }

    // ---------------- C36 (b)
    let lifecycle_err = matches!(&real, Real::Failure(ErrClass::BucketNotFound | ErrClass::ProofNotFound | ErrClass::ReservationOrAddressNotFound, _, _));
    let committed = !matches!(real, Real::NotCommitted(_));
    if committed {
        shard.count("c36:manifests_executed");
        match &static_all {
            Ok(()) => {
                shard.count("c36:accepted_by_ruleset_all_and_executed");
                if matches!(real, Real::Failure(..)) {
                    shard.count("c36:accepted_and_failed_at_run_time_for_other_reasons");
                }
                if lifecycle_err {
                    shard.violation_for("C36", "accepted-manifest-failed-with-unknown-or-consumed-id", detail(ctx, w, case, obs_json(json!({"ruleset": "all"}))));
                }
            }
            Err(e) => {
                shard.count("c36:rejected_by_ruleset_all");
                shard.seen("c36:static_rejection_kinds", &format!("{:?}", e).split('(').next().unwrap_or("?").to_string());
                if lifecycle_err {
                    shard.count("c36:rejected_and_failed_with_id_error_at_run_time");
                }
            }
        }
        if static_bab.is_ok() {
            shard.count("c36:accepted_by_ruleset_babylon_and_executed");
            if static_all.is_err() {
                shard.count("c36:accepted_only_by_babylon_ruleset");
            }
            if lifecycle_err {
                if case.v2 {
                    // the babylon_equivalent ruleset is only meaningful for V1 instruction sets (V2-only
                    // instructions such as ASSERT_BUCKET_CONTENTS are outside it): informational
                    shard.count("c36:info:v2_manifest_accepted_by_babylon_ruleset_hit_id_error");
                } else {
                    shard.violation_for("C36", "accepted-manifest-failed-with-unknown-or-consumed-id", detail(ctx, w, case, obs_json(json!({"ruleset": "babylon_equivalent"}))));
                }
            }
        }
        if lifecycle_err {
            shard.count("c36:run_time_id_errors_observed");
        }
        // cross-check with the model's own lifecycle view (logged only)
        if let Outcome::Fail { class: FailClass::UnknownBucket | FailClass::UnknownProof, .. } = &predicted {
            if static_bab.is_ok() {
                shard.count("c36:model-sees-bad-id-but-static-accepts");
            }
        }
    }

    // ---------------- C38
    let has_unmodelled_account_flows = case.ins.iter().any(|i| matches!(i, Ins::Recall { .. } | Ins::RecallNf { .. } | Ins::AcctBurn { .. } | Ins::AcctBurnNf { .. }));
    match &analysis {
        Err(e) => {
            shard.count("c38:analyser_rejected");
            shard.seen("c38:analyser_rejection_kinds", &format!("{:?}", e).split(|c| c == '(' || c == ' ').next().unwrap_or("?").to_string());
        }
        Ok(output) => {
            shard.count("c38:analyser_accepted");
            if let (Real::Success, Some(receipt)) = (&real, &exec.receipt) {
                if has_unmodelled_account_flows {
                    shard.count("c38:skipped(recall-or-burn-in-account)");
                } else {
                    check_c38(shard, w, case, ctx, output, receipt.expect_commit_success(), &pre, &post, &obs_json);
                }
            }
        }
    }

    shard.sample(|| detail(ctx, w, case, obs_json(json!({"static_all": format!("{:?}", static_all), "analyser_ok": analysis.is_ok()}))));
    CaseOutcome { model: predicted, real }
}

#[allow(clippy::too_many_arguments)]
fn check_c38(shard: &mut Shard, w: &World, case: &Case, ctx: &CaseCtx, output: &StaticResourceMovementsOutput, commit: &CommitResult, pre: &BTreeMap<(usize, usize), Holding>, post: &BTreeMap<(usize, usize), Holding>, obs_json: &dyn Fn(Value) -> Value) {
    shard.count("c38:successful_executions_compared");
    let flows = observed_flows(w, commit);
    let acct_index: BTreeMap<ComponentAddress, usize> = w.accounts.iter().enumerate().map(|(i, a)| (*a, i)).collect();
    let res_index: BTreeMap<ResourceAddress, usize> = w.res.iter().enumerate().map(|(i, r)| (r.address, i)).collect();

    // per (account, resource): summed bounds of the deposit / withdraw invocations
    let mut dep: BTreeMap<(usize, usize), SumBounds> = BTreeMap::new();
    let mut wd: BTreeMap<(usize, usize), SumBounds> = BTreeMap::new();
    for info in output.invocation_static_information.values() {
        let Some((addr, method)) = info.as_account_method() else { continue };
        let Some(a) = acct_index.get(&addr) else { continue };
        let is_dep = matches!(method, ACCOUNT_DEPOSIT_IDENT | ACCOUNT_DEPOSIT_BATCH_IDENT | ACCOUNT_TRY_DEPOSIT_OR_ABORT_IDENT | ACCOUNT_TRY_DEPOSIT_BATCH_OR_ABORT_IDENT | ACCOUNT_TRY_DEPOSIT_OR_REFUND_IDENT | ACCOUNT_TRY_DEPOSIT_BATCH_OR_REFUND_IDENT);
        let is_wd = matches!(method, ACCOUNT_WITHDRAW_IDENT | ACCOUNT_WITHDRAW_NON_FUNGIBLES_IDENT);
        if is_dep {
            let tr = &info.input;
            for r in 0..w.res.len() {
                match tr.specified_resources().get(&w.res[r].address) {
                    Some(t) => dep.entry((*a, r)).or_default().add(t.bounds()),
                    None => {
                        if tr.unspecified_resources().may_be_present() {
                            dep.entry((*a, r)).or_default().add_unknown();
                        }
                    }
                }
            }
            for ra in tr.specified_resources().keys() {
                if !res_index.contains_key(ra) {
                    shard.count("c38:bounds_on_foreign_resource");
                }
            }
        } else if is_wd {
            let tr = &info.output;
            for r in 0..w.res.len() {
                match tr.specified_resources().get(&w.res[r].address) {
                    Some(t) => wd.entry((*a, r)).or_default().add(t.bounds()),
                    None => {
                        if tr.unspecified_resources().may_be_present() {
                            wd.entry((*a, r)).or_default().add_unknown();
                        }
                    }
                }
            }
        }
    }

    let mut problems: Vec<(String, Value)> = vec![];
    for a in 0..w.accounts.len() {
        for r in 0..w.res.len() {
            let key = (a, r);
            let f = flows.get(&key).cloned().unwrap_or_default();
            let name = w.res[r].name;
            let d0 = SumBounds::default();
            let (db, wb) = (dep.get(&key).unwrap_or(&d0), wd.get(&key).unwrap_or(&d0));
            let show = |b: &SumBounds| json!({"lower": fmt_attos(&b.lo), "nonzero": b.nonzero, "upper": b.upper().map(|u| fmt_attos(&u)), "required_ids": b.required, "allowed_ids": b.allowed, "invocations": b.contributions});
            let ctxj = |what: &str| json!({"account": a, "resource": name, "what": what, "observed_deposited": fmt_attos(&f.dep), "observed_withdrawn": fmt_attos(&f.wd), "observed_deposited_ids": f.dep_ids, "observed_withdrawn_ids": f.wd_ids, "static_deposit_bounds": show(db), "static_withdraw_bounds": show(wb)});
            // gross deposits within the summed deposit bounds
            for (dir, b, amt, ids) in [("deposit", db, &f.dep, &f.dep_ids), ("withdraw", wb, &f.wd, &f.wd_ids)] {
                if b.contributions == 0 {
                    if !amt.is_zero() {
                        problems.push((format!("{dir}-of-resource-the-analysis-says-cannot-move"), ctxj(dir)));
                    }
                    continue;
                }
                shard.count("c38:bounds_evaluated");
                if b.upper().is_some() {
                    shard.count("c38:bounds_with_finite_upper");
                }
                if *amt < b.lo || (b.nonzero && !amt.is_positive()) {
                    problems.push((format!("{dir}-below-lower-bound"), ctxj(dir)));
                }
                if let Some(u) = b.upper() {
                    if *amt > u {
                        problems.push((format!("{dir}-above-upper-bound"), ctxj(dir)));
                    }
                }
                if !w.res[r].fungible {
                    let idset: BTreeSet<u64> = ids.iter().cloned().collect();
                    if !b.required.is_subset(&idset) {
                        problems.push((format!("{dir}-required-ids-not-moved"), ctxj(dir)));
                    }
                    if let Some(al) = &b.allowed {
                        if !idset.is_subset(al) {
                            problems.push((format!("{dir}-ids-outside-allowlist"), ctxj(dir)));
                        }
                    }
                    if !b.required.is_empty() || b.allowed.is_some() {
                        shard.count("c38:id_bounds_evaluated");
                    }
                }
            }
            // net change of the vault balance (pre/post database) within [dep.lo - wd.hi, dep.hi - wd.lo]
            let (p0, p1) = (pre[&key].amount(), post[&key].amount());
            let net = &p1 - &p0;
            if let Some(wu) = wb.upper() {
                if net < &db.lo - &wu {
                    problems.push(("net-balance-change-below-bounds".into(), ctxj("net")));
                }
            }
            if let Some(du) = db.upper() {
                if net > &du - &wb.lo {
                    problems.push(("net-balance-change-above-bounds".into(), ctxj("net")));
                }
            }
            shard.count("c38:net_changes_evaluated");
        }
    }

    // the aggregated view the analyser offers (net deposits after cancelling known ids)
    match output.resolve_account_changes() {
        Err(_) => shard.count("c38:resolve_account_changes_error"),
        Ok((_net_withdraws, net_deposits)) => {
            for (addr, nd) in &net_deposits {
                let Some(a) = acct_index.get(addr) else { continue };
                for r in 0..w.res.len() {
                    let key = (*a, r);
                    let f = flows.get(&key).cloned().unwrap_or_default();
                    let b = nd.bounds_for(w.res[r].address);
                    let (l, u) = b.numeric_bounds();
                    let (lo, nz) = lb_dec(&l);
                    shard.count("c38:aggregated_deposit_bounds_evaluated");
                    let cancel_max = if w.res[r].fungible { BigInt::zero() } else { f.dep.clone().min(f.wd.clone()) };
                    // exists x in [0, cancel_max] (whole ids) with dep - x within [lo, hi]
                    let lowest = &f.dep - &cancel_max;
                    let ok_hi = match u {
                        UpperBound::Unbounded => true,
                        UpperBound::Inclusive(d) => lowest <= big_of(d),
                    };
                    let ok_lo = f.dep >= lo && (!nz || f.dep.is_positive());
                    let post_ids: BTreeSet<u64> = match &post[&key] {
                        Holding::N(s) => s.clone(),
                        _ => BTreeSet::new(),
                    };
                    let req: BTreeSet<u64> = b.required_ids().iter().filter_map(id_num).collect();
                    let ok_req = req.is_subset(&post_ids);
                    if !(ok_hi && ok_lo && ok_req) {
                        problems.push((
                            "aggregated-net-deposit-bounds-violated".into(),
                            json!({"account": a, "resource": w.res[r].name, "observed_deposited": fmt_attos(&f.dep), "observed_withdrawn": fmt_attos(&f.wd), "bounds": format!("{:?}", b), "ids_after": post_ids}),
                        ));
                    }
                }
            }
        }
    }

    for (sig, d) in problems {
        shard.violation_for("C38", sig, detail(ctx, w, case, obs_json(d)));
    }
}
