//! Abstract manifest instructions of the flow checks and their lowering to real
//! `InstructionV2` / `InstructionV1` values. Bucket and proof ids are raw `u32`s so that
//! statically invalid manifests (stale / never-created ids) can be produced on purpose.
use crate::world::*;
use rv_ledger::prelude::*;

#[derive(Clone, Debug, PartialEq, Eq, Hash)]
pub enum Cons {
    NonZero,
    Exact(Decimal),
    AtLeast(Decimal),
    ExactNf(Vec<u64>),
    AtLeastNf(Vec<u64>),
    /// lower None = NonZero, upper None = unbounded, allowed None = any
    General { required: Vec<u64>, lower: Option<Decimal>, upper: Option<Decimal>, allowed: Option<Vec<u64>> },
}

#[derive(Clone, Copy, Debug, PartialEq, Eq, Hash)]
pub enum DepKind {
    Deposit,
    TryAbort,
    TryRefund,
}

#[derive(Clone, Copy, Debug, PartialEq, Eq, Hash)]
pub enum FeeSource {
    Faucet,
    FeeAccount,
}

#[derive(Clone, Debug, PartialEq, Eq, Hash)]
pub enum Ins {
    LockFee(FeeSource),
    /// CALL_METHOD faucet "free": 10000 XRD arrive from a component the static analyser does not know
    FaucetFree,
    Withdraw { acct: usize, res: usize, amount: Decimal },
    WithdrawNf { acct: usize, res: usize, ids: Vec<u64> },
    AcctProofAmount { acct: usize, res: usize, amount: Decimal },
    AcctProofNf { acct: usize, res: usize, ids: Vec<u64> },
    AcctBurn { acct: usize, res: usize, amount: Decimal },
    AcctBurnNf { acct: usize, res: usize, ids: Vec<u64> },
    Recall { acct: usize, res: usize, amount: Decimal },
    RecallNf { acct: usize, res: usize, ids: Vec<u64> },
    Take { res: usize, amount: Decimal },
    TakeNf { res: usize, ids: Vec<u64> },
    TakeAll { res: usize },
    Return { bucket: u32 },
    Burn { bucket: u32 },
    AssertContains { res: usize, amount: Decimal },
    AssertContainsAny { res: usize },
    AssertContainsNf { res: usize, ids: Vec<u64> },
    AssertResourcesOnly { cons: Vec<(usize, Cons)> },
    AssertResourcesInclude { cons: Vec<(usize, Cons)> },
    AssertNextCallOnly { cons: Vec<(usize, Cons)> },
    AssertNextCallInclude { cons: Vec<(usize, Cons)> },
    AssertBucket { bucket: u32, cons: Cons },
    ProofFromBucketAmount { bucket: u32, amount: Decimal },
    ProofFromBucketNf { bucket: u32, ids: Vec<u64> },
    ProofFromBucketAll { bucket: u32 },
    ProofFromAzAmount { res: usize, amount: Decimal },
    ProofFromAzNf { res: usize, ids: Vec<u64> },
    ProofFromAzAll { res: usize },
    CloneProof { proof: u32 },
    DropProof { proof: u32 },
    PushAz { proof: u32 },
    PopAz,
    DropAzProofs,
    DropAzRegular,
    DropAzSigs,
    DropNamedProofs,
    DropAllProofs,
    Deposit { acct: usize, bucket: u32, kind: DepKind },
    DepositBatch { acct: usize, buckets: Vec<u32>, kind: DepKind },
    DepositWorktop { acct: usize, kind: DepKind },
}

impl Ins {
    pub fn kind(&self) -> &'static str {
        match self {
            Ins::LockFee(_) => "lock_fee",
            Ins::FaucetFree => "faucet_free",
            Ins::Withdraw { .. } => "withdraw",
            Ins::WithdrawNf { .. } => "withdraw_nf",
            Ins::AcctProofAmount { .. } => "account_proof_of_amount",
            Ins::AcctProofNf { .. } => "account_proof_of_nf",
            Ins::AcctBurn { .. } => "account_burn",
            Ins::AcctBurnNf { .. } => "account_burn_nf",
            Ins::Recall { .. } => "recall",
            Ins::RecallNf { .. } => "recall_nf",
            Ins::Take { .. } => "take_from_worktop",
            Ins::TakeNf { .. } => "take_nf_from_worktop",
            Ins::TakeAll { .. } => "take_all_from_worktop",
            Ins::Return { .. } => "return_to_worktop",
            Ins::Burn { .. } => "burn_resource",
            Ins::AssertContains { .. } => "assert_worktop_contains",
            Ins::AssertContainsAny { .. } => "assert_worktop_contains_any",
            Ins::AssertContainsNf { .. } => "assert_worktop_contains_nf",
            Ins::AssertResourcesOnly { .. } => "assert_worktop_resources_only",
            Ins::AssertResourcesInclude { .. } => "assert_worktop_resources_include",
            Ins::AssertNextCallOnly { .. } => "assert_next_call_returns_only",
            Ins::AssertNextCallInclude { .. } => "assert_next_call_returns_include",
            Ins::AssertBucket { .. } => "assert_bucket_contents",
            Ins::ProofFromBucketAmount { .. } => "proof_from_bucket_of_amount",
            Ins::ProofFromBucketNf { .. } => "proof_from_bucket_of_nf",
            Ins::ProofFromBucketAll { .. } => "proof_from_bucket_of_all",
            Ins::ProofFromAzAmount { .. } => "proof_from_auth_zone_of_amount",
            Ins::ProofFromAzNf { .. } => "proof_from_auth_zone_of_nf",
            Ins::ProofFromAzAll { .. } => "proof_from_auth_zone_of_all",
            Ins::CloneProof { .. } => "clone_proof",
            Ins::DropProof { .. } => "drop_proof",
            Ins::PushAz { .. } => "push_to_auth_zone",
            Ins::PopAz => "pop_from_auth_zone",
            Ins::DropAzProofs => "drop_auth_zone_proofs",
            Ins::DropAzRegular => "drop_auth_zone_regular_proofs",
            Ins::DropAzSigs => "drop_auth_zone_signature_proofs",
            Ins::DropNamedProofs => "drop_named_proofs",
            Ins::DropAllProofs => "drop_all_proofs",
            Ins::Deposit { kind: DepKind::Deposit, .. } => "deposit",
            Ins::Deposit { kind: DepKind::TryAbort, .. } => "try_deposit_or_abort",
            Ins::Deposit { kind: DepKind::TryRefund, .. } => "try_deposit_or_refund",
            Ins::DepositBatch { kind: DepKind::Deposit, .. } => "deposit_batch",
            Ins::DepositBatch { kind: DepKind::TryAbort, .. } => "try_deposit_batch_or_abort",
            Ins::DepositBatch { kind: DepKind::TryRefund, .. } => "try_deposit_batch_or_refund",
            Ins::DepositWorktop { kind: DepKind::Deposit, .. } => "deposit_entire_worktop",
            Ins::DepositWorktop { kind: DepKind::TryAbort, .. } => "try_deposit_entire_worktop_or_abort",
            Ins::DepositWorktop { kind: DepKind::TryRefund, .. } => "try_deposit_entire_worktop_or_refund",
        }
    }

    /// Only expressible in V2 manifests.
    pub fn v2_only(&self) -> bool {
        matches!(
            self,
            Ins::AssertResourcesOnly { .. } | Ins::AssertResourcesInclude { .. } | Ins::AssertNextCallOnly { .. } | Ins::AssertNextCallInclude { .. } | Ins::AssertBucket { .. }
        )
    }
}

fn ids_vec(ids: &[u64]) -> Vec<NonFungibleLocalId> {
    ids.iter().map(|i| nf_id(*i)).collect()
}
fn ids_set(ids: &[u64]) -> IndexSet<NonFungibleLocalId> {
    ids.iter().map(|i| nf_id(*i)).collect()
}

pub fn lower_cons(c: &Cons) -> ManifestResourceConstraint {
    match c {
        Cons::NonZero => ManifestResourceConstraint::NonZeroAmount,
        Cons::Exact(d) => ManifestResourceConstraint::ExactAmount(*d),
        Cons::AtLeast(d) => ManifestResourceConstraint::AtLeastAmount(*d),
        Cons::ExactNf(ids) => ManifestResourceConstraint::ExactNonFungibles(ids_set(ids)),
        Cons::AtLeastNf(ids) => ManifestResourceConstraint::AtLeastNonFungibles(ids_set(ids)),
        Cons::General { required, lower, upper, allowed } => ManifestResourceConstraint::General(GeneralResourceConstraint {
            required_ids: ids_set(required),
            lower_bound: match lower {
                None => LowerBound::NonZero,
                Some(d) => LowerBound::Inclusive(*d),
            },
            upper_bound: match upper {
                None => UpperBound::Unbounded,
                Some(d) => UpperBound::Inclusive(*d),
            },
            allowed_ids: match allowed {
                None => AllowedIds::Any,
                Some(a) => AllowedIds::Allowlist(ids_set(a)),
            },
        }),
    }
}

fn lower_constraints(w: &World, cons: &[(usize, Cons)]) -> ManifestResourceConstraints {
    let mut out = ManifestResourceConstraints::new();
    for (r, c) in cons {
        // the generator never lists a resource twice
        out = out.with_unchecked(w.res[*r].address, lower_cons(c));
    }
    out
}

fn call(addr: ComponentAddress, method: &str, args: ManifestValue) -> InstructionV2 {
    CallMethod { address: ManifestGlobalAddress::Static(addr.into()), method_name: method.to_string(), args }.into()
}

fn no_badge() -> Option<ResourceOrNonFungible> {
    None
}

pub fn lower(w: &World, ins: &Ins) -> InstructionV2 {
    let ra = |r: &usize| w.res[*r].address;
    let acct = |a: &usize| w.accounts[*a];
    match ins {
        Ins::LockFee(FeeSource::Faucet) => call(FAUCET, "lock_fee", to_manifest_value_and_unwrap!(&(Decimal::from(5000u32),))),
        Ins::LockFee(FeeSource::FeeAccount) => call(w.fee_account, ACCOUNT_LOCK_FEE_IDENT, to_manifest_value_and_unwrap!(&(Decimal::from(500u32),))),
        Ins::FaucetFree => call(FAUCET, "free", to_manifest_value_and_unwrap!(&())),
        Ins::Withdraw { acct: a, res, amount } => call(acct(a), ACCOUNT_WITHDRAW_IDENT, to_manifest_value_and_unwrap!(&(ra(res), *amount))),
        Ins::WithdrawNf { acct: a, res, ids } => call(acct(a), ACCOUNT_WITHDRAW_NON_FUNGIBLES_IDENT, to_manifest_value_and_unwrap!(&(ra(res), ids_set(ids)))),
        Ins::AcctProofAmount { acct: a, res, amount } => call(acct(a), ACCOUNT_CREATE_PROOF_OF_AMOUNT_IDENT, to_manifest_value_and_unwrap!(&(ra(res), *amount))),
        Ins::AcctProofNf { acct: a, res, ids } => call(acct(a), ACCOUNT_CREATE_PROOF_OF_NON_FUNGIBLES_IDENT, to_manifest_value_and_unwrap!(&(ra(res), ids_set(ids)))),
        Ins::AcctBurn { acct: a, res, amount } => call(acct(a), ACCOUNT_BURN_IDENT, to_manifest_value_and_unwrap!(&(ra(res), *amount))),
        Ins::AcctBurnNf { acct: a, res, ids } => call(acct(a), ACCOUNT_BURN_NON_FUNGIBLES_IDENT, to_manifest_value_and_unwrap!(&(ra(res), ids_set(ids)))),
        Ins::Recall { acct: a, res, amount } => CallDirectVaultMethod {
            address: InternalAddress::new_or_panic(w.vaults[&(*a, *res)].0),
            method_name: VAULT_RECALL_IDENT.to_string(),
            args: to_manifest_value_and_unwrap!(&(*amount,)),
        }
        .into(),
        Ins::RecallNf { acct: a, res, ids } => CallDirectVaultMethod {
            address: InternalAddress::new_or_panic(w.vaults[&(*a, *res)].0),
            method_name: NON_FUNGIBLE_VAULT_RECALL_NON_FUNGIBLES_IDENT.to_string(),
            args: to_manifest_value_and_unwrap!(&(ids_set(ids),)),
        }
        .into(),
        Ins::Take { res, amount } => TakeFromWorktop { resource_address: ra(res), amount: *amount }.into(),
        Ins::TakeNf { res, ids } => TakeNonFungiblesFromWorktop { resource_address: ra(res), ids: ids_vec(ids) }.into(),
        Ins::TakeAll { res } => TakeAllFromWorktop { resource_address: ra(res) }.into(),
        Ins::Return { bucket } => ReturnToWorktop { bucket_id: ManifestBucket(*bucket) }.into(),
        Ins::Burn { bucket } => BurnResource { bucket_id: ManifestBucket(*bucket) }.into(),
        Ins::AssertContains { res, amount } => AssertWorktopContains { resource_address: ra(res), amount: *amount }.into(),
        Ins::AssertContainsAny { res } => AssertWorktopContainsAny { resource_address: ra(res) }.into(),
        Ins::AssertContainsNf { res, ids } => AssertWorktopContainsNonFungibles { resource_address: ra(res), ids: ids_vec(ids) }.into(),
        Ins::AssertResourcesOnly { cons } => AssertWorktopResourcesOnly { constraints: lower_constraints(w, cons) }.into(),
        Ins::AssertResourcesInclude { cons } => AssertWorktopResourcesInclude { constraints: lower_constraints(w, cons) }.into(),
        Ins::AssertNextCallOnly { cons } => AssertNextCallReturnsOnly { constraints: lower_constraints(w, cons) }.into(),
        Ins::AssertNextCallInclude { cons } => AssertNextCallReturnsInclude { constraints: lower_constraints(w, cons) }.into(),
        Ins::AssertBucket { bucket, cons } => AssertBucketContents { bucket_id: ManifestBucket(*bucket), constraint: lower_cons(cons) }.into(),
        Ins::ProofFromBucketAmount { bucket, amount } => CreateProofFromBucketOfAmount { bucket_id: ManifestBucket(*bucket), amount: *amount }.into(),
        Ins::ProofFromBucketNf { bucket, ids } => CreateProofFromBucketOfNonFungibles { bucket_id: ManifestBucket(*bucket), ids: ids_vec(ids) }.into(),
        Ins::ProofFromBucketAll { bucket } => CreateProofFromBucketOfAll { bucket_id: ManifestBucket(*bucket) }.into(),
        Ins::ProofFromAzAmount { res, amount } => CreateProofFromAuthZoneOfAmount { resource_address: ra(res), amount: *amount }.into(),
        Ins::ProofFromAzNf { res, ids } => CreateProofFromAuthZoneOfNonFungibles { resource_address: ra(res), ids: ids_vec(ids) }.into(),
        Ins::ProofFromAzAll { res } => CreateProofFromAuthZoneOfAll { resource_address: ra(res) }.into(),
        Ins::CloneProof { proof } => CloneProof { proof_id: ManifestProof(*proof) }.into(),
        Ins::DropProof { proof } => DropProof { proof_id: ManifestProof(*proof) }.into(),
        Ins::PushAz { proof } => PushToAuthZone { proof_id: ManifestProof(*proof) }.into(),
        Ins::PopAz => PopFromAuthZone.into(),
        Ins::DropAzProofs => DropAuthZoneProofs.into(),
        Ins::DropAzRegular => DropAuthZoneRegularProofs.into(),
        Ins::DropAzSigs => DropAuthZoneSignatureProofs.into(),
        Ins::DropNamedProofs => DropNamedProofs.into(),
        Ins::DropAllProofs => DropAllProofs.into(),
        Ins::Deposit { acct: a, bucket, kind } => match kind {
            DepKind::Deposit => call(acct(a), ACCOUNT_DEPOSIT_IDENT, to_manifest_value_and_unwrap!(&(ManifestBucket(*bucket),))),
            DepKind::TryAbort => call(acct(a), ACCOUNT_TRY_DEPOSIT_OR_ABORT_IDENT, to_manifest_value_and_unwrap!(&(ManifestBucket(*bucket), no_badge()))),
            DepKind::TryRefund => call(acct(a), ACCOUNT_TRY_DEPOSIT_OR_REFUND_IDENT, to_manifest_value_and_unwrap!(&(ManifestBucket(*bucket), no_badge()))),
        },
        Ins::DepositBatch { acct: a, buckets, kind } => {
            let bs: Vec<ManifestBucket> = buckets.iter().map(|b| ManifestBucket(*b)).collect();
            match kind {
                DepKind::Deposit => call(acct(a), ACCOUNT_DEPOSIT_BATCH_IDENT, to_manifest_value_and_unwrap!(&(bs,))),
                DepKind::TryAbort => call(acct(a), ACCOUNT_TRY_DEPOSIT_BATCH_OR_ABORT_IDENT, to_manifest_value_and_unwrap!(&(bs, no_badge()))),
                DepKind::TryRefund => call(acct(a), ACCOUNT_TRY_DEPOSIT_BATCH_OR_REFUND_IDENT, to_manifest_value_and_unwrap!(&(bs, no_badge()))),
            }
        }
        Ins::DepositWorktop { acct: a, kind } => {
            let e = ManifestExpression::EntireWorktop;
            match kind {
                DepKind::Deposit => call(acct(a), ACCOUNT_DEPOSIT_BATCH_IDENT, to_manifest_value_and_unwrap!(&(e,))),
                DepKind::TryAbort => call(acct(a), ACCOUNT_TRY_DEPOSIT_BATCH_OR_ABORT_IDENT, to_manifest_value_and_unwrap!(&(e, no_badge()))),
                DepKind::TryRefund => call(acct(a), ACCOUNT_TRY_DEPOSIT_BATCH_OR_REFUND_IDENT, to_manifest_value_and_unwrap!(&(e, no_badge()))),
            }
        }
    }
}

pub fn manifest_v2(w: &World, ins: &[Ins]) -> TransactionManifestV2 {
    TransactionManifestV2 { instructions: ins.iter().map(|i| lower(w, i)).collect(), blobs: Default::default(), children: Default::default(), object_names: ManifestObjectNames::Unknown }
}

/// None if some instruction only exists in V2.
pub fn manifest_v1(w: &World, ins: &[Ins]) -> Option<TransactionManifestV1> {
    let mut out = vec![];
    for i in ins {
        let v1: InstructionV1 = InstructionV1::try_from(lower(w, i)).ok()?;
        out.push(v1);
    }
    Some(TransactionManifestV1 { instructions: out, blobs: Default::default(), object_names: ManifestObjectNames::Unknown })
}

pub fn render(w: &World, ins: &[Ins]) -> String {
    let mut s = String::new();
    for (k, i) in ins.iter().enumerate() {
        let line = format!("{:?}", i);
        // annotate resource indices with their names
        s.push_str(&format!("{k:3}: {line}\n"));
    }
    s.push_str(&format!("resources: {:?}\n", w.res.iter().enumerate().map(|(i, r)| format!("{i}={}({})", r.name, if r.fungible { format!("div {}", r.divisibility) } else { "nf".into() })).collect::<Vec<_>>()));
    s
}
