//! The small world the flow checks run in: 3 observed accounts + 1 fee-payer account, three
//! fungibles (divisibility 0, 2, 18) and two integer-id non-fungibles, every resource role
//! `allow_all` (so burn / recall / mint need no badge). All set-up transactions go through the
//! monitored ledger as well.
use num_bigint::BigInt;
use rv_common::*;
use rv_ledger::actions::{all_allowed_fungible_roles, all_allowed_non_fungible_roles, Nfd};
use rv_ledger::prelude::*;
use rv_ledger::Ledger;
use std::collections::{BTreeMap, BTreeSet};

pub const N_ACCOUNTS: usize = 3;

#[derive(Clone, Debug)]
pub struct ResInfo {
    pub address: ResourceAddress,
    pub fungible: bool,
    pub divisibility: u8,
    pub name: &'static str,
    /// anyone may burn / recall (false for XRD)
    pub burnable: bool,
    pub recallable: bool,
}

impl ResInfo {
    /// smallest unit in attos
    pub fn unit(&self) -> BigInt {
        if self.fungible {
            BigInt::from(10u8).pow(18 - self.divisibility as u32)
        } else {
            BigInt::from(10u8).pow(18)
        }
    }
}

#[derive(Clone, Debug, PartialEq, Eq)]
pub enum Holding {
    F(BigInt),
    N(BTreeSet<u64>),
}

impl Holding {
    pub fn is_empty(&self) -> bool {
        match self {
            Holding::F(a) => a.sign() == num_bigint::Sign::NoSign,
            Holding::N(s) => s.is_empty(),
        }
    }
    /// amount in attos
    pub fn amount(&self) -> BigInt {
        match self {
            Holding::F(a) => a.clone(),
            Holding::N(s) => BigInt::from(s.len()) * one(),
        }
    }
    pub fn show(&self) -> String {
        match self {
            Holding::F(a) => fmt_attos(a),
            Holding::N(s) => format!("{:?}", s),
        }
    }
}

pub fn one() -> BigInt {
    BigInt::from(10u8).pow(18)
}

pub fn fmt_attos(a: &BigInt) -> String {
    let o = one();
    let neg = a.sign() == num_bigint::Sign::Minus;
    let m = if neg { -a } else { a.clone() };
    let (q, r) = (&m / &o, &m % &o);
    let frac = format!("{:0>18}", r.to_string());
    let frac = frac.trim_end_matches('0');
    format!("{}{}{}{}", if neg { "-" } else { "" }, q, if frac.is_empty() { "" } else { "." }, frac)
}

pub fn dec_of(a: &BigInt) -> Decimal {
    // attos -> Decimal (only used for values known to be in range)
    let s = fmt_attos(a);
    Decimal::try_from(s.as_str()).expect("in range")
}

pub fn big_of(d: Decimal) -> BigInt {
    rv_ledger::decode::dec_to_big(d)
}

pub fn nf_id(n: u64) -> NonFungibleLocalId {
    NonFungibleLocalId::integer(n)
}

pub fn id_num(id: &NonFungibleLocalId) -> Option<u64> {
    match id {
        NonFungibleLocalId::Integer(i) => Some(i.value()),
        _ => None,
    }
}

pub struct World {
    pub ledger: Ledger,
    pub pks: Vec<Secp256k1PublicKey>,
    pub accounts: Vec<ComponentAddress>,
    pub fee_pk: Secp256k1PublicKey,
    pub fee_account: ComponentAddress,
    pub res: Vec<ResInfo>,
    /// vault node of (account index, resource index)
    pub vaults: BTreeMap<(usize, usize), NodeId>,
    pub next_nf: u64,
}

impl World {
    pub fn new(shard: &mut Shard, rng: &mut Rng) -> World {
        let mut ledger = Ledger::new();
        let mut pks = vec![];
        let mut accounts = vec![];
        for _ in 0..N_ACCOUNTS {
            let (pk, _sk, a) = ledger.sim.new_allocated_account();
            pks.push(pk);
            accounts.push(a);
        }
        let (fee_pk, _sk, fee_account) = ledger.sim.new_allocated_account();
        let mut w = World { ledger, pks, accounts, fee_pk, fee_account, res: vec![], vaults: BTreeMap::new(), next_nf: 1 };
        for (div, name) in [(0u8, "F0"), (2, "F2"), (18, "F18")] {
            let m = ManifestBuilder::new()
                .lock_fee_from_faucet()
                .create_fungible_resource(OwnerRole::None, true, div, all_allowed_fungible_roles(), metadata!(), Some(Decimal::from(3000u32)))
                .try_deposit_entire_worktop_or_abort(w.accounts[0], None)
                .build();
            let r = w.ledger.exec(shard, "setup:create_fungible", m, vec![]);
            let address = r.receipt().expect_commit(true).new_resource_addresses()[0];
            w.res.push(ResInfo { address, fungible: true, divisibility: div, name, burnable: true, recallable: true });
        }
        for name in ["NA", "NB"] {
            let ids: Vec<u64> = (0..6).map(|_| w.fresh_nf()).collect();
            let entries: Vec<(NonFungibleLocalId, Nfd)> = ids.iter().map(|i| (nf_id(*i), Nfd { counter: 0, fixed: "f".into(), note: String::new() })).collect();
            let m = ManifestBuilder::new()
                .lock_fee_from_faucet()
                .create_non_fungible_resource(OwnerRole::None, NonFungibleIdType::Integer, true, all_allowed_non_fungible_roles(), metadata!(), Some(entries))
                .try_deposit_entire_worktop_or_abort(w.accounts[0], None)
                .build();
            let r = w.ledger.exec(shard, "setup:create_non_fungible", m, vec![]);
            let address = r.receipt().expect_commit(true).new_resource_addresses()[0];
            w.res.push(ResInfo { address, fungible: false, divisibility: 0, name, burnable: true, recallable: true });
        }
        // every account gets a vault of every resource
        for a in 1..N_ACCOUNTS {
            let mut mb = ManifestBuilder::new().lock_fee_from_faucet();
            for ri in 0..w.res.len() {
                let r = w.res[ri].clone();
                if r.fungible {
                    mb = mb.mint_fungible(r.address, Decimal::from(1000u32));
                } else {
                    let ids: Vec<u64> = (0..5).map(|_| w.fresh_nf()).collect();
                    mb = mb.mint_non_fungible(r.address, ids.iter().map(|i| (nf_id(*i), Nfd { counter: 1, fixed: "g".into(), note: String::new() })).collect::<Vec<_>>());
                }
            }
            let m = mb.try_deposit_entire_worktop_or_abort(w.accounts[a], None).build();
            let r = w.ledger.exec(shard, "setup:fund", m, vec![]);
            assert!(r.is_success(), "funding failed: {:?}", r.receipt.as_ref().map(rv_ledger::outcome_class));
        }
        // XRD takes part as a sixth resource (arrives through the faucet's `free`, an invocation the
        // static analyser does not know); it can be neither burned nor recalled by users
        w.res.push(ResInfo { address: XRD, fungible: true, divisibility: 18, name: "XRD", burnable: false, recallable: false });
        for a in 0..N_ACCOUNTS {
            for ri in 0..w.res.len() {
                let v = w.ledger.sim.get_component_vaults(w.accounts[a], w.res[ri].address);
                assert_eq!(v.len(), 1, "one vault per (account, resource)");
                w.vaults.insert((a, ri), v[0]);
            }
        }
        let _ = rng;
        w
    }

    pub fn fresh_nf(&mut self) -> u64 {
        let n = self.next_nf;
        self.next_nf += 1;
        n
    }

    pub fn proofs(&self) -> Vec<NonFungibleGlobalId> {
        let mut v: Vec<NonFungibleGlobalId> = self.pks.iter().map(NonFungibleGlobalId::from_public_key).collect();
        v.push(NonFungibleGlobalId::from_public_key(&self.fee_pk));
        v
    }

    /// What the database says account `a` holds of resource `r` (raw substate decode).
    pub fn holding(&self, a: usize, r: usize) -> Holding {
        let v = &self.vaults[&(a, r)];
        let db = self.ledger.db();
        if self.res[r].fungible {
            Holding::F(big_of(rv_ledger::decode::fungible_vault_balance(db, v).unwrap_or(Decimal::ZERO)))
        } else {
            Holding::N(rv_ledger::decode::non_fungible_vault_ids(db, v).iter().filter_map(id_num).collect())
        }
    }

    pub fn all_holdings(&self) -> BTreeMap<(usize, usize), Holding> {
        let mut m = BTreeMap::new();
        for a in 0..N_ACCOUNTS {
            for r in 0..self.res.len() {
                m.insert((a, r), self.holding(a, r));
            }
        }
        m
    }

    /// Top up accounts that ran low (burns and failed cases deplete them over a history).
    pub fn refill(&mut self, shard: &mut Shard) {
        for a in 0..N_ACCOUNTS {
            let mut mb = ManifestBuilder::new().lock_fee_from_faucet();
            let mut any = false;
            for ri in 0..self.res.len() {
                let r = self.res[ri].clone();
                match self.holding(a, ri) {
                    Holding::F(x) if !r.burnable => {
                        if x < BigInt::from(200u32) * one() {
                            mb = mb.get_free_xrd_from_faucet();
                            any = true;
                        }
                    }
                    Holding::F(x) => {
                        if x < BigInt::from(200u32) * one() {
                            mb = mb.mint_fungible(r.address, Decimal::from(1000u32));
                            any = true;
                        } else if x > BigInt::from(100_000u32) * one() {
                            mb = mb.burn_in_account(self.accounts[a], r.address, Decimal::from(90_000u32));
                            any = true;
                        }
                    }
                    Holding::N(s) => {
                        if s.len() < 4 {
                            let ids: Vec<u64> = (0..5).map(|_| self.fresh_nf()).collect();
                            mb = mb.mint_non_fungible(r.address, ids.iter().map(|i| (nf_id(*i), Nfd { counter: 2, fixed: "h".into(), note: String::new() })).collect::<Vec<_>>());
                            any = true;
                        } else if s.len() > 40 {
                            let ids: IndexSet<NonFungibleLocalId> = s.iter().take(s.len() - 10).map(|i| nf_id(*i)).collect();
                            mb = mb.burn_non_fungibles_in_account(self.accounts[a], r.address, ids);
                            any = true;
                        }
                    }
                }
            }
            if any {
                let m = mb.try_deposit_entire_worktop_or_abort(self.accounts[a], None).build();
                let proofs = self.proofs();
                let r = self.ledger.exec(shard, "setup:refill", m, proofs);
                if !r.is_success() {
                    shard.count("harness:refill_failed");
                }
            }
        }
    }
}
