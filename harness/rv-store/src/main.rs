//! C14, C15 (overlay / store equivalence), C17, C18 (state tree commitment and pruning), C19
//! (crash consistency of the RocksDB+Merkle store). Shared workload engine: W-DB (`wdb.rs`);
//! oracles: BTreeMap model (`wdb.rs`), from-scratch sparse-Merkle commitment and tree walker (`smt.rs`).
mod c14;
mod c15;
mod c17;
mod c18;
mod c19;
mod smt;
mod tmpdir;
mod wdb;

fn main() {
    let args = rv_common::parse_args();
    let code = match args.prop.as_str() {
        "C14" => c14::run(&args),
        "C15" => c15::run(&args),
        "C17" => c17::run(&args),
        "C18" => c18::run(&args),
        "C19" => c19::run(&args),
        // hidden: crash child of C19 (see c19.rs)
        "__c19_child" => c19::child_main(&args.extra),
        other => {
            eprintln!("rv-store: no check named {other}");
            2
        }
    };
    std::process::exit(code);
}
