//! C18: pruning keeps every node reachable from the current root; reported stale parts are dead
//! for the root of that commit and every later root.
use crate::smt::*;
use crate::tmpdir::TmpDir;
use crate::wdb::*;
use radix_substate_store_impls::rocks_db_with_merkle_tree::{Options, RocksDBWithMerkleTreeSubstateStore};
use radix_substate_store_impls::state_tree::tree_store::*;
use radix_substate_store_impls::state_tree::{list_substate_hashes_at_version, put_at_next_version};
use radix_substate_store_interface::interface::*;
use rv_common::*;
use serde_json::{json, Value};
use std::collections::HashMap;
use std::time::Duration;

fn detail(u: &Universe, history: &[DatabaseUpdates], upto: usize, store: &str, extra: Value) -> Value {
    json!({"universe": u.to_json(), "history": history_to_json(&history[..=upto]), "failing_commit_index": upto, "store": store, "observation": extra})
}

pub fn open_merkle(path: std::path::PathBuf, pruning: bool) -> RocksDBWithMerkleTreeSubstateStore {
    let mut options = Options::default();
    options.create_if_missing(true);
    options.create_missing_column_families(true);
    RocksDBWithMerkleTreeSubstateStore::with_options(&options, path, pruning)
}

/// Runs one history; `with_rocks` additionally feeds a pruning RocksDB+Merkle store.
pub fn run_history(shard: &mut Shard, u: &Universe, history: &[DatabaseUpdates], with_rocks: bool) -> bool {
    let pruning = TypedInMemoryTreeStore::new().with_pruning_enabled();
    let keeping = TypedInMemoryTreeStore::new();
    let tmp = if with_rocks { Some(TmpDir::new("c18")) } else { None };
    let mut rocks = tmp.as_ref().map(|t| open_merkle(t.sub("merkle"), true));
    let mut model = Model::default();
    // node key -> version whose commit reported it stale
    let mut dead: HashMap<StoredTreeNodeKey, u64> = HashMap::new();
    let mut stale_seen = 0usize;
    for (i, upd) in history.iter().enumerate() {
        let version = i as u64 + 1;
        let parent = Some(version - 1).filter(|v| *v > 0);
        model.apply(upd);
        let want = value_hashes(&model);
        shard.nontrivial(&(hash_updates(upd), h64(&model)));

        // ---------------- non-pruning store: stale parts must be dead
        let r = catch_mut(|| put_at_next_version(&keeping, parent, upd));
        if let Err(p) = r {
            shard.eval();
            shard.violation_for("C17", format!("put_at_next_version-panicked@{}", p.site()), detail(u, history, i, "typed", json!({"panic": p.summary()})));
            return false;
        }
        {
            let buf = keeping.stale_part_buffer.borrow();
            for part in &buf[stale_seen..] {
                let mut keys = vec![];
                match part {
                    StaleTreePart::Node(k) => {
                        shard.count("stale_parts:node");
                        if keeping.get_node(k).is_none() {
                            shard.count("stale_parts:node_never_stored");
                        }
                        keys.push(k.clone());
                    }
                    StaleTreePart::Subtree(k) => {
                        shard.count("stale_parts:subtree");
                        expand_subtree(&keeping, k, &mut keys);
                        shard.max("stale_subtree_nodes", keys.len() as u64);
                    }
                }
                for k in keys {
                    dead.entry(k).or_insert(version);
                }
            }
            stale_seen = buf.len();
        }
        shard.eval();
        let keep_walk = match walk_tree(&keeping, version) {
            Ok(w) => w,
            Err(e) => {
                // nothing is ever removed from this store: a failed walk is a tree defect (C17)
                shard.violation_for("C17", format!("tree-walk:{}", e.class()), detail(u, history, i, "typed", json!({"walk_error": format!("{e:?}")})));
                return false;
            }
        };
        shard.count("roots_checked_against_stale_parts");
        for k in &keep_walk.reachable {
            if let Some(v) = dead.get(k) {
                let sig = if *v == version { "stale-part-reachable-from-root-of-same-commit" } else { "stale-part-reachable-from-later-root" };
                shard.violation_for("C18", sig, detail(u, history, i, "typed", json!({"node": format!("v{}:{}", k.version(), k.nibble_path()), "reported_stale_at_version": v, "reachable_from_root_version": version})));
                return false;
            }
        }
        shard.add("reachable_nodes_checked_against_stale_set", keep_walk.reachable.len() as u64);
        shard.max("dead_set_size", dead.len() as u64);
        shard.max("tree_depth_nibbles", keep_walk.max_depth_nibbles as u64);
        if keep_walk.substates != want {
            shard.violation_for("C17", "walked-leaves-differ-from-stored-values", detail(u, history, i, "typed", json!({"state": model.to_json()})));
            return false;
        }

        // ---------------- pruning store: everything reachable must still be there
        if let Err(p) = catch_mut(|| put_at_next_version(&pruning, parent, upd)) {
            shard.eval();
            shard.violation_for("C18", format!("commit-on-pruned-tree-panicked@{}", p.site()), detail(u, history, i, "typed_pruning", json!({"panic": p.summary()})));
            return false;
        }
        shard.eval();
        match walk_tree(&pruning, version) {
            Ok(w) => {
                shard.count("pruned_tree_fully_walked");
                if w.substates != want {
                    shard.violation_for("C18", "pruned-tree-state-differs-from-stored-values", detail(u, history, i, "typed_pruning", json!({"state": model.to_json()})));
                    return false;
                }
                let stored = pruning.tree_nodes.borrow().len();
                shard.max("pruning_store_unreachable_nodes_left(informational)", (stored.saturating_sub(w.reachable.len())) as u64);
                shard.max("live_tree_nodes", w.reachable.len() as u64);
            }
            Err(e @ WalkError::Missing { .. }) => {
                shard.violation_for("C18", "pruning-removed-node-reachable-from-current-root", detail(u, history, i, "typed_pruning", json!({"walk_error": format!("{e:?}")})));
                return false;
            }
            Err(e) => {
                shard.violation_for("C17", format!("tree-walk:{}", e.class()), detail(u, history, i, "typed_pruning", json!({"walk_error": format!("{e:?}")})));
                return false;
            }
        }
        // the tree's own reader must be able to read the current state in full as well
        match catch_mut(|| list_substate_hashes_at_version(&pruning, version)) {
            Ok(l) => {
                let got: SubstateHashes = l.into_iter().map(|(pk, m)| ((pk.node_key, pk.partition_num), m.into_iter().map(|(s, h)| (s.0, h.0)).collect())).collect();
                if got != want {
                    shard.violation_for("C18", "pruned-tree-state-differs-from-stored-values", detail(u, history, i, "typed_pruning", json!({"reader": "list_substate_hashes_at_version"})));
                    return false;
                }
            }
            Err(p) => {
                shard.violation_for("C18", "pruning-removed-node-reachable-from-current-root", detail(u, history, i, "typed_pruning", json!({"reader": "list_substate_hashes_at_version", "panic": p.summary()})));
                return false;
            }
        }

        // ---------------- RocksDB + Merkle store with its own pruning loop
        if let Some(db) = rocks.as_mut() {
            if let Err(p) = catch_mut(|| db.commit(upd)) {
                shard.violation_for("C18", format!("commit-on-pruned-tree-panicked@{}", p.site()), detail(u, history, i, "rocksdb_merkle_pruning", json!({"panic": p.summary()})));
                return false;
            }
            shard.eval();
            shard.count("rocksdb_pruned_tree_walks");
            match walk_tree(&*db, version) {
                Ok(w) => {
                    if w.substates != want {
                        shard.violation_for("C18", "pruned-tree-state-differs-from-stored-values", detail(u, history, i, "rocksdb_merkle_pruning", json!({"state": model.to_json()})));
                        return false;
                    }
                    if db.get_current_root_hash().0 != w.root || db.get_current_version() != version {
                        shard.violation_for("C17", "root-differs-from-from-scratch-commitment", detail(u, history, i, "rocksdb_merkle_pruning", json!({"got_root": hex(&db.get_current_root_hash().0), "walked_root": hex(&w.root)})));
                        return false;
                    }
                }
                Err(e @ WalkError::Missing { .. }) => {
                    shard.violation_for("C18", "pruning-removed-node-reachable-from-current-root", detail(u, history, i, "rocksdb_merkle_pruning", json!({"walk_error": format!("{e:?}")})));
                    return false;
                }
                Err(e) => {
                    shard.violation_for("C17", format!("tree-walk:{}", e.class()), detail(u, history, i, "rocksdb_merkle_pruning", json!({"walk_error": format!("{e:?}")})));
                    return false;
                }
            }
        }
    }
    drop(rocks);
    true
}

fn one_history(rng: &mut Rng, shard: &mut Shard, with_rocks: bool) {
    let u = gen_universe(rng, true);
    shard.seen("entity_key_style", u.entity_style);
    for s in &u.sort_styles {
        shard.seen("sort_key_style", s);
    }
    let opts = GenOpts { odd_shapes: rng.chance(1, 4), churn: true };
    let n = 2 + rng.usize_below(if with_rocks { 10 } else { 18 });
    let mut model = Model::default();
    let mut history = gen_history(rng, &u, &mut model, n, opts, shard);
    // sometimes merge neighbouring commits into bigger batches (other deletion paths)
    if rng.chance(1, 4) && history.len() >= 4 {
        let mut merged = vec![];
        for pair in history.chunks(2) {
            merged.push(if pair.len() == 2 { merge_updates(&pair[0], &pair[1]) } else { pair[0].clone() });
        }
        history = merged;
        shard.count("histories_with_merged_commits");
    }
    shard.count("histories");
    if with_rocks {
        shard.count("histories_with_rocksdb_store");
    }
    let ok = run_history(shard, &u, &history, with_rocks);
    if ok && shard.want_sample() {
        shard.sample(|| json!({"commits": history.len(), "entity_key_style": u.entity_style, "sort_key_styles": u.sort_styles, "final_substates": model.substates(), "with_rocksdb": with_rocks}));
    }
}

pub fn spec() -> Spec {
    Spec::new(
        "C18",
        "exploration",
        "W-DB histories (2-19 commits, emphasis on resets, whole-entity deletion and re-creation) fed to two TypedInMemoryTreeStores: pruning (after every commit an own tier-aware walker over get_node must find every node reachable from the current root and read exactly the model's substates; list_substate_hashes_at_version must agree) and non-pruning (every part reported stale by a commit, subtrees expanded, is intersected with the set reachable from the root of that commit and of every later commit). A share of histories also drives RocksDBWithMerkleTreeSubstateStore with pruning enabled (its own pruning loop) and walks it after each commit. One evaluation = one walked (store, version); distinct = distinct (commit, state).",
    )
    .assume("walker: children via gen_child_node_key(child.version, child.nibble); nested tier root = (leaf payload version, entity_key||'_'[||partition||'_'])")
    .assume("nodes left behind unreachable in a pruning store are not a violation of C18 (reported as informational maximum)")
    .floor("evaluations", 5_000)
    .floor("distinct_nontrivial", 2_000)
    .floor("pruned_tree_fully_walked", 2_500)
    .floor("roots_checked_against_stale_parts", 2_500)
    .floor("stale_parts:node", 5_000)
    .floor("stale_parts:subtree", 300)
    .floor("rocksdb_pruned_tree_walks", 200)
    .floor("wdb:entity_deleted", 150)
    .floor("wdb:entity_recreated", 50)
    .floor("wdb:partition_recreated", 50)
    .floor("wdb:reset:empty_on_present", 100)
    .floor("wdb:reset:nonempty_on_present", 200)
}

pub fn run(args: &Args) -> i32 {
    let mut report = Report::new(args, spec());
    if let Some(path) = &args.replay {
        return replay(path, report);
    }
    let per_shard = scaled(args, args.tier.pick(800, 35_000));
    let budget = Duration::from_secs(budget_secs(args.tier, 45, 600));
    report.run_shards(18, args.threads, budget, |_i, rng, shard| {
        let mut n = 0;
        while n < per_shard && !shard.time_up() {
            let mut r = rng.fork();
            one_history(&mut r, shard, n % 16 == 3);
            n += 1;
        }
    });
    report.finish()
}

fn replay(path: &std::path::Path, mut report: Report) -> i32 {
    let doc: Value = serde_json::from_str(&std::fs::read_to_string(path).expect("replay file")).expect("json");
    let d = &doc["detail"];
    let u = Universe::from_json(&d["universe"]);
    let history = history_from_json(&d["history"]);
    if history.is_empty() {
        println!("replay file does not describe a C18 case");
        return 2;
    }
    let with_rocks = d["store"].as_str() == Some("rocksdb_merkle_pruning");
    let mut shard = Shard::new(0, "C18", report.args.tier, std::time::Instant::now() + Duration::from_secs(60));
    let ok = run_history(&mut shard, &u, &history, with_rocks);
    println!("replayed {} commits: {}", history.len(), if ok { "no violation" } else { "still violates" });
    for v in &shard.violations {
        println!("  {} {} {}", v.prop, v.signature, v.detail["observation"]);
    }
    shard.nontrivial(&1);
    shard.nontrivial(&2);
    report.merge(shard);
    report.spec.floors.clear();
    report.finish()
}
