//! C19: a process death at any point of a Merkle-store commit leaves the pre- or the post-state.
//! Fault enumeration with real process death: the harness re-executes itself as a child that
//! replays the history into a fresh RocksDB directory and `abort()`s right before the n-th
//! individual database write of commit j (hook H3); the parent reopens the directory and checks.
use radix_common::prelude::index_map_new;
use crate::c18::open_merkle;
use crate::smt::*;
use crate::tmpdir::TmpDir;
use crate::wdb::*;
use radix_substate_store_impls::verif_hooks;
use radix_common::prelude::DatabaseUpdate;
use radix_substate_store_interface::interface::*;
use rv_common::*;
use serde_json::{json, Value};
use std::os::unix::process::ExitStatusExt;
use std::path::Path;
use std::process::Command;
use std::time::Duration;

pub const F1_SIGNATURE: &str = "crash-between-substate-writes-and-batch:substates-ahead-of-metadata";
const CHILD: &str = "__c19_child";

// ---------------------------------------------------------------------------------------------
// Child side
// ---------------------------------------------------------------------------------------------
/// `rv-store __c19_child <dir> <history.json> <pruning 0|1> <commit j (1-based, 0 = count mode)> <point n>`
pub fn child_main(extra: &[String]) -> i32 {
    if extra.len() != 5 {
        eprintln!("child: bad arguments {extra:?}");
        return 4;
    }
    let dir = std::path::PathBuf::from(&extra[0]);
    let history = history_from_json(&serde_json::from_str::<Value>(&std::fs::read_to_string(&extra[1]).expect("history file")).expect("history json"));
    let pruning = extra[2] == "1";
    let j: usize = extra[3].parse().expect("j");
    let n: u64 = extra[4].parse().expect("n");
    let mut db = open_merkle(dir, pruning);
    if j == 0 {
        for u in &history {
            verif_hooks::arm(0);
            db.commit(u);
            println!("{} {} {}", verif_hooks::points_seen(), db.get_current_version(), hex(&db.get_current_root_hash().0));
        }
        return 0;
    }
    for u in &history[..j - 1] {
        db.commit(u);
    }
    verif_hooks::arm(n);
    db.commit(&history[j - 1]);
    // not reached when point n exists
    println!("NOCRASH {}", verif_hooks::points_seen());
    3
}

// ---------------------------------------------------------------------------------------------
// Parent side
// ---------------------------------------------------------------------------------------------
fn spawn_child(dir: &Path, hist: &Path, pruning: bool, j: usize, n: u64) -> std::process::Output {
    let exe = std::env::current_exe().expect("current_exe");
    Command::new(exe)
        .arg(CHILD)
        .arg(dir)
        .arg(hist)
        .arg(if pruning { "1" } else { "0" })
        .arg(j.to_string())
        .arg(n.to_string())
        .env_remove("VERIF_SHOW_PANICS")
        .output()
        .expect("spawn child process")
}

pub struct Expect {
    pub models: Vec<Model>, // models[v] = state at version v (0 = empty)
    pub roots: Vec<H>,      // from-scratch commitment of models[v]
}

pub fn expectations(history: &[DatabaseUpdates]) -> Expect {
    let mut m = Model::default();
    let mut models = vec![m.clone()];
    let mut roots = vec![ZERO];
    for u in history {
        m.apply(u);
        roots.push(state_root(&m));
        models.push(m.clone());
    }
    Expect { models, roots }
}

pub fn substate_writes(u: &DatabaseUpdates) -> u64 {
    let mut n = 0;
    for nu in u.node_updates.values() {
        for pu in nu.partition_updates.values() {
            n += match pu {
                PartitionDatabaseUpdates::Delta { substate_updates } => substate_updates.len() as u64,
                PartitionDatabaseUpdates::Reset { new_substate_values } => 1 + new_substate_values.len() as u64,
            };
        }
    }
    n
}

/// Reopens a directory and decides: Ok("pre" | "post") or Err((signature, observation)).
pub fn check_reopened(dir: &Path, pruning: bool, u: &Universe, j: usize, exp: &Expect) -> Result<&'static str, (String, Value)> {
    let db = open_merkle(dir.to_path_buf(), pruning);
    let version = db.get_current_version();
    let root = db.get_current_root_hash().0;
    let actual = dump_db(&db);
    let pre = version == j as u64 - 1 && root == exp.roots[j - 1];
    let post = version == j as u64 && root == exp.roots[j];
    let obs = |extra: Value| json!({"reopened_version": version, "reopened_root": hex(&root), "pre": {"version": j - 1, "root": hex(&exp.roots[j - 1])},
        "post": {"version": j, "root": hex(&exp.roots[j])}, "more": extra});
    if !pre && !post {
        return Err(("metadata-neither-pre-nor-post".into(), obs(json!({"stored_substates": actual.to_json()}))));
    }
    let v = version as usize;
    let outcome = if pre { "pre" } else { "post" };
    if actual != exp.models[v] {
        let sig = if pre { F1_SIGNATURE.to_string() } else { "post-metadata-but-substates-differ-from-post-state".to_string() };
        let equals_post = actual == exp.models[j];
        return Err((sig, obs(json!({"stored_substates": actual.to_json(), "state_of_recorded_version": exp.models[v].to_json(), "stored_substates_equal_post_state": equals_post}))));
    }
    if state_root(&actual) != root {
        return Err(("root-does-not-commit-to-stored-substates".into(), obs(json!({"commitment_of_stored_substates": hex(&state_root(&actual))}))));
    }
    // every read and ordered listing of the reopened store
    let (mut g, mut l) = (0, 0);
    if let Some(m) = observe_db(&db, u, &exp.models[v], &[], &mut g, &mut l) {
        return Err((format!("reopened-store:{}-differs-from-{}-state", m.kind, outcome), obs(m.detail)));
    }
    if v > 0 {
        match walk_tree(&db, version) {
            Ok(w) => {
                if w.substates != value_hashes(&actual) {
                    return Err(("tree-leaves-differ-from-stored-substates".into(), obs(json!({}))));
                }
                if w.root != root {
                    return Err(("walked-tree-root-differs-from-recorded-root".into(), obs(json!({"walked_root": hex(&w.root)}))));
                }
            }
            Err(e @ WalkError::Missing { .. }) => return Err(("tree-node-missing-after-crash".into(), obs(json!({"walk_error": format!("{e:?}")})))),
            Err(e) => return Err((format!("tree-unwalkable-after-crash:{}", e.class()), obs(json!({"walk_error": format!("{e:?}")})))),
        }
    }
    Ok(outcome)
}

fn case_detail(u: &Universe, history: &[DatabaseUpdates], pruning: bool, j: usize, n: u64, points: u64, obs: Value) -> Value {
    json!({"universe": u.to_json(), "history": history_to_json(&history[..j]), "pruning": pruning, "commit": j, "crash_point": n,
           "points_of_commit": points, "substate_writes_of_commit": substate_writes(&history[j - 1]), "observation": obs})
}

/// One crash case: fresh directory, child dies before write `n` of commit `j`, parent checks.
pub fn crash_case(shard: &mut Shard, tmp: &TmpDir, hist_file: &Path, u: &Universe, history: &[DatabaseUpdates], exp: &Expect, pruning: bool, j: usize, n: u64, points: u64) -> bool {
    let dir = tmp.sub(&format!("crash-{j}-{n}"));
    let out = spawn_child(&dir, hist_file, pruning, j, n);
    if out.status.signal().is_none() {
        // the child did not die: the crash point does not exist (or the child failed) - harness trouble, not a verdict
        panic!("crash child for commit {j} point {n}/{points} ended with {:?}: {} {}", out.status, String::from_utf8_lossy(&out.stdout), String::from_utf8_lossy(&out.stderr));
    }
    shard.eval();
    shard.count("crash_points_swept");
    shard.nontrivial(&(hash_updates(&history[j - 1]), h64(&exp.models[j - 1]), n, pruning));
    let res = check_reopened(&dir, pruning, u, j, exp);
    let _ = std::fs::remove_dir_all(&dir);
    match res {
        Ok(outcome) => {
            shard.count(&format!("outcome:{outcome}"));
            true
        }
        Err((sig, obs)) => {
            shard.count(&format!("outcome:inconsistent:{sig}"));
            shard.violation_for("C19", sig, case_detail(u, history, pruning, j, n, points, obs));
            false
        }
    }
}

/// Sweeps every crash point of every commit of one history. Returns the number of commits swept.
pub fn sweep_history(shard: &mut Shard, u: &Universe, history: &[DatabaseUpdates], pruning: bool) -> usize {
    let tmp = TmpDir::new("c19");
    let hist_file = tmp.sub("history.json");
    std::fs::write(&hist_file, history_to_json(history).to_string()).expect("write history file");
    let exp = expectations(history);
    // uninterrupted run: number of crash points per commit, and the plain behaviour of the store
    let count_dir = tmp.sub("count");
    let out = spawn_child(&count_dir, &hist_file, pruning, 0, 0);
    if !out.status.success() {
        panic!("uninterrupted child failed: {:?} {}", out.status, String::from_utf8_lossy(&out.stderr));
    }
    let text = String::from_utf8_lossy(&out.stdout).to_string();
    let mut points: Vec<u64> = vec![];
    for (i, line) in text.lines().enumerate() {
        let f: Vec<&str> = line.split_whitespace().collect();
        assert!(f.len() == 3, "count line {line}");
        points.push(f[0].parse().unwrap());
        let version: u64 = f[1].parse().unwrap();
        if version != i as u64 + 1 || unhex(f[2]) != exp.roots[i + 1] {
            shard.violation_for("C17", "root-differs-from-from-scratch-commitment",
                case_detail(u, history, pruning, i + 1, 0, 0, json!({"store": "rocksdb-merkle-store (uninterrupted child)", "got_version": version, "got_root": f[2], "expected_root": hex(&exp.roots[i + 1])})));
            return 0;
        }
    }
    assert_eq!(points.len(), history.len(), "count child reported every commit");
    // the uninterrupted directory itself must reopen as the final state
    shard.eval();
    shard.count("uninterrupted_runs_reopened");
    if let Err((sig, obs)) = check_reopened(&count_dir, pruning, u, history.len(), &exp) {
        shard.violation_for("C19", format!("no-crash:{sig}"), case_detail(u, history, pruning, history.len(), 0, 0, obs));
        return 0;
    }
    let _ = std::fs::remove_dir_all(&count_dir);
    let mut swept = 0;
    for j in 1..=history.len() {
        if shard.time_up() {
            shard.count("commits_cut_short_by_time_budget");
            break;
        }
        let p = points[j - 1];
        let sw = substate_writes(&history[j - 1]);
        shard.max("points_per_commit", p);
        shard.add("substate_writes_in_swept_commits", sw);
        let upd = &history[j - 1];
        let has_reset = upd.node_updates.values().any(|n| n.partition_updates.values().any(|p| matches!(p, PartitionDatabaseUpdates::Reset { .. })));
        let has_delete = upd.node_updates.values().any(|n| n.partition_updates.values().any(|p| matches!(p, PartitionDatabaseUpdates::Delta { substate_updates } if substate_updates.values().any(|u| matches!(u, DatabaseUpdate::Delete)))));
        if has_reset {
            shard.count("commits_swept_with_partition_reset");
        }
        if has_delete {
            shard.count("commits_swept_with_deletes");
        }
        let mut all_ok = true;
        let mut complete = true;
        for n in 1..=p {
            if shard.time_up() {
                complete = false;
                break;
            }
            all_ok &= crash_case(shard, &tmp, &hist_file, u, history, &exp, pruning, j, n, p);
        }
        if !complete {
            shard.count("commits_cut_short_by_time_budget");
            break;
        }
        shard.count("commits_swept");
        shard.count(if pruning { "commits_swept:pruning_on" } else { "commits_swept:pruning_off" });
        if all_ok {
            shard.count("commits_consistent_at_every_point");
        }
        swept += 1;
    }
    swept
}

/// One substate of 300-900 KiB under every entity of the universe (distinct nodes, so that the
/// commit is spread over several node updates).
fn big_commit(rng: &mut Rng, u: &Universe) -> DatabaseUpdates {
    let mut node_updates = index_map_new();
    for e in &u.entities {
        let p = *rng.pick(&u.partitions);
        let keys = u.keys_of(p);
        if keys.is_empty() {
            continue;
        }
        let k = rng.pick(keys).clone();
        let size = 300 * 1024 + rng.usize_below(600 * 1024);
        let mut subs = index_map_new();
        subs.insert(DbSortKey(k), DatabaseUpdate::Set(rng.bytes(size)));
        let mut parts = index_map_new();
        parts.insert(p, PartitionDatabaseUpdates::Delta { substate_updates: subs });
        node_updates.insert(e.clone(), NodeDatabaseUpdates { partition_updates: parts });
    }
    DatabaseUpdates { node_updates }
}

fn one_history(rng: &mut Rng, shard: &mut Shard) -> usize {
    // very deep trees (32/50-byte keys differing in the last nibble) only multiply identical prune
    // deletes (hundreds of crash points per commit): keep such key sets at <= 4 bytes here
    let u = loop {
        let u = gen_universe(rng, true);
        if u.deepest_common_prefix_key() <= 4 {
            break u;
        }
    };
    shard.seen("entity_key_style", u.entity_style);
    for s in &u.sort_styles {
        shard.seen("sort_key_style", s);
    }
    let opts = GenOpts { odd_shapes: rng.chance(1, 5), churn: true };
    let n = 2 + rng.usize_below(5);
    let mut model = Model::default();
    let mut history = gen_history(rng, &u, &mut model, n, opts, shard);
    // Large commits: a store may treat big batches differently (intermediate flushes, chunking), so
    // one history in four contains a commit of several hundred KiB per entity (well above 1 MiB in
    // total when the universe has 3+ entities), followed by ordinary commits.
    if rng.chance(1, 4) {
        let big = big_commit(rng, &u);
        let bytes: usize = big.node_updates.values().flat_map(|n| n.partition_updates.values()).map(|p| match p {
            PartitionDatabaseUpdates::Delta { substate_updates } => substate_updates.values().map(|v| if let DatabaseUpdate::Set(b) = v { b.len() } else { 0 }).sum::<usize>(),
            PartitionDatabaseUpdates::Reset { new_substate_values } => new_substate_values.values().map(|b| b.len()).sum::<usize>(),
        }).sum();
        model.apply(&big);
        history.push(big);
        let more = 1 + rng.usize_below(2);
        history.extend(gen_history(rng, &u, &mut model, more, opts, shard));
        shard.count("histories_with_large_commit");
        if bytes >= 1 << 20 {
            shard.count("large_commits_of_1MiB_or_more");
        }
        shard.max("largest_commit_bytes", bytes as u64);
    }
    let n = history.len();
    let pruning = rng.bool();
    shard.count("histories");
    let swept = sweep_history(shard, &u, &history, pruning);
    if shard.want_sample() {
        let last_commit_json = {
            let j = updates_to_json(history.last().unwrap());
            if j.to_string().len() > 4000 { json!("(large commit omitted from the sample)") } else { j }
        };
        shard.sample(|| json!({"commits": n, "pruning": pruning, "commits_swept": swept, "substate_writes_per_commit": history.iter().map(substate_writes).collect::<Vec<_>>(),
            "last_commit": last_commit_json}));
    }
    swept
}

pub fn spec() -> Spec {
    Spec::new(
        "C19",
        "fault_enumeration",
        "for W-DB histories of 2-6 commits (pruning on and off) and for EVERY commit j and EVERY crash point n of that commit (the number of points is learned from an uninterrupted child run): a child process replays commits 1..j-1 into a fresh RocksDB directory, arms hook H3 and abort()s right before the n-th individual database write of commit j; the parent reopens the directory and requires (version, root) = pre or post, the stored substates = the model's state of that version, root = from-scratch commitment of the stored substates, every get / ordered listing = model, and the tree of that version fully walkable with leaves = hashes of the stored values. One evaluation = one crash case (one child process death); distinct = distinct (commit, pre-state, point, pruning).",
    )
    .assume("a killed process keeps the OS page cache: this models process crash / kill -9, not power loss with lost un-fsynced WAL tails")
    .assume("crash points are exactly the calls of verif_hooks::crash_point in RocksDBWithMerkleTreeSubstateStore::commit (before every individual RocksDB write)")
}

fn tier_floors(spec: Spec, tier: Tier) -> Spec {
    let k = tier.pick(1, 15);
    spec.floor("crash_points_swept", 60 * k)
        .floor("commits_swept", 12 * k)
        .floor("commits_swept:pruning_on", 3 * k)
        .floor("commits_swept:pruning_off", 3 * k)
        .floor("commits_swept_with_partition_reset", 3 * k)
        .floor("commits_swept_with_deletes", 2 * k)
        .floor("uninterrupted_runs_reopened", 4 * k)
        // post-states are observable only after the batch write, i.e. at prune deletes
        .floor("outcome:post", 8 * k)
        .floor("outcome:pre", 8 * k)
}

pub fn run(args: &Args) -> i32 {
    let mut report = Report::new(args, tier_floors(spec(), args.tier));
    if let Some(path) = &args.replay {
        return replay(path, report);
    }
    let commits_per_shard = scaled(args, args.tier.pick(8, 80)) as usize;
    let budget = Duration::from_secs(budget_secs(args.tier, 55, 780));
    report.run_shards(19, args.threads, budget, |_i, rng, shard| {
        let mut swept = 0;
        while swept < commits_per_shard && !shard.time_up() {
            let mut r = rng.fork();
            swept += one_history(&mut r, shard);
        }
    });
    let pts = report.counter("crash_points_swept");
    let sw = report.counter("substate_writes_in_swept_commits");
    let commits = report.counter("commits_swept");
    report.extra.insert(
        "layout_inference".into(),
        json!({"crash_points_swept": pts, "individual_substate_writes_in_swept_commits": sw, "commits_swept": commits,
               "note": "with substate writes outside the batch every commit has (substate writes + 1 + prune deletes) points; with substate writes inside the batch it has (1 + prune deletes)"}),
    );
    report.finish()
}

fn replay(path: &Path, mut report: Report) -> i32 {
    let doc: Value = serde_json::from_str(&std::fs::read_to_string(path).expect("replay file")).expect("json");
    let d = &doc["detail"];
    let u = Universe::from_json(&d["universe"]);
    let history = history_from_json(&d["history"]);
    let j = d["commit"].as_u64().unwrap_or(0) as usize;
    let n = d["crash_point"].as_u64().unwrap_or(0);
    if history.is_empty() || j == 0 || j > history.len() || n == 0 {
        println!("replay file does not describe a C19 crash case");
        return 2;
    }
    let pruning = d["pruning"].as_bool().unwrap_or(true);
    let mut shard = Shard::new(0, "C19", report.args.tier, std::time::Instant::now() + Duration::from_secs(120));
    let tmp = TmpDir::new("c19-replay");
    let hist_file = tmp.sub("history.json");
    std::fs::write(&hist_file, history_to_json(&history).to_string()).expect("write history file");
    let exp = expectations(&history);
    let ok = crash_case(&mut shard, &tmp, &hist_file, &u, &history, &exp, pruning, j, n, d["points_of_commit"].as_u64().unwrap_or(0));
    println!("replayed crash before write {n} of commit {j} (pruning {}): {}", pruning, if ok { "consistent" } else { "still violates" });
    for v in &shard.violations {
        println!("  {} {}", v.signature, v.detail["observation"]);
    }
    shard.nontrivial(&1);
    shard.nontrivial(&2);
    report.merge(shard);
    report.spec.floors.clear();
    report.finish()
}
