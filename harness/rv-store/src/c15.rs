//! C15: in-memory, RocksDB and RocksDB+Merkle stores are observationally equivalent.
use crate::c18::open_merkle;
use crate::smt::*;
use crate::tmpdir::TmpDir;
use crate::wdb::*;
use radix_substate_store_impls::memory_db::InMemorySubstateDatabase;
use radix_substate_store_impls::rocks_db::RocksdbSubstateStore;
use radix_substate_store_interface::interface::*;
use rv_common::*;
use serde_json::{json, Value};
use std::collections::BTreeSet;
use std::time::Duration;

fn detail(u: &Universe, history: &[DatabaseUpdates], upto: usize, store: &str, reopen_at: &[usize], extra: Value) -> Value {
    json!({"universe": u.to_json(), "history": history_to_json(&history[..=upto]), "failing_commit_index": upto, "store": store,
           "reopen_before_commit": reopen_at, "observation": extra})
}

fn check_store<D: SubstateDatabase + ListableSubstateDatabase + ?Sized>(
    shard: &mut Shard, u: &Universe, history: &[DatabaseUpdates], i: usize, reopen_at: &[usize], name: &str, db: &D, model: &Model, foreign: &[PKey],
) -> bool {
    shard.eval();
    shard.count(&format!("observations:{name}"));
    let (mut g, mut l) = (0u64, 0u64);
    let r = catch_mut(|| observe_db(db, u, model, foreign, &mut g, &mut l));
    shard.add("gets_compared", g);
    shard.add("listings_compared", l);
    match r {
        Ok(None) => {}
        Ok(Some(m)) => {
            shard.violation_for("C15", format!("{name}:{}-differs-from-model", m.kind), detail(u, history, i, name, reopen_at, m.detail));
            return false;
        }
        Err(p) => {
            shard.violation_for("C15", format!("{name}:read-panicked@{}", p.site()), detail(u, history, i, name, reopen_at, json!({"panic": p.summary()})));
            return false;
        }
    }
    // set of partitions (iteration order is not part of the property)
    let listed: Vec<DbPartitionKey> = db.list_partition_keys().collect();
    let got: BTreeSet<PKey> = listed.iter().map(|k| (k.node_key.clone(), k.partition_num)).collect();
    shard.count("partition_sets_compared");
    if got.len() != listed.len() {
        shard.count("partition_listing_with_duplicates(informational)");
    }
    let want = model.partition_set();
    if got != want {
        let show = |s: &BTreeSet<PKey>| s.iter().map(|k| json!([hex(&k.0), k.1])).collect::<Vec<_>>();
        let extra: Vec<_> = got.difference(&want).cloned().collect();
        let sig = if !extra.is_empty() { "lists-partition-without-substates" } else { "partition-with-substates-not-listed" };
        shard.violation_for("C15", format!("{name}:{sig}"), detail(u, history, i, name, reopen_at, json!({"expected": show(&want), "got": show(&got)})));
        return false;
    }
    true
}

/// `with_merkle`: universe is tree-safe and the Merkle store takes part.
pub fn run_history(shard: &mut Shard, u: &Universe, history: &[DatabaseUpdates], with_merkle: bool, merkle_pruning: bool, reopen_at: &[usize]) -> bool {
    let tmp = TmpDir::new("c15");
    let foreign = foreign_partitions(u);
    let mut mem = InMemorySubstateDatabase::standard();
    let mut rocks = Some(RocksdbSubstateStore::standard(tmp.sub("rocks")));
    let mut merkle = if with_merkle { Some(open_merkle(tmp.sub("merkle"), merkle_pruning)) } else { None };
    let mut model = Model::default();
    for (i, upd) in history.iter().enumerate() {
        if reopen_at.contains(&i) {
            // close and reopen the persistent stores (what is on disk is what counts)
            shard.count("reopens");
            drop(rocks.take());
            rocks = Some(RocksdbSubstateStore::standard(tmp.sub("rocks")));
            if with_merkle {
                drop(merkle.take());
                merkle = Some(open_merkle(tmp.sub("merkle"), merkle_pruning));
            }
        }
        model.apply(upd);
        shard.nontrivial(&(hash_updates(upd), h64(&model)));
        mem.commit(upd);
        if !check_store(shard, u, history, i, reopen_at, "in-memory-store", &mem, &model, &foreign) {
            return false;
        }
        let r = rocks.as_mut().unwrap();
        if let Err(p) = catch_mut(|| r.commit(upd)) {
            shard.violation_for("C15", format!("rocksdb-store:commit-panicked@{}", p.site()), detail(u, history, i, "rocksdb-store", reopen_at, json!({"panic": p.summary()})));
            return false;
        }
        if !check_store(shard, u, history, i, reopen_at, "rocksdb-store", &*r, &model, &foreign) {
            return false;
        }
        if let Some(m) = merkle.as_mut() {
            if let Err(p) = catch_mut(|| m.commit(upd)) {
                shard.violation_for("C15", format!("rocksdb-merkle-store:commit-panicked@{}", p.site()), detail(u, history, i, "rocksdb-merkle-store", reopen_at, json!({"panic": p.summary()})));
                return false;
            }
            if !check_store(shard, u, history, i, reopen_at, "rocksdb-merkle-store", &*m, &model, &foreign) {
                return false;
            }
            // on the way: C17's clause for this store
            let want_root = state_root(&model);
            if m.get_current_root_hash().0 != want_root || m.get_current_version() != i as u64 + 1 {
                shard.violation_for("C17", "root-differs-from-from-scratch-commitment", detail(u, history, i, "rocksdb-merkle-store", reopen_at,
                    json!({"expected_root": hex(&want_root), "got_root": hex(&m.get_current_root_hash().0), "got_version": m.get_current_version()})));
                return false;
            }
            shard.count("merkle_store_roots_checked");
        }
    }
    drop(rocks);
    drop(merkle);
    true
}

fn one_history(rng: &mut Rng, shard: &mut Shard) {
    let with_merkle = rng.chance(2, 3);
    let u = gen_universe(rng, with_merkle);
    shard.seen("entity_key_style", u.entity_style);
    for s in &u.sort_styles {
        shard.seen("sort_key_style", s);
    }
    let lens: BTreeSet<usize> = u.entities.iter().map(|e| e.len()).collect();
    if lens.len() > 1 {
        shard.count("universes_with_entity_keys_of_different_lengths");
    }
    let opts = GenOpts { odd_shapes: rng.chance(1, 3), churn: rng.bool() };
    // opening a RocksDB directory costs far more than a commit: longer histories per directory
    let n = 4 + rng.usize_below(21);
    let mut model = Model::default();
    let history = gen_history(rng, &u, &mut model, n, opts, shard);
    let mut reopen_at = vec![];
    for i in 1..n {
        if rng.chance(1, 12) {
            reopen_at.push(i);
        }
    }
    let pruning = rng.bool();
    shard.count("histories");
    shard.count(if with_merkle { "histories_three_stores" } else { "histories_two_stores_free_keys" });
    let ok = run_history(shard, &u, &history, with_merkle, pruning, &reopen_at);
    if ok && shard.want_sample() {
        shard.sample(|| json!({"commits": n, "stores": if with_merkle { 3 } else { 2 }, "entity_key_style": u.entity_style, "sort_key_styles": u.sort_styles,
            "partitions": u.partitions, "reopen_before_commit": reopen_at, "final_partitions": model.parts.len(), "last_commit": updates_to_json(history.last().unwrap())}));
    }
}

pub fn spec() -> Spec {
    Spec::new(
        "C15",
        "exploration",
        "W-DB histories (4-24 commits; partitions 0 and 255; entity keys of equal and of different lengths; empty resets; deletion of a partition's last substate) committed to InMemorySubstateDatabase, RocksdbSubstateStore and RocksDBWithMerkleTreeSubstateStore (pruning on/off; RocksDB directories under /verif/target/tmp, closed and reopened at random points, removed per history). A third of the histories uses arbitrary (prefix-related, empty) keys and then only the two tree-less stores. After every commit each store is compared with the BTreeMap model on every get, every ordered listing for every cursor (same cursor set as C14) and on the set of partition keys. One evaluation = one full observation of one store; distinct = distinct (commit, state).",
    )
    .assume("oracle: plain BTreeMap model; the order in which list_partition_keys yields partitions is not part of the property")
    .assume("keys fed to the Merkle store respect the Jellyfish precondition (prefix-free within a tree)")
    .floor("evaluations", 2_500)
    .floor("distinct_nontrivial", 900)
    .floor("observations:rocksdb-store", 900)
    .floor("observations:rocksdb-merkle-store", 500)
    .floor("partition_sets_compared", 2_500)
    .floor("listings_compared", 250_000)
    .floor("reopens", 40)
    .floor("universes_with_entity_keys_of_different_lengths", 10)
    .floor("wdb:reset:empty_on_present", 60)
    .floor("wdb:reset:nonempty_on_present", 150)
    .floor("wdb:partition_emptied_by_delta", 100)
    .floor("wdb:entity_deleted", 50)
}

pub fn run(args: &Args) -> i32 {
    let mut report = Report::new(args, spec());
    if let Some(path) = &args.replay {
        return replay(path, report);
    }
    let per_shard = scaled(args, args.tier.pick(18, 1_500));
    let budget = Duration::from_secs(budget_secs(args.tier, 50, 600));
    report.run_shards(15, args.threads, budget, |_i, rng, shard| {
        let mut n = 0;
        while n < per_shard && !shard.time_up() {
            let mut r = rng.fork();
            one_history(&mut r, shard);
            n += 1;
        }
    });
    report.finish()
}

fn replay(path: &std::path::Path, mut report: Report) -> i32 {
    let doc: Value = serde_json::from_str(&std::fs::read_to_string(path).expect("replay file")).expect("json");
    let d = &doc["detail"];
    let u = Universe::from_json(&d["universe"]);
    let history = history_from_json(&d["history"]);
    if history.is_empty() {
        println!("replay file does not describe a C15 case");
        return 2;
    }
    let reopen_at: Vec<usize> = d["reopen_before_commit"].as_array().map(|a| a.iter().map(|x| x.as_u64().unwrap_or(0) as usize).collect()).unwrap_or_default();
    let mut shard = Shard::new(0, "C15", report.args.tier, std::time::Instant::now() + Duration::from_secs(60));
    let mut ok = true;
    for pruning in [true, false] {
        ok &= run_history(&mut shard, &u, &history, u.tree_safe, pruning, &reopen_at);
    }
    println!("replayed {} commits: {}", history.len(), if ok { "no violation" } else { "still violates" });
    for v in &shard.violations {
        println!("  {} {} {}", v.prop, v.signature, v.detail["observation"]);
    }
    shard.nontrivial(&1);
    shard.nontrivial(&2);
    report.merge(shard);
    report.spec.floors.clear();
    report.finish()
}
