//! (1) The from-scratch sparse-Merkle commitment of a substate set (C17 oracle), written from the
//! property text and the tree's documented design, independent of the incremental tree code:
//!
//!   node(S, b) = 0^256                                   if S is empty
//!              = H(key ‖ value_hash)                     if S = {(key, value_hash)}
//!              = H(node(S|bit b = 0, b+1) ‖ node(S|bit b = 1, b+1))   otherwise
//!
//! over the key bits (most significant first); three nested tiers (substates by sort key with
//! value_hash = H(value); partitions by the partition byte with value_hash = root of the substate
//! tier; entities by entity key with value_hash = root of the partition tier; an empty tier has
//! no leaf in its parent).
//!
//! (2) An own reachability walker over `ReadableTreeStore::get_node` (C18), which also checks the
//! cached child hashes against the commitment of the leaves found beneath each child.
use crate::wdb::{Model, PKey};
use radix_common::crypto::hash;
use radix_substate_store_impls::state_tree::tree_store::*;
use std::collections::{BTreeMap, HashSet};

pub type H = [u8; 32];
pub const ZERO: H = [0u8; 32];

fn h2(a: &[u8], b: &[u8]) -> H {
    let mut v = Vec::with_capacity(a.len() + b.len());
    v.extend_from_slice(a);
    v.extend_from_slice(b);
    hash(v).0
}

fn bit(key: &[u8], i: usize) -> bool {
    assert!(i / 8 < key.len(), "harness precondition: keys of one tree must be prefix-free");
    (key[i / 8] >> (7 - i % 8)) & 1 == 1
}

/// Commitment of a set of (key, value_hash) leaves, all sharing their first `b` bits.
pub fn smt_node(leaves: &[(&[u8], H)], b: usize) -> H {
    match leaves.len() {
        0 => ZERO,
        1 => h2(leaves[0].0, &leaves[0].1),
        _ => {
            let mut l: Vec<(&[u8], H)> = vec![];
            let mut r: Vec<(&[u8], H)> = vec![];
            for (k, v) in leaves {
                if bit(k, b) {
                    r.push((k, *v));
                } else {
                    l.push((k, *v));
                }
            }
            h2(&smt_node(&l, b + 1), &smt_node(&r, b + 1))
        }
    }
}

pub fn smt_root(leaves: &BTreeMap<Vec<u8>, H>) -> Option<H> {
    if leaves.is_empty() {
        return None;
    }
    let v: Vec<(&[u8], H)> = leaves.iter().map(|(k, h)| (k.as_slice(), *h)).collect();
    Some(smt_node(&v, 0))
}

pub type SubstateHashes = BTreeMap<PKey, BTreeMap<Vec<u8>, H>>;

pub fn value_hashes(model: &Model) -> SubstateHashes {
    model
        .parts
        .iter()
        .map(|(k, m)| (k.clone(), m.iter().map(|(s, v)| (s.clone(), hash(v).0)).collect()))
        .collect()
}

/// State root of a set of substate hashes.
pub fn root_of_hashes(hashes: &SubstateHashes) -> H {
    let mut by_entity: BTreeMap<Vec<u8>, BTreeMap<Vec<u8>, H>> = BTreeMap::new();
    for ((e, p), subs) in hashes {
        if let Some(r) = smt_root(subs) {
            by_entity.entry(e.clone()).or_default().insert(vec![*p], r);
        }
    }
    let mut entity_leaves: BTreeMap<Vec<u8>, H> = BTreeMap::new();
    for (e, parts) in &by_entity {
        if let Some(r) = smt_root(parts) {
            entity_leaves.insert(e.clone(), r);
        }
    }
    smt_root(&entity_leaves).unwrap_or(ZERO)
}

pub fn state_root(model: &Model) -> H {
    root_of_hashes(&value_hashes(model))
}

// ---------------------------------------------------------------------------------------------
// Walker
// ---------------------------------------------------------------------------------------------
#[derive(Debug, Clone)]
pub enum WalkError {
    /// a node referenced from the walked root is not in the store
    Missing { tier: &'static str, key: String },
    NullBelowRoot { key: String },
    NullNestedRoot { tier: &'static str, key: String },
    ChildHashCache { key: String },
    ChildLeafFlag { key: String },
    OddLeafKey { key: String },
    NestedRootHash { tier: &'static str, key: String },
    SingleLeafInternal { key: String },
    Malformed { key: String, what: String },
}

impl WalkError {
    pub fn class(&self) -> &'static str {
        match self {
            WalkError::Missing { .. } => "reachable-node-missing",
            WalkError::NullBelowRoot { .. } => "null-node-below-root",
            WalkError::NullNestedRoot { .. } => "leaf-points-to-empty-nested-tier",
            WalkError::ChildHashCache { .. } => "cached-child-hash-wrong",
            WalkError::ChildLeafFlag { .. } => "cached-child-leaf-flag-wrong",
            WalkError::OddLeafKey { .. } => "leaf-key-odd-nibbles",
            WalkError::NestedRootHash { .. } => "nested-tier-root-differs-from-leaf-value-hash",
            WalkError::SingleLeafInternal { .. } => "internal-node-with-single-leaf-beneath",
            WalkError::Malformed { .. } => "malformed-node",
        }
    }
}

#[derive(Default, Debug, Clone)]
pub struct Walk {
    pub reachable: HashSet<StoredTreeNodeKey>,
    pub substates: SubstateHashes,
    pub root: H,
    pub max_depth_nibbles: usize,
    pub internal_nodes: usize,
    pub leaf_nodes: usize,
}

fn key_str(k: &StoredTreeNodeKey) -> String {
    format!("v{}:{}", k.version(), k.nibble_path())
}

struct TierLeafFound {
    key: Vec<u8>,
    value_hash: H,
    payload_version: Version,
}

struct Ctx<'a, S> {
    store: &'a S,
    walk: Walk,
}

impl<'a, S: ReadableTreeStore> Ctx<'a, S> {
    /// Visits the node `key` of the tier whose stored keys are prefixed by `prefix_len` bytes.
    /// Returns the leaves beneath and whether the node is a leaf.
    fn visit(&mut self, tier: &'static str, key: &StoredTreeNodeKey, prefix_len: usize, at_root: bool, out: &mut Vec<TierLeafFound>) -> Result<(H, bool), WalkError> {
        let Some(node) = self.store.get_node(key) else {
            return Err(WalkError::Missing { tier, key: key_str(key) });
        };
        self.walk.reachable.insert(key.clone());
        let local_nibbles = key.nibble_path().num_nibbles() - 2 * prefix_len;
        self.walk.max_depth_nibbles = self.walk.max_depth_nibbles.max(local_nibbles);
        match node {
            TreeNode::Null => {
                if at_root {
                    Ok((ZERO, false))
                } else {
                    Err(WalkError::NullBelowRoot { key: key_str(key) })
                }
            }
            TreeNode::Leaf(leaf) => {
                self.walk.leaf_nodes += 1;
                let mut nibbles: Vec<u8> = (2 * prefix_len..key.nibble_path().num_nibbles()).map(|i| u8::from(key.nibble_path().get_nibble(i))).collect();
                nibbles.extend(leaf.key_suffix.nibbles().map(u8::from));
                if nibbles.len() % 2 != 0 {
                    return Err(WalkError::OddLeafKey { key: key_str(key) });
                }
                let bytes: Vec<u8> = nibbles.chunks(2).map(|c| (c[0] << 4) | c[1]).collect();
                let hh = h2(&bytes, &leaf.value_hash.0);
                out.push(TierLeafFound { key: bytes, value_hash: leaf.value_hash.0, payload_version: leaf.last_hash_change_version });
                Ok((hh, true))
            }
            TreeNode::Internal(internal) => {
                self.walk.internal_nodes += 1;
                let start = out.len();
                let mut seen = [false; 16];
                for child in &internal.children {
                    let n = u8::from(child.nibble) as usize;
                    if seen[n] {
                        return Err(WalkError::Malformed { key: key_str(key), what: format!("duplicate child nibble {n}") });
                    }
                    seen[n] = true;
                    let ck = key.gen_child_node_key(child.version, child.nibble);
                    if child.version > key.version() {
                        return Err(WalkError::Malformed { key: key_str(key), what: format!("child {} newer than parent", key_str(&ck)) });
                    }
                    let (ch, is_leaf) = self.visit(tier, &ck, prefix_len, false, out)?;
                    if ch != child.hash.0 {
                        return Err(WalkError::ChildHashCache { key: key_str(&ck) });
                    }
                    if is_leaf != child.is_leaf {
                        return Err(WalkError::ChildLeafFlag { key: key_str(&ck) });
                    }
                }
                let beneath: Vec<(&[u8], H)> = out[start..].iter().map(|l| (l.key.as_slice(), l.value_hash)).collect();
                if beneath.len() < 2 {
                    // an internal node always has at least two leaves beneath it in a sparse
                    // Merkle tree whose single-leaf subtrees collapse to the leaf
                    return Err(WalkError::SingleLeafInternal { key: key_str(key) });
                }
                let mut sorted = beneath;
                sorted.sort();
                Ok((smt_node(&sorted, 4 * local_nibbles), false))
            }
        }
    }

    fn walk_tier(&mut self, tier: &'static str, prefix: &[u8], root_version: Version) -> Result<(Option<H>, Vec<TierLeafFound>), WalkError> {
        let root_key = StoredTreeNodeKey::new(root_version, NibblePath::new_even(prefix.to_vec()));
        let mut leaves = vec![];
        let (hh, _) = self.visit(tier, &root_key, prefix.len(), true, &mut leaves)?;
        if leaves.is_empty() {
            return Ok((None, leaves));
        }
        Ok((Some(hh), leaves))
    }
}

pub const TIER_SEPARATOR: u8 = b'_';

/// Walks the whole 3-tier tree whose entity-tier root is at `version`.
pub fn walk_tree<S: ReadableTreeStore>(store: &S, version: Version) -> Result<Walk, WalkError> {
    let mut ctx = Ctx { store, walk: Walk::default() };
    let (root, entities) = ctx.walk_tier("entity", &[], version)?;
    ctx.walk.root = root.unwrap_or(ZERO);
    for e in entities {
        let mut prefix = e.key.clone();
        prefix.push(TIER_SEPARATOR);
        let (eroot, parts) = ctx.walk_tier("partition", &prefix, e.payload_version)?;
        let ekey = StoredTreeNodeKey::new(e.payload_version, NibblePath::new_even(prefix.clone()));
        match eroot {
            None => return Err(WalkError::NullNestedRoot { tier: "partition", key: key_str(&ekey) }),
            Some(r) if r != e.value_hash => return Err(WalkError::NestedRootHash { tier: "partition", key: key_str(&ekey) }),
            _ => {}
        }
        for p in parts {
            if p.key.len() != 1 {
                return Err(WalkError::Malformed { key: key_str(&ekey), what: format!("partition leaf key of {} bytes", p.key.len()) });
            }
            let mut pprefix = prefix.clone();
            pprefix.push(p.key[0]);
            pprefix.push(TIER_SEPARATOR);
            let (proot, subs) = ctx.walk_tier("substate", &pprefix, p.payload_version)?;
            let pkey = StoredTreeNodeKey::new(p.payload_version, NibblePath::new_even(pprefix.clone()));
            match proot {
                None => return Err(WalkError::NullNestedRoot { tier: "substate", key: key_str(&pkey) }),
                Some(r) if r != p.value_hash => return Err(WalkError::NestedRootHash { tier: "substate", key: key_str(&pkey) }),
                _ => {}
            }
            let m: BTreeMap<Vec<u8>, H> = subs.into_iter().map(|s| (s.key, s.value_hash)).collect();
            ctx.walk.substates.insert((e.key.clone(), p.key[0]), m);
        }
    }
    Ok(ctx.walk)
}

/// All stored node keys beneath (and including) `key`, following children only (one tier).
pub fn expand_subtree<S: ReadableTreeStore>(store: &S, key: &StoredTreeNodeKey, out: &mut Vec<StoredTreeNodeKey>) {
    if let Some(node) = store.get_node(key) {
        out.push(key.clone());
        if let TreeNode::Internal(internal) = node {
            for c in internal.children {
                expand_subtree(store, &key.gen_child_node_key(c.version, c.nibble), out);
            }
        }
    }
}
