//! Unique scratch directories under /verif/target/tmp, removed on drop.
use std::path::{Path, PathBuf};
use std::sync::atomic::{AtomicU64, Ordering};

static COUNTER: AtomicU64 = AtomicU64::new(0);

pub struct TmpDir {
    path: PathBuf,
}

impl TmpDir {
    pub fn new(tag: &str) -> TmpDir {
        let base = PathBuf::from(rv_common::VERIF_ROOT).join("target").join("tmp");
        let n = COUNTER.fetch_add(1, Ordering::SeqCst);
        let path = base.join(format!("rv-store-{tag}-{}-{n}", std::process::id()));
        let _ = std::fs::remove_dir_all(&path);
        std::fs::create_dir_all(&path).expect("create scratch directory under /verif/target/tmp");
        TmpDir { path }
    }
    pub fn path(&self) -> &Path {
        &self.path
    }
    pub fn sub(&self, name: &str) -> PathBuf {
        self.path.join(name)
    }
}

impl Drop for TmpDir {
    fn drop(&mut self) {
        let _ = std::fs::remove_dir_all(&self.path);
    }
}
