//! C17: the state root commits exactly to the current substates, independently of batching.
use crate::smt::*;
use crate::wdb::*;
use radix_common::prelude::*;
use radix_substate_store_impls::memory_db::InMemorySubstateDatabase;
use radix_substate_store_impls::state_tree::tree_store::*;
use radix_substate_store_impls::state_tree::{list_substate_hashes_at_version, put_at_next_version};
use radix_substate_store_impls::state_tree_support::StateTreeUpdatingDatabase;
use radix_substate_store_interface::interface::*;
use rv_common::*;
use serde_json::{json, Value};
use std::time::Duration;

pub const VARIANTS: [&str; 4] = ["typed", "typed_pruning", "serialized", "state_tree_updating_database"];

pub struct Case<'a> {
    pub universe: &'a Universe,
    pub history: &'a [DatabaseUpdates],
    /// indices (exclusive ends) where a batch ends; last == history.len()
    pub cuts: Vec<usize>,
    pub variant: &'static str,
    pub batching: &'static str,
}

fn detail(case: &Case, at_batch: usize, extra: Value) -> Value {
    json!({"universe": case.universe.to_json(), "history": history_to_json(case.history), "cuts": case.cuts,
           "variant": case.variant, "batching": case.batching, "failing_batch_index": at_batch, "observation": extra})
}

fn listed_to_hashes(listed: IndexMap<DbPartitionKey, IndexMap<DbSortKey, Hash>>) -> SubstateHashes {
    listed
        .into_iter()
        .map(|(pk, m)| ((pk.node_key, pk.partition_num), m.into_iter().map(|(s, h)| (s.0, h.0)).collect()))
        .collect()
}

/// Checks one (root, listing) observation after a batch. Returns false when a violation was recorded.
fn check_observation(shard: &mut Shard, case: &Case, i: usize, state: &Model, root: H, listed: Option<SubstateHashes>) -> bool {
    let expected = state_root(state);
    shard.eval();
    if state.parts.is_empty() {
        shard.count("empty_state_root_checked");
        if root != ZERO {
            shard.violation_for("C17", "empty-state-root-nonzero", detail(case, i, json!({"got_root": hex(&root)})));
            return false;
        }
    } else {
        shard.count("nonempty_root_checked");
        if root != expected {
            shard.violation_for("C17", "root-differs-from-from-scratch-commitment",
                detail(case, i, json!({"expected_root": hex(&expected), "got_root": hex(&root), "state": state.to_json()})));
            return false;
        }
    }
    if let Some(listed) = listed {
        shard.count("substate_hash_listings_checked");
        let want = value_hashes(state);
        if listed != want {
            shard.violation_for("C17", "listed-substate-hashes-differ-from-stored-values",
                detail(case, i, json!({"expected_partitions": want.len(), "got_partitions": listed.len(), "state": state.to_json()})));
            return false;
        }
    }
    true
}

fn batches_of(case: &Case) -> Vec<DatabaseUpdates> {
    let mut out = vec![];
    let mut start = 0;
    for &end in &case.cuts {
        let mut b = case.history[start].clone();
        for u in &case.history[start + 1..end] {
            b = merge_updates(&b, u);
        }
        out.push(b);
        start = end;
    }
    out
}

fn states_of(case: &Case) -> Vec<Model> {
    let mut m = Model::default();
    let mut out = vec![];
    let mut start = 0;
    for &end in &case.cuts {
        for u in &case.history[start..end] {
            m.apply(u);
        }
        out.push(m.clone());
        start = end;
    }
    out
}

fn run_on_tree_store<S: TreeStore>(shard: &mut Shard, case: &Case, store: &S) -> bool {
    let batches = batches_of(case);
    let states = states_of(case);
    let mut version: u64 = 0;
    for (i, b) in batches.iter().enumerate() {
        let r = catch_mut(|| put_at_next_version(store, Some(version).filter(|v| *v > 0), b));
        version += 1;
        let root = match r {
            Ok(h) => h.0,
            Err(p) => {
                shard.eval();
                shard.violation_for("C17", format!("put_at_next_version-panicked@{}", p.site()), detail(case, i, json!({"panic": p.summary()})));
                return false;
            }
        };
        shard.nontrivial(&(hash_updates(b), h64(&states[i])));
        let listed = match catch_mut(|| list_substate_hashes_at_version(store, version)) {
            Ok(l) => Some(listed_to_hashes(l)),
            Err(p) => {
                shard.violation_for("C17", format!("list_substate_hashes-panicked@{}", p.site()), detail(case, i, json!({"panic": p.summary()})));
                return false;
            }
        };
        if !check_observation(shard, case, i, &states[i], root, listed) {
            return false;
        }
    }
    true
}

fn run_on_updating_db(shard: &mut Shard, case: &Case) -> bool {
    let batches = batches_of(case);
    let states = states_of(case);
    let mut db = StateTreeUpdatingDatabase::new(InMemorySubstateDatabase::standard());
    if db.get_current_root_hash().0 != ZERO {
        shard.violation_for("C17", "empty-state-root-nonzero", detail(case, 0, json!({"where": "fresh StateTreeUpdatingDatabase"})));
        return false;
    }
    for (i, b) in batches.iter().enumerate() {
        if let Err(p) = catch_mut(|| db.commit(b)) {
            shard.eval();
            shard.violation_for("C17", format!("put_at_next_version-panicked@{}", p.site()), detail(case, i, json!({"panic": p.summary()})));
            return false;
        }
        shard.nontrivial(&(hash_updates(b), h64(&states[i])));
        let root = db.get_current_root_hash().0;
        let listed = match catch_mut(|| db.list_substate_hashes()) {
            Ok(l) => Some(listed_to_hashes(l)),
            Err(p) => {
                shard.violation_for("C17", format!("list_substate_hashes-panicked@{}", p.site()), detail(case, i, json!({"panic": p.summary()})));
                return false;
            }
        };
        if !check_observation(shard, case, i, &states[i], root, listed) {
            return false;
        }
        // the store's own self-validation must agree as well (its substates are the model's)
        if dump_db(&db) == states[i] {
            if let Err(e) = db.validate_state_tree_matches_substate_store() {
                shard.violation_for("C17", "validate_state_tree_matches_substate_store-fails", detail(case, i, json!({"error": format!("{e:?}")})));
                return false;
            }
        }
    }
    true
}

pub fn run_case(shard: &mut Shard, case: &Case) -> bool {
    shard.count(&format!("variant:{}", case.variant));
    shard.count(&format!("batching:{}", case.batching));
    match case.variant {
        "typed" => run_on_tree_store(shard, case, &TypedInMemoryTreeStore::new()),
        "typed_pruning" => run_on_tree_store(shard, case, &TypedInMemoryTreeStore::new().with_pruning_enabled()),
        "serialized" => run_on_tree_store(shard, case, &SerializedInMemoryTreeStore::new()),
        _ => run_on_updating_db(shard, case),
    }
}

pub fn random_cuts(rng: &mut Rng, n: usize) -> Vec<usize> {
    let mut cuts = vec![];
    for i in 1..n {
        if rng.chance(2, 5) {
            cuts.push(i);
        }
    }
    cuts.push(n);
    cuts
}

fn one_history(rng: &mut Rng, shard: &mut Shard) {
    let u = gen_universe(rng, true);
    shard.seen("entity_key_style", u.entity_style);
    for s in &u.sort_styles {
        shard.seen("sort_key_style", s);
    }
    let opts = GenOpts { odd_shapes: rng.chance(1, 3), churn: rng.bool() };
    let n = 1 + rng.usize_below(14);
    let mut model = Model::default();
    let history = gen_history(rng, &u, &mut model, n, opts, shard);
    shard.count("histories");
    shard.max("substates_in_final_state", model.substates() as u64);
    let variants: Vec<&'static str> = {
        let mut v = VARIANTS.to_vec();
        rng.shuffle(&mut v);
        v
    };
    // (a) one commit per update
    let a = Case { universe: &u, history: &history, cuts: (1..=n).collect(), variant: variants[0], batching: "one_commit_per_update" };
    let mut ok = run_case(shard, &a);
    // (b) random batches
    let b = Case { universe: &u, history: &history, cuts: random_cuts(rng, n), variant: variants[1], batching: "random_batches" };
    ok &= run_case(shard, &b);
    // (c) one batch
    let c = Case { universe: &u, history: &history, cuts: vec![n], variant: variants[2], batching: "single_batch" };
    ok &= run_case(shard, &c);
    if ok {
        shard.count("histories_with_three_batchings_agreeing_with_commitment");
    }
    if shard.want_sample() {
        let fin = state_root(&model);
        shard.sample(|| json!({"commits": n, "entity_key_style": u.entity_style, "sort_key_styles": u.sort_styles, "final_substates": model.substates(),
            "final_root": hex(&fin), "batchings": [a.cuts.len(), b.cuts.len(), 1], "first_commit": updates_to_json(&history[0])}));
    }
}

pub fn spec() -> Spec {
    Spec::new(
        "C17",
        "exploration",
        "W-DB histories (1-14 commits over <=6 entities x <=4 partitions x <=12 sort keys; deltas, deletes, empty and non-empty resets, emptied partitions/entities, re-creation) applied to the real 3-tier tree (TypedInMemoryTreeStore with and without pruning, SerializedInMemoryTreeStore, StateTreeUpdatingDatabase) three times: one commit per update, random consecutive batches, one single batch. After every batch: returned root vs from-scratch sparse-Merkle commitment of the model's substates; all-zero root for the empty state; list_substate_hashes_at_version vs hashes of the model's values. One evaluation = one (batch, resulting state) observation; distinct = distinct (batch, state) pairs.",
    )
    .assume("blake2b-256 (`radix_common::crypto::hash`) is the trusted hash primitive; the oracle is the textbook sparse Merkle tree over key bits with single-leaf subtrees collapsed to H(key||value_hash), three nested tiers")
    .assume("keys of one tree are prefix-free (documented Jellyfish precondition); batches are merged by the harness' own merge (delta over delta, delta over reset, reset wins)")
    .floor("evaluations", 50_000)
    .floor("distinct_nontrivial", 20_000)
    .floor("empty_state_root_checked", 50)
    .floor("nonempty_root_checked", 4_000)
    .floor("substate_hash_listings_checked", 4_000)
    .floor("wdb:reset:nonempty_on_present", 200)
    .floor("wdb:reset:empty_on_present", 100)
    .floor("wdb:partition_emptied_by_delta", 100)
    .floor("wdb:entity_deleted", 100)
    .floor("wdb:entity_recreated", 30)
    .floor("wdb:history:reset_then_delta", 100)
    .floor("wdb:history:delta_then_reset", 100)
    .floor("batching:random_batches", 300)
    .floor("batching:single_batch", 300)
}

pub fn run(args: &Args) -> i32 {
    let mut report = Report::new(args, spec());
    if let Some(path) = &args.replay {
        return replay(path, report);
    }
    let per_shard = scaled(args, args.tier.pick(10_000, 250_000));
    let budget = Duration::from_secs(budget_secs(args.tier, 45, 600));
    report.run_shards(17, args.threads, budget, |_i, rng, shard| {
        let mut n = 0;
        while n < per_shard && !shard.time_up() {
            let mut r = rng.fork();
            one_history(&mut r, shard);
            n += 1;
        }
    });
    report.finish()
}

fn replay(path: &std::path::Path, mut report: Report) -> i32 {
    let doc: Value = serde_json::from_str(&std::fs::read_to_string(path).expect("replay file")).expect("json");
    let d = &doc["detail"];
    let u = Universe::from_json(&d["universe"]);
    let history = history_from_json(&d["history"]);
    let cuts: Vec<usize> = d["cuts"].as_array().map(|a| a.iter().map(|x| x.as_u64().unwrap_or(0) as usize).collect()).unwrap_or_default();
    let variant = VARIANTS.iter().copied().find(|v| Some(*v) == d["variant"].as_str()).unwrap_or("typed");
    if history.is_empty() || cuts.is_empty() {
        println!("replay file does not describe a C17 case");
        return 2;
    }
    let mut shard = Shard::new(0, "C17", report.args.tier, std::time::Instant::now() + Duration::from_secs(60));
    let case = Case { universe: &u, history: &history, cuts, variant, batching: "replay" };
    let ok = run_case(&mut shard, &case);
    println!("replayed {} commits in {} batches on {}: {}", history.len(), case.cuts.len(), variant, if ok { "no violation" } else { "still violates" });
    for v in &shard.violations {
        println!("  {} {}", v.signature, v.detail["observation"]);
    }
    shard.nontrivial(&1);
    shard.nontrivial(&2);
    report.merge(shard);
    report.spec.floors.clear();
    report.finish()
}
