//! C14: a database overlay behaves like the base database with the commits applied, and merging
//! the overlay into the base yields that database.
use crate::wdb::*;
use radix_substate_store_impls::memory_db::InMemorySubstateDatabase;
use radix_substate_store_impls::substate_database_overlay::*;
use radix_substate_store_interface::interface::*;
use rv_common::*;
use serde_json::{json, Value};
use std::time::Duration;

pub const MODES: [&str; 5] = ["unmergeable", "mergeable", "owned", "nested_owned_over_unmergeable", "nested_mergeable_chain"];

pub struct Case {
    pub universe: Universe,
    pub base_history: Vec<DatabaseUpdates>,
    pub history: Vec<DatabaseUpdates>,
    pub mode: &'static str,
    /// for nested modes: commits [..split] go to the inner overlay, the rest to the outer one
    pub split: usize,
}

impl Case {
    fn to_json(&self, at: Option<usize>, extra: Value) -> Value {
        json!({"universe": self.universe.to_json(), "base_history": history_to_json(&self.base_history), "history": history_to_json(&self.history),
               "mode": self.mode, "split": self.split, "failing_commit_index": at, "observation": extra})
    }
}

struct Tally {
    gets: u64,
    lists: u64,
}

/// Observes `db` against the model; records a violation under `sig_prefix` on mismatch.
fn check_reads<D: SubstateDatabase + ?Sized>(shard: &mut Shard, case: &Case, at: Option<usize>, what: &str, db: &D, model: &Model, foreign: &[PKey], t: &mut Tally) -> bool {
    shard.eval();
    match catch_mut(|| observe_db(db, &case.universe, model, foreign, &mut t.gets, &mut t.lists)) {
        Ok(None) => true,
        Ok(Some(m)) => {
            shard.violation_for("C14", format!("{what}:{}-differs-from-base-with-commits-applied", m.kind), case.to_json(at, m.detail));
            false
        }
        Err(p) => {
            shard.violation_for("C14", format!("{what}:panicked@{}", p.site()), case.to_json(at, json!({"panic": p.summary()})));
            false
        }
    }
}

pub fn run_case(shard: &mut Shard, case: &Case) -> bool {
    shard.count(&format!("mode:{}", case.mode));
    let mut t = Tally { gets: 0, lists: 0 };
    let foreign = foreign_partitions(&case.universe);
    // base content, built directly
    let mut base = InMemorySubstateDatabase::standard();
    let mut model = Model::default();
    for u in &case.base_history {
        base.commit(u);
        model.apply(u);
    }
    // sanity of the base itself (an in-memory store defect would be C15's)
    {
        let (mut g, mut l) = (0, 0);
        if let Some(m) = observe_db(&base, &case.universe, &model, &foreign, &mut g, &mut l) {
            shard.violation_for("C15", format!("in-memory-store:{}-differs-from-model", m.kind), case.to_json(None, m.detail));
            return false;
        }
    }
    // base' = base with the same commits applied directly
    let mut direct = base.clone();
    let base_model = model.clone();
    let mut ok = true;
    let n = case.history.len();
    macro_rules! step {
        ($ov:expr, $i:expr, $u:expr) => {{
            $ov.commit($u);
            model.apply($u);
            direct.commit($u);
            shard.nontrivial(&(hash_updates($u), h64(&model), h64(&base_model)));
            if !check_reads(shard, case, Some($i), "overlay", &$ov, &model, &foreign, &mut t) {
                ok = false;
            }
        }};
    }
    match case.mode {
        "unmergeable" => {
            let mut ov = SubstateDatabaseOverlay::new_unmergeable(&base);
            ok &= check_reads(shard, case, None, "overlay", &ov, &model, &foreign, &mut t);
            for (i, u) in case.history.iter().enumerate() {
                if !ok {
                    break;
                }
                step!(ov, i, u);
            }
            if ok {
                // merging by hand: the overlay's accumulated updates applied to a copy of the base
                let mut merged = base.clone();
                merged.commit(&ov.database_updates());
                ok &= check_merged(shard, case, &merged, &direct, &model, &foreign, &mut t);
            }
        }
        "mergeable" => {
            let mut root = base.clone();
            {
                let mut ov = SubstateDatabaseOverlay::new_mergeable(&mut root);
                for (i, u) in case.history.iter().enumerate() {
                    if !ok {
                        break;
                    }
                    step!(ov, i, u);
                }
                if ok {
                    ov.commit_overlay_into_root_store();
                    // after the merge the (now empty) overlay still has to read as the same database
                    ok &= check_reads(shard, case, Some(n), "overlay-after-merge", &ov, &model, &foreign, &mut t);
                }
            }
            if ok {
                ok &= check_merged(shard, case, &root, &direct, &model, &foreign, &mut t);
            }
        }
        "owned" => {
            let mut ov = SubstateDatabaseOverlay::new_owned(base.clone());
            for (i, u) in case.history.iter().enumerate() {
                if !ok {
                    break;
                }
                step!(ov, i, u);
            }
            if ok {
                ov.commit_overlay_into_root_store();
                let (root, rest) = ov.deconstruct();
                if !rest.node_updates.is_empty() {
                    shard.count("overlay_not_empty_after_merge(informational)");
                }
                ok &= check_merged(shard, case, &root, &direct, &model, &foreign, &mut t);
            }
        }
        "nested_owned_over_unmergeable" => {
            let mut inner = SubstateDatabaseOverlay::new_unmergeable(&base);
            for (i, u) in case.history[..case.split].iter().enumerate() {
                if !ok {
                    break;
                }
                step!(inner, i, u);
            }
            if ok {
                let mut outer = SubstateDatabaseOverlay::new_owned(inner);
                for (i, u) in case.history[case.split..].iter().enumerate() {
                    if !ok {
                        break;
                    }
                    step!(outer, case.split + i, u);
                }
                if ok {
                    // merge outer into inner, then read through inner
                    outer.commit_overlay_into_root_store();
                    let (inner, _) = outer.deconstruct();
                    ok &= check_reads(shard, case, Some(n), "inner-overlay-after-merge-of-outer", &inner, &model, &foreign, &mut t);
                    if ok {
                        let mut merged = base.clone();
                        merged.commit(&inner.database_updates());
                        ok &= check_merged(shard, case, &merged, &direct, &model, &foreign, &mut t);
                    }
                }
            }
        }
        _ => {
            // nested_mergeable_chain: outer(&mut inner(&mut root)); merge outer → inner → root
            let mut root = base.clone();
            {
                let mut inner = SubstateDatabaseOverlay::new_mergeable(&mut root);
                for (i, u) in case.history[..case.split].iter().enumerate() {
                    if !ok {
                        break;
                    }
                    step!(inner, i, u);
                }
                if ok {
                    {
                        let mut outer = SubstateDatabaseOverlay::new_mergeable(&mut inner);
                        for (i, u) in case.history[case.split..].iter().enumerate() {
                            if !ok {
                                break;
                            }
                            step!(outer, case.split + i, u);
                        }
                        if ok {
                            outer.commit_overlay_into_root_store();
                        }
                    }
                    if ok {
                        ok &= check_reads(shard, case, Some(n), "inner-overlay-after-merge-of-outer", &inner, &model, &foreign, &mut t);
                        inner.commit_overlay_into_root_store();
                    }
                }
            }
            if ok {
                ok &= check_merged(shard, case, &root, &direct, &model, &foreign, &mut t);
            }
        }
    }
    shard.add("gets_compared", t.gets);
    shard.add("listings_compared", t.lists);
    ok
}

fn check_merged(shard: &mut Shard, case: &Case, merged: &InMemorySubstateDatabase, direct: &InMemorySubstateDatabase, model: &Model, foreign: &[PKey], t: &mut Tally) -> bool {
    shard.count("merges_checked");
    if !check_reads(shard, case, Some(case.history.len()), "merged-base", merged, model, foreign, t) {
        return false;
    }
    // the merged base and the directly-updated base are the same kind of store: they must also
    // hold the same set of partitions
    let a = dump_db(merged);
    let b = dump_db(direct);
    if a != *model || b != *model || merged != direct {
        let what = if b != *model { "directly-updated-base-differs-from-model" } else { "merged-base-differs-from-directly-updated-base" };
        let prop = if b != *model { "C15" } else { "C14" };
        shard.violation_for(prop, what, case.to_json(Some(case.history.len()), json!({"merged": a.to_json(), "direct": b.to_json(), "model": model.to_json()})));
        return false;
    }
    true
}

pub fn gen_case(rng: &mut Rng, shard: &mut Shard) -> Case {
    // overlays sit on tree-less stores: arbitrary keys (prefix-related, empty) are fair game
    let tree_safe = rng.chance(1, 3);
    let u = gen_universe(rng, tree_safe);
    shard.seen("entity_key_style", u.entity_style);
    for s in &u.sort_styles {
        shard.seen("sort_key_style", s);
    }
    let opts = GenOpts { odd_shapes: rng.chance(1, 2), churn: rng.bool() };
    let mut model = Model::default();
    let nb = rng.usize_below(5);
    let mut scratch = Shard::new(0, "C14", shard.tier, shard.deadline);
    let base_history = gen_history(rng, &u, &mut model, nb, opts, &mut scratch);
    if model.parts.is_empty() {
        shard.count("empty_base");
    } else {
        shard.count("nonempty_base");
    }
    let n = 1 + rng.usize_below(12);
    let history = gen_history(rng, &u, &mut model, n, opts, shard);
    let mode = *rng.pick(&MODES);
    let split = rng.usize_below(n + 1);
    Case { universe: u, base_history, history, mode, split }
}

pub fn spec() -> Spec {
    Spec::new(
        "C14",
        "exploration",
        "random bases (0-4 W-DB commits on an InMemorySubstateDatabase) and W-DB histories of 1-12 commits made to an overlay (unmergeable, mergeable, owned, overlay over overlay in two flavours); key universes include prefix-related keys, the empty sort key and chains k, k||00, k||00||00. After every commit every get and every ordered listing for every cursor in {None, each present key, key||0x00, key with last byte +-1, key minus last byte, absent universe keys, empty key, ff ff ff} over every partition of the universe (+2 foreign ones) is compared with a BTreeMap model of base-with-commits-applied; after the history the overlay is merged and the base is compared with the model and with a base that received the commits directly. One evaluation = one full observation of a database state; distinct = distinct (commit, state, base).",
    )
    .assume("oracle: plain BTreeMap model; list_partition_keys of the overlay is not verdict-bearing (DESIGN C14)")
    .floor("evaluations", 20_000)
    .floor("distinct_nontrivial", 10_000)
    .floor("merges_checked", 2_000)
    .floor("nonempty_base", 1_500)
    .floor("listings_compared", 1_000_000)
    .floor("wdb:history:reset_then_delta", 300)
    .floor("wdb:history:delta_then_reset", 300)
    .floor("wdb:reset:empty_on_present", 300)
    .floor("wdb:partition_emptied_by_delta", 300)
    .floor("mode:nested_owned_over_unmergeable", 200)
    .floor("mode:nested_mergeable_chain", 200)
}

pub fn run(args: &Args) -> i32 {
    let mut report = Report::new(args, spec());
    if let Some(path) = &args.replay {
        return replay(path, report);
    }
    let per_shard = scaled(args, args.tier.pick(12_000, 400_000));
    let budget = Duration::from_secs(budget_secs(args.tier, 45, 600));
    report.run_shards(14, args.threads, budget, |_i, rng, shard| {
        let mut n = 0;
        while n < per_shard && !shard.time_up() {
            let mut r = rng.fork();
            let case = gen_case(&mut r, shard);
            shard.count("histories");
            let ok = run_case(shard, &case);
            if ok && shard.want_sample() {
                shard.sample(|| json!({"mode": case.mode, "base_commits": case.base_history.len(), "commits": case.history.len(),
                    "entity_key_style": case.universe.entity_style, "sort_key_styles": case.universe.sort_styles, "last_commit": updates_to_json(case.history.last().unwrap())}));
            }
            n += 1;
        }
    });
    report.finish()
}

fn replay(path: &std::path::Path, mut report: Report) -> i32 {
    let doc: Value = serde_json::from_str(&std::fs::read_to_string(path).expect("replay file")).expect("json");
    let d = &doc["detail"];
    let history = history_from_json(&d["history"]);
    if history.is_empty() {
        println!("replay file does not describe a C14 case");
        return 2;
    }
    let mode = MODES.iter().copied().find(|m| Some(*m) == d["mode"].as_str()).unwrap_or("unmergeable");
    let case = Case { universe: Universe::from_json(&d["universe"]), base_history: history_from_json(&d["base_history"]), history, mode, split: d["split"].as_u64().unwrap_or(0) as usize };
    let mut shard = Shard::new(0, "C14", report.args.tier, std::time::Instant::now() + Duration::from_secs(60));
    let ok = run_case(&mut shard, &case);
    println!("replayed {} base commits + {} overlay commits ({}): {}", case.base_history.len(), case.history.len(), mode, if ok { "no violation" } else { "still violates" });
    for v in &shard.violations {
        println!("  {} {} {}", v.prop, v.signature, v.detail["observation"]);
    }
    shard.nontrivial(&1);
    shard.nontrivial(&2);
    report.merge(shard);
    report.spec.floors.clear();
    report.finish()
}
