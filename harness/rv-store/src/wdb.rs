//! W-DB: seeded generator of `DatabaseUpdates` histories over small key universes, the plain
//! BTreeMap reference model of a substate database, JSON (de)serialisation of histories for
//! replay, and the generic observation routine (every get, every ordered listing from every
//! cursor) shared by C14 / C15 / C19.
use radix_common::prelude::*;
use radix_substate_store_interface::db_key_mapper::{DatabaseKeyMapper, SpreadPrefixKeyMapper};
use radix_substate_store_interface::interface::*;
use rv_common::{hex, unhex, Rng, Shard};
use serde_json::{json, Value};
use std::collections::{BTreeMap, BTreeSet};

pub type PKey = (Vec<u8>, u8);

pub fn pkey(p: &PKey) -> DbPartitionKey {
    DbPartitionKey { node_key: p.0.clone(), partition_num: p.1 }
}

// ---------------------------------------------------------------------------------------------
// Reference model: what a substate database *is*, per the property text.
// ---------------------------------------------------------------------------------------------
#[derive(Clone, Default, PartialEq, Eq, Debug, Hash)]
pub struct Model {
    /// Only non-empty partitions are kept.
    pub parts: BTreeMap<PKey, BTreeMap<Vec<u8>, Vec<u8>>>,
}

impl Model {
    pub fn apply(&mut self, u: &DatabaseUpdates) {
        for (node, nu) in &u.node_updates {
            for (pn, pu) in &nu.partition_updates {
                let k = (node.clone(), *pn);
                let part = self.parts.entry(k.clone()).or_default();
                match pu {
                    PartitionDatabaseUpdates::Delta { substate_updates } => {
                        for (sk, upd) in substate_updates {
                            match upd {
                                DatabaseUpdate::Set(v) => {
                                    part.insert(sk.0.clone(), v.clone());
                                }
                                DatabaseUpdate::Delete => {
                                    part.remove(&sk.0);
                                }
                            }
                        }
                    }
                    PartitionDatabaseUpdates::Reset { new_substate_values } => {
                        part.clear();
                        for (sk, v) in new_substate_values {
                            part.insert(sk.0.clone(), v.clone());
                        }
                    }
                }
                if part.is_empty() {
                    self.parts.remove(&k);
                }
            }
        }
    }
    pub fn get(&self, p: &PKey, sk: &[u8]) -> Option<Vec<u8>> {
        self.parts.get(p).and_then(|m| m.get(sk)).cloned()
    }
    /// Ordered listing of a partition starting at the first key >= `from` (or the start).
    pub fn list(&self, p: &PKey, from: Option<&[u8]>) -> Vec<(Vec<u8>, Vec<u8>)> {
        match self.parts.get(p) {
            None => vec![],
            Some(m) => m
                .iter()
                .filter(|(k, _)| from.map(|f| k.as_slice() >= f).unwrap_or(true))
                .map(|(k, v)| (k.clone(), v.clone()))
                .collect(),
        }
    }
    pub fn partition_set(&self) -> BTreeSet<PKey> {
        self.parts.keys().cloned().collect()
    }
    pub fn substates(&self) -> usize {
        self.parts.values().map(|m| m.len()).sum()
    }
    pub fn entities(&self) -> BTreeSet<Vec<u8>> {
        self.parts.keys().map(|k| k.0.clone()).collect()
    }
    pub fn to_json(&self) -> Value {
        Value::Array(
            self.parts
                .iter()
                .map(|(k, m)| {
                    json!({"node": hex(&k.0), "partition": k.1,
                           "substates": m.iter().map(|(s, v)| json!([hex(s), hex(v)])).collect::<Vec<_>>()})
                })
                .collect(),
        )
    }
}

// ---------------------------------------------------------------------------------------------
// Key universes
// ---------------------------------------------------------------------------------------------
#[derive(Clone, Debug)]
pub struct Universe {
    /// true: every tree of the 3-tier state tree only ever sees prefix-free keys (documented
    /// precondition of the Jellyfish tree); false: arbitrary keys (stores without a tree).
    pub tree_safe: bool,
    pub entities: Vec<Vec<u8>>,
    pub partitions: Vec<u8>,
    /// sort-key universe of partition number `partitions[i]`
    pub sort_keys: Vec<Vec<Vec<u8>>>,
    pub entity_style: &'static str,
    pub sort_styles: Vec<&'static str>,
}

pub fn prefix_related(a: &[u8], b: &[u8]) -> bool {
    let n = a.len().min(b.len());
    a[..n] == b[..n]
}

fn prefix_free(keys: &[Vec<u8>]) -> bool {
    for i in 0..keys.len() {
        for j in 0..i {
            if prefix_related(&keys[i], &keys[j]) {
                return false;
            }
        }
    }
    true
}

const TINY: [u8; 8] = [0x00, 0x01, 0x10, 0x0f, 0xf0, 0xff, 0x5f, 0x80];

fn tiny_bytes(rng: &mut Rng, n: usize, alphabet: usize) -> Vec<u8> {
    (0..n).map(|_| TINY[rng.usize_below(alphabet)]).collect()
}

/// Fixed-length keys sharing a long common prefix (deep trees: the keys differ only in the last
/// byte / last nibble / first nibble).
fn deep_keys(rng: &mut Rng, want: usize, len: usize) -> Vec<Vec<u8>> {
    let base = rng.bytes(len);
    let mut out: Vec<Vec<u8>> = vec![];
    let mut tries = 0;
    while out.len() < want && tries < 200 {
        tries += 1;
        let mut k = base.clone();
        match rng.below(4) {
            0 => {
                let i = len - 1;
                k[i] = (k[i] & 0xf0) | (rng.below(16) as u8);
            }
            1 => {
                let i = len - 1;
                k[i] = rng.u8();
            }
            2 => {
                k[0] = (k[0] & 0x0f) | ((rng.below(16) as u8) << 4);
            }
            _ => {
                let i = rng.usize_below(len);
                k[i] ^= 1 << rng.below(8);
            }
        }
        if !out.contains(&k) {
            out.push(k);
        }
    }
    out
}

fn gen_key_set(rng: &mut Rng, want: usize, tree_safe: bool, for_entities: bool) -> (Vec<Vec<u8>>, &'static str) {
    let style = rng.below(if tree_safe { 6 } else { 8 });
    let (mut keys, name): (Vec<Vec<u8>>, &'static str) = match style {
        0 => {
            if for_entities {
                // the mapper's 50-byte entity keys
                (
                    (0..want)
                        .map(|_| {
                            let mut id = [0u8; NodeId::LENGTH];
                            rng.fill(&mut id);
                            SpreadPrefixKeyMapper::to_db_node_key(&NodeId(id))
                        })
                        .collect(),
                    "mapper_node_key",
                )
            } else {
                // map keys through the mapper (hash prefix ‖ key, variable length)
                (
                    (0..want)
                        .map(|_| {
                            let n = rng.usize_below(7);
                            SpreadPrefixKeyMapper::map_to_db_sort_key(&tiny_bytes(rng, n, 3)).0
                        })
                        .collect(),
                    "mapper_map_key",
                )
            }
        }
        1 => {
            if for_entities {
                ((0..want).map(|_| tiny_bytes(rng, 2, 6)).collect(), "fixed2_tiny_alphabet")
            } else {
                // field keys: one byte
                ((0..want).map(|_| vec![if rng.bool() { rng.u8() } else { *rng.pick(&TINY) }]).collect(), "field_key")
            }
        }
        2 => {
            if for_entities {
                ((0..want).map(|_| tiny_bytes(rng, 1, 8)).collect(), "fixed1")
            } else {
                (
                    (0..want)
                        .map(|_| {
                            let n = rng.usize_below(4);
                            let p = [*rng.pick(&[0u8, 0xff, 0x7f]), *rng.pick(&[0u8, 1, 0xff])];
                            SpreadPrefixKeyMapper::sorted_to_db_sort_key(&(p, tiny_bytes(rng, n, 3))).0
                        })
                        .collect(),
                    "mapper_sorted_key",
                )
            }
        }
        3 => {
            let len = *rng.pick(&[2usize, 3, 4, 8]);
            let alphabet = 2 + rng.usize_below(5);
            ((0..want).map(|_| tiny_bytes(rng, len, alphabet)).collect(), "fixed_len_tiny_alphabet")
        }
        4 => {
            let len = *rng.pick(&[2usize, 4, 16, 32, 50]);
            (deep_keys(rng, want, len), "fixed_len_long_common_prefix")
        }
        5 => {
            // different lengths but prefix-free (rejection sampling)
            let mut out: Vec<Vec<u8>> = vec![];
            let mut tries = 0;
            while out.len() < want && tries < 300 {
                tries += 1;
                let n = 1 + rng.usize_below(4);
                let k = tiny_bytes(rng, n, 4);
                if !out.iter().any(|o| prefix_related(o, &k)) {
                    out.push(k);
                }
            }
            (out, "mixed_len_prefix_free")
        }
        6 => {
            // arbitrary short keys: many are prefixes of each other, empty key included
            ((0..want).map(|_| { let n = rng.usize_below(4); tiny_bytes(rng, n, 3) }).collect(), "free_prefix_related")
        }
        _ => {
            // a chain k, k‖00, k‖00‖00, k‖ff ... (cursor boundary key‖0x00 is itself a key)
            let base = { let n = rng.usize_below(3); tiny_bytes(rng, n, 4) };
            let mut out = vec![base.clone()];
            while out.len() < want {
                let mut k = out[rng.usize_below(out.len())].clone();
                k.push(*rng.pick(&[0x00u8, 0x00, 0xff, 0x01]));
                out.push(k);
            }
            (out, "free_chain_00")
        }
    };
    keys.sort();
    keys.dedup();
    if tree_safe {
        // drop keys until prefix-free (mapper keys could collide only with negligible probability)
        let mut ok: Vec<Vec<u8>> = vec![];
        for k in keys {
            if !k.is_empty() && !ok.iter().any(|o| prefix_related(o, &k)) {
                ok.push(k);
            }
        }
        keys = ok;
        assert!(prefix_free(&keys));
    }
    if keys.is_empty() {
        keys.push(vec![0x42]);
    }
    rng.shuffle(&mut keys);
    (keys, name)
}

const PARTITION_POOL: [u8; 10] = [0, 255, 1, 2, 64, 0x5f, 0x0f, 0xf0, 16, 254];

pub fn gen_universe(rng: &mut Rng, tree_safe: bool) -> Universe {
    let n_e = 1 + rng.usize_below(6);
    let (entities, entity_style) = gen_key_set(rng, n_e, tree_safe, true);
    let n_p = 1 + rng.usize_below(4);
    let mut partitions: Vec<u8> = vec![];
    if rng.chance(3, 4) {
        partitions.push(0);
    }
    if rng.chance(3, 4) && partitions.len() < n_p {
        partitions.push(255);
    }
    while partitions.len() < n_p {
        let p = *rng.pick(&PARTITION_POOL);
        if !partitions.contains(&p) {
            partitions.push(p);
        }
    }
    let mut sort_keys = vec![];
    let mut sort_styles = vec![];
    for _ in &partitions {
        let n_s = 1 + rng.usize_below(12);
        let (ks, st) = gen_key_set(rng, n_s, tree_safe, false);
        sort_keys.push(ks);
        sort_styles.push(st);
    }
    Universe { tree_safe, entities, partitions, sort_keys, entity_style, sort_styles }
}

impl Universe {
    pub fn all_partitions(&self) -> Vec<PKey> {
        let mut v = vec![];
        for e in &self.entities {
            for p in &self.partitions {
                v.push((e.clone(), *p));
            }
        }
        v
    }
    /// Longest key among the key sets generated with a long common prefix (deep trees).
    pub fn deepest_common_prefix_key(&self) -> usize {
        let mut m = 0;
        if self.entity_style == "fixed_len_long_common_prefix" {
            m = self.entities.iter().map(|k| k.len()).max().unwrap_or(0);
        }
        for (i, st) in self.sort_styles.iter().enumerate() {
            if *st == "fixed_len_long_common_prefix" {
                m = m.max(self.sort_keys[i].iter().map(|k| k.len()).max().unwrap_or(0));
            }
        }
        m
    }
    pub fn keys_of(&self, partition: u8) -> &[Vec<u8>] {
        let i = self.partitions.iter().position(|p| *p == partition).expect("partition of universe");
        &self.sort_keys[i]
    }
    pub fn to_json(&self) -> Value {
        json!({"tree_safe": self.tree_safe,
               "entities": self.entities.iter().map(|e| hex(e)).collect::<Vec<_>>(),
               "partitions": self.partitions,
               "sort_keys": self.sort_keys.iter().map(|ks| ks.iter().map(|k| hex(k)).collect::<Vec<_>>()).collect::<Vec<_>>()})
    }
    pub fn from_json(v: &Value) -> Universe {
        let hexes = |a: &Value| a.as_array().map(|a| a.iter().map(|x| unhex(x.as_str().unwrap_or(""))).collect::<Vec<_>>()).unwrap_or_default();
        let partitions: Vec<u8> = v["partitions"].as_array().map(|a| a.iter().map(|x| x.as_u64().unwrap_or(0) as u8).collect()).unwrap_or_default();
        let sort_keys: Vec<Vec<Vec<u8>>> = v["sort_keys"].as_array().map(|a| a.iter().map(hexes).collect()).unwrap_or_default();
        Universe {
            tree_safe: v["tree_safe"].as_bool().unwrap_or(true),
            entities: hexes(&v["entities"]),
            sort_styles: partitions.iter().map(|_| "replay").collect(),
            partitions,
            sort_keys,
            entity_style: "replay",
        }
    }
}

// ---------------------------------------------------------------------------------------------
// Commit generator
// ---------------------------------------------------------------------------------------------
fn gen_value(rng: &mut Rng, model: &Model) -> Vec<u8> {
    match rng.below(10) {
        0 => vec![],
        1 => vec![rng.u8()],
        2 => {
            // a value already stored somewhere else (same value hash under another key)
            let all: Vec<&Vec<u8>> = model.parts.values().flat_map(|m| m.values()).collect();
            if all.is_empty() { rng.bytes(3) } else { (*rng.pick(&all)).clone() }
        }
        3 => { let n = 40; rng.bytes(n) }
        _ => { let n = rng.usize_below(41); rng.bytes(n) }
    }
}

#[derive(Clone, Copy, Debug)]
pub struct GenOpts {
    /// allow `Delete` of keys that are not present, empty deltas, entities without partition updates
    pub odd_shapes: bool,
    /// emphasis on resets / whole-entity deletion / re-creation (C18)
    pub churn: bool,
}

/// Keeps what disappeared earlier in the history so that it can be re-created on purpose.
#[derive(Default, Clone)]
pub struct Graveyard {
    pub partitions: BTreeSet<PKey>,
    pub entities: BTreeSet<Vec<u8>>,
}

pub fn gen_commit(rng: &mut Rng, u: &Universe, model: &Model, grave: &Graveyard, opts: GenOpts) -> DatabaseUpdates {
    let mut touched: BTreeMap<PKey, PartitionDatabaseUpdates> = BTreeMap::new();
    let mut empty_entities: Vec<Vec<u8>> = vec![];
    if opts.odd_shapes && rng.chance(1, 60) {
        return DatabaseUpdates::default();
    }
    let n_actions = 1 + rng.size(4);
    for _ in 0..n_actions {
        let present: Vec<PKey> = model.parts.keys().filter(|k| !touched.contains_key(*k)).cloned().collect();
        let kind = if opts.churn { rng.below(14) } else { rng.below(11) };
        match kind {
            // ---- delta on a random partition of the universe
            0..=3 => {
                let e = rng.pick(&u.entities).clone();
                let p = *rng.pick(&u.partitions);
                let k = (e, p);
                if touched.contains_key(&k) {
                    continue;
                }
                let keys = u.keys_of(p);
                let n = 1 + rng.usize_below(5.min(keys.len()));
                let mut subs: IndexMap<DbSortKey, DatabaseUpdate> = index_map_new();
                for _ in 0..n {
                    let sk = rng.pick(keys).clone();
                    let cur = model.get(&k, &sk);
                    let upd = match cur {
                        Some(v) => match rng.below(20) {
                            0 => Some(DatabaseUpdate::Set(v)), // overwrite with the identical value
                            1..=9 => Some(DatabaseUpdate::Set(gen_value(rng, model))),
                            _ => Some(DatabaseUpdate::Delete),
                        },
                        None => {
                            if opts.odd_shapes && rng.chance(1, 12) {
                                Some(DatabaseUpdate::Delete)
                            } else {
                                Some(DatabaseUpdate::Set(gen_value(rng, model)))
                            }
                        }
                    };
                    if let Some(upd) = upd {
                        subs.insert(DbSortKey(sk), upd);
                    }
                }
                if subs.is_empty() && !opts.odd_shapes {
                    continue;
                }
                touched.insert(k, PartitionDatabaseUpdates::Delta { substate_updates: subs });
            }
            // ---- reset with new values (on a present or an absent partition)
            4 | 5 | 11 => {
                let k = if !present.is_empty() && rng.chance(2, 3) { rng.pick(&present).clone() } else { (rng.pick(&u.entities).clone(), *rng.pick(&u.partitions)) };
                if touched.contains_key(&k) {
                    continue;
                }
                let keys = u.keys_of(k.1);
                let n = 1 + rng.usize_below(6.min(keys.len()));
                let mut vals: IndexMap<DbSortKey, DbSubstateValue> = index_map_new();
                for _ in 0..n {
                    let sk = rng.pick(keys).clone();
                    // sometimes exactly the value the key already has
                    let v = match model.get(&k, &sk) {
                        Some(v) if rng.chance(1, 5) => v,
                        _ => gen_value(rng, model),
                    };
                    vals.insert(DbSortKey(sk), v);
                }
                touched.insert(k, PartitionDatabaseUpdates::Reset { new_substate_values: vals });
            }
            // ---- empty reset
            6 => {
                let k = if !present.is_empty() && rng.chance(4, 5) { rng.pick(&present).clone() } else { (rng.pick(&u.entities).clone(), *rng.pick(&u.partitions)) };
                if touched.contains_key(&k) {
                    continue;
                }
                touched.insert(k, PartitionDatabaseUpdates::Reset { new_substate_values: index_map_new() });
            }
            // ---- delete every substate of the smallest present partition through a delta
            7 => {
                if let Some(k) = present.iter().min_by_key(|k| model.parts[*k].len()).cloned() {
                    let mut subs: IndexMap<DbSortKey, DatabaseUpdate> = index_map_new();
                    let mut ks: Vec<Vec<u8>> = model.parts[&k].keys().cloned().collect();
                    rng.shuffle(&mut ks);
                    for sk in ks {
                        subs.insert(DbSortKey(sk), DatabaseUpdate::Delete);
                    }
                    touched.insert(k, PartitionDatabaseUpdates::Delta { substate_updates: subs });
                }
            }
            // ---- delete a whole entity (all its partitions; delta deletes or empty resets)
            8 | 12 => {
                let ents: Vec<Vec<u8>> = model.entities().into_iter().collect();
                if ents.is_empty() {
                    continue;
                }
                let e = rng.pick(&ents).clone();
                let parts: Vec<PKey> = model.parts.keys().filter(|k| k.0 == e).cloned().collect();
                if parts.iter().any(|k| touched.contains_key(k)) {
                    continue;
                }
                for k in parts {
                    if rng.bool() {
                        let mut subs: IndexMap<DbSortKey, DatabaseUpdate> = index_map_new();
                        for sk in model.parts[&k].keys() {
                            subs.insert(DbSortKey(sk.clone()), DatabaseUpdate::Delete);
                        }
                        touched.insert(k, PartitionDatabaseUpdates::Delta { substate_updates: subs });
                    } else {
                        touched.insert(k, PartitionDatabaseUpdates::Reset { new_substate_values: index_map_new() });
                    }
                }
            }
            // ---- re-create something that was deleted earlier in this history
            9 | 13 => {
                let cands: Vec<PKey> = grave
                    .partitions
                    .iter()
                    .filter(|k| !model.parts.contains_key(*k) && !touched.contains_key(*k))
                    .cloned()
                    .collect();
                let dead_entities: Vec<&Vec<u8>> = grave.entities.iter().filter(|e| !model.parts.keys().any(|k| &k.0 == *e)).collect();
                let k = if !dead_entities.is_empty() && rng.bool() {
                    ((*rng.pick(&dead_entities)).clone(), *rng.pick(&u.partitions))
                } else if !cands.is_empty() {
                    rng.pick(&cands).clone()
                } else {
                    continue;
                };
                if touched.contains_key(&k) {
                    continue;
                }
                let keys = u.keys_of(k.1);
                let n = 1 + rng.usize_below(3.min(keys.len()));
                if rng.bool() {
                    let mut subs: IndexMap<DbSortKey, DatabaseUpdate> = index_map_new();
                    for _ in 0..n {
                        subs.insert(DbSortKey(rng.pick(keys).clone()), DatabaseUpdate::Set(gen_value(rng, model)));
                    }
                    touched.insert(k, PartitionDatabaseUpdates::Delta { substate_updates: subs });
                } else {
                    let mut vals: IndexMap<DbSortKey, DbSubstateValue> = index_map_new();
                    for _ in 0..n {
                        vals.insert(DbSortKey(rng.pick(keys).clone()), gen_value(rng, model));
                    }
                    touched.insert(k, PartitionDatabaseUpdates::Reset { new_substate_values: vals });
                }
            }
            // ---- odd shapes: empty delta, entity without partition updates
            _ => {
                if !opts.odd_shapes {
                    continue;
                }
                if rng.bool() {
                    let k = (rng.pick(&u.entities).clone(), *rng.pick(&u.partitions));
                    if !touched.contains_key(&k) {
                        touched.insert(k, PartitionDatabaseUpdates::Delta { substate_updates: index_map_new() });
                    }
                } else {
                    empty_entities.push(rng.pick(&u.entities).clone());
                }
            }
        }
    }
    // assemble in a random order (IndexMap iteration order is the insertion order)
    let mut by_entity: BTreeMap<Vec<u8>, Vec<(u8, PartitionDatabaseUpdates)>> = BTreeMap::new();
    for (k, pu) in touched {
        by_entity.entry(k.0).or_default().push((k.1, pu));
    }
    for e in empty_entities {
        by_entity.entry(e).or_default();
    }
    let mut ents: Vec<(Vec<u8>, Vec<(u8, PartitionDatabaseUpdates)>)> = by_entity.into_iter().collect();
    rng.shuffle(&mut ents);
    let mut out = DatabaseUpdates::default();
    for (e, mut parts) in ents {
        rng.shuffle(&mut parts);
        let mut nu = NodeDatabaseUpdates::default();
        for (p, pu) in parts {
            nu.partition_updates.insert(p, pu);
        }
        out.node_updates.insert(e, nu);
    }
    out
}

/// Observed (not intended) classification of a commit against the model state before it, plus the
/// history-level patterns (reset-then-delta, re-creation ...). Returns the class names.
#[derive(Default, Clone)]
pub struct HistoryTracker {
    pub grave: Graveyard,
    last_kind: BTreeMap<PKey, &'static str>,
}

impl HistoryTracker {
    pub fn observe(&mut self, before: &Model, u: &DatabaseUpdates, after: &Model) -> Vec<&'static str> {
        let mut out: Vec<&'static str> = vec![];
        if u.node_updates.is_empty() {
            out.push("empty_commit");
        }
        for (node, nu) in &u.node_updates {
            if nu.partition_updates.is_empty() {
                out.push("entity_without_partition_updates");
            }
            for (pn, pu) in &nu.partition_updates {
                let k = (node.clone(), *pn);
                let was = before.parts.contains_key(&k);
                let is = after.parts.contains_key(&k);
                match pu {
                    PartitionDatabaseUpdates::Delta { substate_updates } => {
                        if substate_updates.is_empty() {
                            out.push("delta:empty");
                        }
                        for (sk, upd) in substate_updates {
                            let cur = before.get(&k, &sk.0);
                            out.push(match (upd, cur) {
                                (DatabaseUpdate::Set(v), Some(c)) if *v == c => "delta:overwrite_same_value",
                                (DatabaseUpdate::Set(_), Some(_)) => "delta:overwrite",
                                (DatabaseUpdate::Set(_), None) => "delta:set_new",
                                (DatabaseUpdate::Delete, Some(_)) => "delta:delete_present",
                                (DatabaseUpdate::Delete, None) => "delta:delete_absent",
                            });
                        }
                        if was && !is {
                            out.push("partition_emptied_by_delta");
                        }
                        if self.last_kind.get(&k) == Some(&"reset") {
                            out.push("history:reset_then_delta");
                        }
                        self.last_kind.insert(k.clone(), "delta");
                    }
                    PartitionDatabaseUpdates::Reset { new_substate_values } => {
                        out.push(match (new_substate_values.is_empty(), was) {
                            (true, true) => "reset:empty_on_present",
                            (true, false) => "reset:empty_on_absent",
                            (false, true) => "reset:nonempty_on_present",
                            (false, false) => "reset:nonempty_on_absent",
                        });
                        if self.last_kind.get(&k) == Some(&"delta") {
                            out.push("history:delta_then_reset");
                        }
                        self.last_kind.insert(k.clone(), "reset");
                    }
                }
                if !was && is && self.grave.partitions.contains(&k) {
                    out.push("partition_recreated");
                }
                if was && !is {
                    self.grave.partitions.insert(k.clone());
                }
            }
            let e_was = before.parts.keys().any(|k| &k.0 == node);
            let e_is = after.parts.keys().any(|k| &k.0 == node);
            if e_was && !e_is {
                out.push("entity_deleted");
                self.grave.entities.insert(node.clone());
            }
            if !e_was && e_is && self.grave.entities.contains(node) {
                out.push("entity_recreated");
            }
        }
        if !before.parts.is_empty() && after.parts.is_empty() {
            out.push("state_emptied");
        }
        out
    }
}

/// Generates a history of `n` commits starting from `model` (which is advanced).
pub fn gen_history(rng: &mut Rng, u: &Universe, model: &mut Model, n: usize, opts: GenOpts, shard: &mut Shard) -> Vec<DatabaseUpdates> {
    let mut tracker = HistoryTracker::default();
    let mut out = vec![];
    for _ in 0..n {
        let upd = gen_commit(rng, u, model, &tracker.grave, opts);
        let before = model.clone();
        model.apply(&upd);
        for c in tracker.observe(&before, &upd, model) {
            shard.count(&format!("wdb:{c}"));
        }
        out.push(upd);
    }
    out
}

// ---------------------------------------------------------------------------------------------
// Merging consecutive commits into one batch (harness-side definition, independent of the
// repository's own `merge_database_updates`): the batch has the same net effect on any database.
// ---------------------------------------------------------------------------------------------
pub fn merge_updates(a: &DatabaseUpdates, b: &DatabaseUpdates) -> DatabaseUpdates {
    let mut out = a.clone();
    for (node, nu) in &b.node_updates {
        let tn = out.node_updates.entry(node.clone()).or_default();
        for (pn, pu) in &nu.partition_updates {
            match tn.partition_updates.get_mut(pn) {
                None => {
                    tn.partition_updates.insert(*pn, pu.clone());
                }
                Some(existing) => match pu {
                    PartitionDatabaseUpdates::Reset { .. } => *existing = pu.clone(),
                    PartitionDatabaseUpdates::Delta { substate_updates: later } => match existing {
                        PartitionDatabaseUpdates::Delta { substate_updates: earlier } => {
                            for (sk, upd) in later {
                                earlier.insert(sk.clone(), upd.clone());
                            }
                        }
                        PartitionDatabaseUpdates::Reset { new_substate_values } => {
                            for (sk, upd) in later {
                                match upd {
                                    DatabaseUpdate::Set(v) => {
                                        new_substate_values.insert(sk.clone(), v.clone());
                                    }
                                    DatabaseUpdate::Delete => {
                                        new_substate_values.shift_remove(sk);
                                    }
                                }
                            }
                        }
                    },
                },
            }
        }
    }
    out
}

// ---------------------------------------------------------------------------------------------
// JSON
// ---------------------------------------------------------------------------------------------
pub fn updates_to_json(u: &DatabaseUpdates) -> Value {
    Value::Array(
        u.node_updates
            .iter()
            .map(|(node, nu)| {
                let parts: Vec<Value> = nu
                    .partition_updates
                    .iter()
                    .map(|(pn, pu)| match pu {
                        PartitionDatabaseUpdates::Delta { substate_updates } => json!({"partition": pn, "delta": substate_updates.iter().map(|(sk, upd)| match upd {
                            DatabaseUpdate::Set(v) => json!([hex(&sk.0), hex(v)]),
                            DatabaseUpdate::Delete => json!([hex(&sk.0), Value::Null]),
                        }).collect::<Vec<_>>()}),
                        PartitionDatabaseUpdates::Reset { new_substate_values } => json!({"partition": pn, "reset": new_substate_values.iter().map(|(sk, v)| json!([hex(&sk.0), hex(v)])).collect::<Vec<_>>()}),
                    })
                    .collect();
                json!({"node": hex(node), "partitions": parts})
            })
            .collect(),
    )
}

pub fn updates_from_json(v: &Value) -> DatabaseUpdates {
    let mut out = DatabaseUpdates::default();
    for n in v.as_array().cloned().unwrap_or_default() {
        let node = unhex(n["node"].as_str().unwrap_or(""));
        let mut nu = NodeDatabaseUpdates::default();
        for p in n["partitions"].as_array().cloned().unwrap_or_default() {
            let pn = p["partition"].as_u64().unwrap_or(0) as u8;
            if let Some(d) = p.get("delta").and_then(|d| d.as_array()) {
                let mut subs: IndexMap<DbSortKey, DatabaseUpdate> = index_map_new();
                for e in d {
                    let sk = DbSortKey(unhex(e[0].as_str().unwrap_or("")));
                    match e[1].as_str() {
                        Some(h) => subs.insert(sk, DatabaseUpdate::Set(unhex(h))),
                        None => subs.insert(sk, DatabaseUpdate::Delete),
                    };
                }
                nu.partition_updates.insert(pn, PartitionDatabaseUpdates::Delta { substate_updates: subs });
            } else {
                let mut vals: IndexMap<DbSortKey, DbSubstateValue> = index_map_new();
                for e in p["reset"].as_array().cloned().unwrap_or_default() {
                    vals.insert(DbSortKey(unhex(e[0].as_str().unwrap_or(""))), unhex(e[1].as_str().unwrap_or("")));
                }
                nu.partition_updates.insert(pn, PartitionDatabaseUpdates::Reset { new_substate_values: vals });
            }
        }
        out.node_updates.insert(node, nu);
    }
    out
}

pub fn history_to_json(h: &[DatabaseUpdates]) -> Value {
    Value::Array(h.iter().map(updates_to_json).collect())
}
pub fn history_from_json(v: &Value) -> Vec<DatabaseUpdates> {
    v.as_array().map(|a| a.iter().map(updates_from_json).collect()).unwrap_or_default()
}

/// Order-sensitive hash of an update (behaviour signature of a commit).
pub fn hash_updates(u: &DatabaseUpdates) -> u64 {
    rv_common::h64(&updates_to_json(u).to_string())
}

// ---------------------------------------------------------------------------------------------
// Observation of a database against the model
// ---------------------------------------------------------------------------------------------
#[derive(Debug, Clone)]
pub struct Mismatch {
    pub kind: &'static str, // "get" | "list"
    pub detail: Value,
}

/// Cursor set prescribed by DESIGN: None, each present key, key‖0x00, absent keys (universe keys
/// that are not present, neighbours of present keys, the empty key, an all-0xFF key).
pub fn cursors(u: &Universe, model: &Model, p: &PKey) -> Vec<Option<Vec<u8>>> {
    let mut set: BTreeSet<Vec<u8>> = BTreeSet::new();
    if let Some(m) = model.parts.get(p) {
        for k in m.keys() {
            set.insert(k.clone());
            let mut k0 = k.clone();
            k0.push(0);
            set.insert(k0);
            if let Some(last) = k.last().copied() {
                let mut a = k.clone();
                *a.last_mut().unwrap() = last.wrapping_add(1);
                set.insert(a);
                let mut b = k.clone();
                *b.last_mut().unwrap() = last.wrapping_sub(1);
                set.insert(b);
                let mut c = k.clone();
                c.pop();
                set.insert(c);
            }
        }
    }
    if u.partitions.contains(&p.1) {
        for k in u.keys_of(p.1) {
            set.insert(k.clone());
        }
    }
    set.insert(vec![]);
    set.insert(vec![0xff; 3]);
    let mut out: Vec<Option<Vec<u8>>> = vec![None];
    out.extend(set.into_iter().map(Some));
    out
}

/// Compares every read and every ordered listing; returns the first mismatch. `gets`/`lists`
/// count what was compared.
pub fn observe_db<D: SubstateDatabase + ?Sized>(db: &D, u: &Universe, model: &Model, extra_partitions: &[PKey], gets: &mut u64, lists: &mut u64) -> Option<Mismatch> {
    let mut parts: BTreeSet<PKey> = u.all_partitions().into_iter().collect();
    parts.extend(model.parts.keys().cloned());
    parts.extend(extra_partitions.iter().cloned());
    for p in &parts {
        let pk = pkey(p);
        let curs = cursors(u, model, p);
        for c in &curs {
            if let Some(k) = c {
                *gets += 1;
                let got = db.get_raw_substate_by_db_key(&pk, &DbSortKey(k.clone()));
                let exp = model.get(p, k);
                if got != exp {
                    return Some(Mismatch { kind: "get", detail: json!({"node": hex(&p.0), "partition": p.1, "sort_key": hex(k),
                        "expected": exp.map(|v| hex(&v)), "got": got.map(|v| hex(&v))}) });
                }
            }
            *lists += 1;
            let sk = c.clone().map(DbSortKey);
            let got: Vec<(Vec<u8>, Vec<u8>)> = db.list_raw_values_from_db_key(&pk, sk.as_ref()).map(|(k, v)| (k.0, v)).collect();
            let exp = model.list(p, c.as_deref());
            if got != exp {
                let show = |l: &Vec<(Vec<u8>, Vec<u8>)>| l.iter().map(|(k, v)| json!([hex(k), hex(v)])).collect::<Vec<_>>();
                return Some(Mismatch { kind: "list", detail: json!({"node": hex(&p.0), "partition": p.1, "cursor": c.as_ref().map(|c| hex(c)),
                    "expected": show(&exp), "got": show(&got)}) });
            }
        }
    }
    None
}

/// Everything a store holds, read through its own listing API (partition set + each partition).
pub fn dump_db<D: SubstateDatabase + ListableSubstateDatabase + ?Sized>(db: &D) -> Model {
    let mut m = Model::default();
    let keys: Vec<DbPartitionKey> = db.list_partition_keys().collect();
    for pk in keys {
        let entries: BTreeMap<Vec<u8>, Vec<u8>> = db.list_raw_values_from_db_key(&pk, None).map(|(k, v)| (k.0, v)).collect();
        if !entries.is_empty() {
            m.parts.insert((pk.node_key.clone(), pk.partition_num), entries);
        }
    }
    m
}

/// A partition key that no universe produces (foreign entity), to observe untouched partitions.
pub fn foreign_partitions(u: &Universe) -> Vec<PKey> {
    let mut e = u.entities[0].clone();
    let l = e.len();
    if l > 0 {
        e[l - 1] ^= 0xA5;
    } else {
        e.push(0xA5);
    }
    let mut out = vec![];
    if !u.entities.contains(&e) {
        out.push((e, u.partitions[0]));
    }
    let odd = (0..=255u8).find(|p| !u.partitions.contains(p)).unwrap();
    out.push((u.entities[0].clone(), odd));
    out
}
