//! C07: an intent can be committed at most once before it expires; transactions are rejected
//! outside their validity window.
//!
//! Oracle (from the property text only): the harness keeps its own record of every intent it
//! ever built (keyed by harness ids, not by hashes computed by the code under test):
//! validity window, and whether/when it was committed. For a transaction carrying a root intent
//! and a set of subintents, submitted at epoch `c`, the set of reasons that *oblige* a rejection is
//!   NotYetValid    some carried intent has c < start_epoch_inclusive
//!   NoLongerValid  some carried intent has c >= end_epoch_exclusive
//!   RootReplay     the transaction intent was committed before (success or failure)
//!   SubReplay      a carried subintent was part of a transaction that committed successfully
//! If the set is non-empty the receipt must be a rejection; a commit is the refuting event.
//! (The converse - "may commit" transactions that get rejected - is the liveness direction the
//! property does not state: counted, and floors on the expected commits make such a run
//! inconclusive, never violated.)
use radix_engine::blueprints::transaction_tracker::TransactionTrackerSubstate;
use radix_transactions::validation::TransactionValidator;
use rv_common::*;
use rv_ledger::prelude::*;
use rv_ledger::{outcome_class, Ledger};
use serde_json::{json, Value};
use std::collections::{BTreeMap, BTreeSet};
use std::time::Duration;

/// Used only to aim the workload at partition boundaries; the oracle never looks at it.
const EPOCHS_PER_PARTITION: u64 = 100;

#[derive(Clone, Copy, Debug, PartialEq, Eq, PartialOrd, Ord, Hash)]
enum Reason {
    NotYetValid,
    NoLongerValid,
    RootReplay,
    SubReplay,
}

impl Reason {
    fn name(&self) -> &'static str {
        match self {
            Reason::NotYetValid => "not-yet-valid",
            Reason::NoLongerValid => "no-longer-valid",
            Reason::RootReplay => "transaction-intent-previously-committed",
            Reason::SubReplay => "subintent-previously-committed",
        }
    }
}

#[derive(Clone, Debug, PartialEq, Eq)]
enum Observed {
    CommitSuccess,
    CommitFailure,
    Reject(Option<Reason>, String),
    Other(String),
}

impl Observed {
    fn name(&self) -> String {
        match self {
            Observed::CommitSuccess => "commit-success".into(),
            Observed::CommitFailure => "commit-failure".into(),
            Observed::Reject(Some(r), _) => format!("reject:{}", r.name()),
            Observed::Reject(None, s) => format!("reject-other:{s}"),
            Observed::Other(s) => s.clone(),
        }
    }
    fn committed(&self) -> bool {
        matches!(self, Observed::CommitSuccess | Observed::CommitFailure)
    }
}

fn classify(rc: &TransactionReceipt) -> Observed {
    match &rc.result {
        TransactionResult::Commit(c) => match &c.outcome {
            TransactionOutcome::Success(_) => Observed::CommitSuccess,
            TransactionOutcome::Failure(_) => Observed::CommitFailure,
        },
        TransactionResult::Reject(r) => {
            let reason = match &r.reason {
                RejectionReason::TransactionEpochNotYetValid { .. } => Some(Reason::NotYetValid),
                RejectionReason::TransactionEpochNoLongerValid { .. } => Some(Reason::NoLongerValid),
                RejectionReason::IntentHashPreviouslyCommitted(IntentHash::Transaction(_)) => Some(Reason::RootReplay),
                RejectionReason::IntentHashPreviouslyCommitted(IntentHash::Subintent(_)) => Some(Reason::SubReplay),
                _ => None,
            };
            Observed::Reject(reason, outcome_class(rc))
        }
        TransactionResult::Abort(_) => Observed::Other(outcome_class(rc)),
    }
}

// ---------------------------------------------------------------------------------------------
// Recipes: everything needed to rebuild a transaction bit-for-bit (deterministic signatures)
// ---------------------------------------------------------------------------------------------
#[derive(Clone, Debug)]
struct PartialRecipe {
    pid: usize,
    start: u64,
    end: u64,
    disc: u64,
    /// 0 = succeeds, 1 = failing assertion before yielding to its children, 2 = after
    fail: u8,
    /// 0 = unsigned, odd = secp256k1 key n, even = ed25519 key n
    signer: u64,
    children: Vec<usize>,
}

#[derive(Clone, Debug)]
struct TxRecipe {
    id: usize,
    v2: bool,
    start: u64,
    end: u64,
    nonce: u64,
    fail: u8,
    signer: u64,
    notary: u64,
    notary_is_signatory: bool,
    tip: u32,
    partials: Vec<usize>,
}

impl PartialRecipe {
    fn to_json(&self) -> Value {
        json!({"pid": self.pid, "start": self.start, "end": self.end, "disc": self.disc, "fail": self.fail, "signer": self.signer, "children": self.children})
    }
    fn from_json(v: &Value) -> Option<Self> {
        Some(PartialRecipe {
            pid: v["pid"].as_u64()? as usize,
            start: v["start"].as_u64()?,
            end: v["end"].as_u64()?,
            disc: v["disc"].as_u64()?,
            fail: v["fail"].as_u64()? as u8,
            signer: v["signer"].as_u64()?,
            children: v["children"].as_array()?.iter().filter_map(|x| x.as_u64().map(|x| x as usize)).collect(),
        })
    }
}

impl TxRecipe {
    fn to_json(&self) -> Value {
        json!({"id": self.id, "v2": self.v2, "start": self.start, "end": self.end, "nonce": self.nonce, "fail": self.fail, "signer": self.signer,
               "notary": self.notary, "notary_is_signatory": self.notary_is_signatory, "tip": self.tip, "partials": self.partials})
    }
    fn from_json(v: &Value) -> Option<Self> {
        Some(TxRecipe {
            id: v["id"].as_u64()? as usize,
            v2: v["v2"].as_bool()?,
            start: v["start"].as_u64()?,
            end: v["end"].as_u64()?,
            nonce: v["nonce"].as_u64()?,
            fail: v["fail"].as_u64()? as u8,
            signer: v["signer"].as_u64()?,
            notary: v["notary"].as_u64()?,
            notary_is_signatory: v["notary_is_signatory"].as_bool()?,
            tip: v["tip"].as_u64()? as u32,
            partials: v["partials"].as_array()?.iter().filter_map(|x| x.as_u64().map(|x| x as usize)).collect(),
        })
    }
}

fn key(n: u64) -> PrivateKey {
    if n % 2 == 1 {
        PrivateKey::Secp256k1(Secp256k1PrivateKey::from_u64(n).expect("key"))
    } else {
        PrivateKey::Ed25519(Ed25519PrivateKey::from_u64(n).expect("key"))
    }
}

struct PartialState {
    r: PartialRecipe,
    built: Option<SignedPartialTransactionV2>,
    hash: String,
    /// epoch of the transaction that carried it and committed successfully
    committed: Option<u64>,
    rotations_at_commit: u64,
    carried_by_failed_commit: bool,
    reuse_budget: u32,
}

struct TxState {
    r: TxRecipe,
    exe: ExecutableTransaction,
    hash: String,
    /// all subintents carried (closure of the top-level partials)
    subs: Vec<usize>,
    committed: Option<(u64, bool)>,
    rotations_at_commit: u64,
    light: bool,
    shape: &'static str,
}

// ---------------------------------------------------------------------------------------------
// The monitored run: ledger + reference model + oracle
// ---------------------------------------------------------------------------------------------
struct Run {
    ledger: Ledger,
    validator: TransactionValidator,
    max_range: u64,
    genesis_epoch: u64,
    start_epoch: u64,
    shard_index: usize,
    epoch: u64,
    ts: i64,
    rotations: u64,
    tracker_start: u64,
    tracker_partition: u8,
    partials: BTreeMap<usize, PartialState>,
    txs: BTreeMap<usize, TxState>,
    next_id: usize,
    next_disc: u64,
    log: Vec<(u64, usize)>,
}

fn read_tracker(ledger: &Ledger) -> (u64, u8) {
    let bytes = rv_ledger::decode::raw(ledger.db(), TRANSACTION_TRACKER.as_node_id(), MAIN_BASE_PARTITION, &TransactionTrackerField::TransactionTracker.into())
        .expect("transaction tracker field exists");
    let s: FieldSubstate<TransactionTrackerSubstate> = scrypto_decode(&bytes).expect("tracker decodes");
    let v = s.into_payload().into_v1();
    (v.start_epoch, v.start_partition)
}

impl Run {
    fn new(genesis_epoch: u64, shard_index: usize) -> Run {
        let mut genesis = BabylonSettings::test_default().with_consensus_manager_config(ConsensusManagerConfig::test_default().with_epoch_change_condition(
            EpochChangeCondition { min_round_count: 1, max_round_count: 1, target_duration_millis: 0 },
        ));
        genesis.genesis_epoch = Epoch::of(genesis_epoch);
        #[allow(deprecated)]
        let ledger = Ledger::with_genesis(genesis);
        let validator = *ledger.sim.transaction_validator();
        let max_range = validator.config().max_epoch_range;
        let clock = rv_ledger::decode::consensus_clock(ledger.db()).expect("consensus manager state");
        let (tracker_start, tracker_partition) = read_tracker(&ledger);
        Run {
            ledger,
            validator,
            max_range,
            genesis_epoch,
            start_epoch: clock.epoch,
            shard_index,
            epoch: clock.epoch,
            ts: clock.milli,
            rotations: 0,
            tracker_start,
            tracker_partition,
            partials: BTreeMap::new(),
            txs: BTreeMap::new(),
            next_id: 1,
            next_disc: 1,
            log: vec![],
        }
    }

    fn fresh_id(&mut self) -> usize {
        self.next_id += 1;
        self.next_id - 1
    }
    fn fresh_disc(&mut self) -> u64 {
        self.next_disc += 1;
        self.next_disc - 1
    }

    /// One round-change system transaction = exactly one epoch.
    fn advance(&mut self, shard: &mut Shard) {
        self.ts += 1;
        let r = self.ledger.next_round(shard, 1, self.ts, vec![], 0);
        let ok = r.receipt.as_ref().map(|rc| rc.is_commit_success()).unwrap_or(false);
        let clock = rv_ledger::decode::consensus_clock(self.ledger.db()).expect("consensus manager state");
        if !ok || clock.epoch != self.epoch + 1 {
            // the workload's premise (1-round epochs) broke: harness problem, not a verdict
            panic!("round change did not advance the epoch by one: ok={ok} epoch {} -> {}", self.epoch, clock.epoch);
        }
        self.epoch = clock.epoch;
        shard.count("c07:epochs_advanced");
        let (ts, tp) = read_tracker(&self.ledger);
        if ts != self.tracker_start {
            self.rotations += 1;
            shard.count("c07:partition_rotations_observed");
            if tp < self.tracker_partition {
                shard.count("c07:ring_wraps_observed");
            }
            shard.seen("c07:rotation_epoch_minus_new_ring_origin", &format!("{}", self.epoch as i128 - ts as i128));
            self.tracker_start = ts;
            self.tracker_partition = tp;
        }
    }

    fn closure_into(&self, pid: usize, out: &mut Vec<usize>) {
        out.push(pid);
        for c in &self.partials[&pid].r.children {
            self.closure_into(*c, out);
        }
    }
    fn closure(&self, pids: &[usize]) -> Vec<usize> {
        let mut out = vec![];
        for p in pids {
            self.closure_into(*p, &mut out);
        }
        out
    }
    fn depth(&self, pid: usize) -> usize {
        1 + self.partials[&pid].r.children.iter().map(|c| self.depth(*c)).max().unwrap_or(0)
    }

    fn add_partial(&mut self, r: PartialRecipe) {
        let pid = r.pid;
        self.partials.insert(pid, PartialState { r, built: None, hash: String::new(), committed: None, rotations_at_commit: 0, carried_by_failed_commit: false, reuse_budget: 5 });
    }

    fn build_partial(&mut self, pid: usize) -> SignedPartialTransactionV2 {
        if let Some(b) = &self.partials[&pid].built {
            return b.clone();
        }
        let r = self.partials[&pid].r.clone();
        let mut b = PartialTransactionV2Builder::new().intent_header(IntentHeaderV2 {
            network_id: NetworkDefinition::simulator().id,
            start_epoch_inclusive: Epoch::of(r.start),
            end_epoch_exclusive: Epoch::of(r.end),
            min_proposer_timestamp_inclusive: None,
            max_proposer_timestamp_exclusive: None,
            intent_discriminator: r.disc,
        });
        for (j, c) in r.children.iter().enumerate() {
            let child = self.build_partial(*c);
            b = b.add_signed_child(format!("c{j}"), child);
        }
        let n = r.children.len();
        b = b.manifest_builder(|mut m| {
            if r.fail == 1 {
                m = m.assert_worktop_contains(XRD, dec!(1));
            }
            for j in 0..n {
                m = m.yield_to_child(format!("c{j}"), ());
            }
            if r.fail == 2 {
                m = m.assert_worktop_contains(XRD, dec!(1));
            }
            m.yield_to_parent(())
        });
        if r.signer != 0 {
            b = b.sign(&key(r.signer));
        }
        let d = b.build();
        let st = self.partials.get_mut(&pid).unwrap();
        st.hash = hex(d.root_subintent_hash.as_hash().as_slice());
        st.built = Some(d.partial_transaction.clone());
        d.partial_transaction
    }

    /// Builds, statically validates and registers a transaction. Err = static validation refused it.
    fn add_tx(&mut self, r: TxRecipe, light: bool, shape: &'static str) -> Result<usize, String> {
        let network_id = NetworkDefinition::simulator().id;
        let notary = key(r.notary);
        let exe = if r.v2 {
            let mut b = TransactionV2Builder::new()
                .intent_header(IntentHeaderV2 {
                    network_id,
                    start_epoch_inclusive: Epoch::of(r.start),
                    end_epoch_exclusive: Epoch::of(r.end),
                    min_proposer_timestamp_inclusive: None,
                    max_proposer_timestamp_exclusive: None,
                    intent_discriminator: r.nonce,
                })
                .transaction_header(TransactionHeaderV2 { notary_public_key: notary.public_key(), notary_is_signatory: r.notary_is_signatory, tip_basis_points: r.tip });
            for (j, p) in r.partials.iter().enumerate() {
                let child = self.build_partial(*p);
                b = b.add_signed_child(format!("c{j}"), child);
            }
            let n = r.partials.len();
            b = b.manifest_builder(|m| {
                let mut m = m.lock_fee_from_faucet();
                if r.fail == 1 {
                    m = m.assert_worktop_contains(XRD, dec!(1));
                }
                for j in 0..n {
                    m = m.yield_to_child(format!("c{j}"), ());
                }
                if r.fail == 2 {
                    m = m.assert_worktop_contains(XRD, dec!(1));
                }
                m
            });
            if r.signer != 0 {
                b = b.sign(&key(r.signer));
            }
            let d = b.notarize(&notary).build_no_validate();
            d.raw.validate(&self.validator).map_err(|e| format!("{e:?}"))?.create_executable()
        } else {
            let mut m = ManifestBuilder::new().lock_fee_from_faucet();
            if r.fail != 0 {
                m = m.assert_worktop_contains(XRD, dec!(1));
            }
            let mut b = TransactionBuilder::new()
                .header(TransactionHeaderV1 {
                    network_id,
                    start_epoch_inclusive: Epoch::of(r.start),
                    end_epoch_exclusive: Epoch::of(r.end),
                    nonce: r.nonce as u32,
                    notary_public_key: notary.public_key(),
                    notary_is_signatory: r.notary_is_signatory,
                    tip_percentage: r.tip as u16,
                })
                .manifest(m.build());
            if r.signer != 0 {
                b = b.sign(&key(r.signer));
            }
            b.notarize(&notary).build().prepare_and_validate(&self.validator).map_err(|e| format!("{e:?}"))?.create_executable()
        };
        // hash: for reports only
        let hash = exe
            .intent_hash_nullifications()
            .iter()
            .find_map(|n| match n {
                IntentHashNullification::TransactionIntent { intent_hash, .. } => Some(hex(intent_hash.as_hash().as_slice())),
                _ => None,
            })
            .unwrap_or_default();
        let subs = self.closure(&r.partials);
        let id = r.id;
        self.txs.insert(id, TxState { r, exe, hash, subs, committed: None, rotations_at_commit: 0, light, shape });
        Ok(id)
    }

    /// The oracle: reasons that oblige a rejection of `tx` at epoch `c`.
    fn predict(&self, c: u64, tx: &TxState) -> BTreeSet<Reason> {
        let mut out = BTreeSet::new();
        let mut windows = vec![(tx.r.start, tx.r.end)];
        for s in &tx.subs {
            let p = &self.partials[s];
            windows.push((p.r.start, p.r.end));
            if p.committed.is_some() {
                out.insert(Reason::SubReplay);
            }
        }
        for (s, e) in windows {
            if c < s {
                out.insert(Reason::NotYetValid);
            }
            if c >= e {
                out.insert(Reason::NoLongerValid);
            }
        }
        if tx.committed.is_some() {
            out.insert(Reason::RootReplay);
        }
        out
    }

    fn overall_window(&self, tx: &TxState) -> (u64, u64) {
        let mut s = tx.r.start;
        let mut e = tx.r.end;
        for p in &tx.subs {
            s = s.max(self.partials[p].r.start);
            e = e.min(self.partials[p].r.end);
        }
        (s, e)
    }

    /// Everything needed to rebuild the history of the intents carried by `txid`.
    fn replay_detail(&self, txid: usize) -> Value {
        let tx = &self.txs[&txid];
        let subs: BTreeSet<usize> = tx.subs.iter().cloned().collect();
        let involved: Vec<usize> = self.txs.iter().filter(|(id, t)| **id == txid || t.subs.iter().any(|s| subs.contains(s))).map(|(id, _)| *id).collect();
        let mut pids = BTreeSet::new();
        for id in &involved {
            pids.extend(self.txs[id].subs.iter().cloned());
        }
        let events: Vec<Value> = self.log.iter().filter(|(_, id)| involved.contains(id)).map(|(e, id)| json!([e, id])).collect();
        json!({
            "shard": self.shard_index,
            "genesis_epoch": self.genesis_epoch,
            "first_epoch_after_genesis": self.start_epoch,
            "txs": involved.iter().map(|id| self.txs[id].r.to_json()).collect::<Vec<_>>(),
            "partials": pids.iter().map(|p| self.partials[p].r.to_json()).collect::<Vec<_>>(),
            "events": events,
        })
    }

    /// Submit `txid` at the current epoch, compare with the oracle, update the reference model.
    fn submit(&mut self, shard: &mut Shard, txid: usize, why: &str) -> (BTreeSet<Reason>, Observed) {
        let c = self.epoch;
        let (pred, exe, label, desc, first, shape, nsubs, v2) = {
            let tx = &self.txs[&txid];
            let label = if tx.r.v2 { format!("c07:v2:{}subintents", tx.subs.len()) } else { "c07:v1".to_string() };
            let desc = format!("NOTARIZED {} at epoch {c} ({why}) subintents={:?}", tx.r.to_json(), tx.subs.iter().map(|s| self.partials[s].r.to_json()).collect::<Vec<_>>());
            (self.predict(c, tx), tx.exe.clone(), label, desc, tx.committed, tx.shape, tx.subs.len(), tx.r.v2)
        };
        self.log.push((c, txid));
        let r = self.ledger.exec_executable(shard, &label, exe, ExecutionConfig::for_notarized_transaction(NetworkDefinition::simulator()), desc, false);
        let Some(rc) = r.receipt.as_ref() else {
            // engine panic: already a C11 violation of the pipeline; nothing to compare
            shard.count("c07:submissions_without_receipt");
            return (pred, Observed::Other("panic".into()));
        };
        let obs = classify(rc);
        shard.count("c07:submissions");
        let pred_name = if pred.is_empty() { "may-commit".to_string() } else { pred.iter().map(|r| r.name()).collect::<Vec<_>>().join("+") };
        shard.count(&format!("c07:predicted[{pred_name}]->observed[{}]", obs.name().split(':').take(2).collect::<Vec<_>>().join(":")));
        shard.seen("c07:submission_kinds", why);
        let (ov_s, ov_e) = self.overall_window(&self.txs[&txid]);
        let dist = first.map(|(e, _)| c - e).or_else(|| self.txs[&txid].subs.iter().filter_map(|s| self.partials[s].committed).map(|e| c - e).max());
        let rot_crossed = {
            let tx = &self.txs[&txid];
            let a = if tx.committed.is_some() { Some(self.rotations - tx.rotations_at_commit) } else { None };
            let b = tx.subs.iter().filter(|s| self.partials[s].committed.is_some()).map(|s| self.rotations - self.partials[s].rotations_at_commit).max();
            a.into_iter().chain(b).max()
        };
        let bucket = |d: Option<u64>| match d {
            None => "-",
            Some(0) => "0",
            Some(1) => "1",
            Some(2..=99) => "<100",
            Some(100..=999) => "<1000",
            Some(1000..=8639) => "<max-range",
            Some(_) => ">=max-range",
        };
        shard.nontrivial(&(v2, nsubs, shape, why, &pred_name, obs.name(), bucket(dist), rot_crossed.map(|r| r.min(100)), c == ov_e, c + 1 == ov_e, c == ov_s, c + 1 == ov_s));

        let detail = |this: &Run| {
            let tx = &this.txs[&txid];
            json!({
                "epoch": c, "tx_id": txid, "why": why, "transaction_intent_hash": tx.hash, "predicted_must_reject_because": pred.iter().map(|r| r.name()).collect::<Vec<_>>(),
                "observed": outcome_class(rc), "first_commit_of_transaction_intent": first.map(|(e, s)| json!({"epoch": e, "success": s})),
                "subintents": tx.subs.iter().map(|s| { let p = &this.partials[s]; json!({"pid": s, "hash": p.hash, "window": [p.r.start, p.r.end], "committed_successfully_at": p.committed}) }).collect::<Vec<_>>(),
                "window": [tx.r.start, tx.r.end], "overall_window": [ov_s, ov_e], "epochs_since_first_commit": dist, "partition_rotations_since_commit": rot_crossed,
                "tracker_ring_origin_epoch": this.tracker_start, "tracker_start_partition": this.tracker_partition,
                "replay": this.replay_detail(txid),
            })
        };

        if !pred.is_empty() {
            // ---- must be rejected -------------------------------------------------------------
            if obs.committed() {
                let sig = if pred.contains(&Reason::NotYetValid) {
                    "commit-before-start-epoch".to_string()
                } else if pred.contains(&Reason::NoLongerValid) {
                    if c == ov_e { "commit-at-end-epoch-exclusive".to_string() } else { "commit-after-end-epoch".to_string() }
                } else if pred.contains(&Reason::RootReplay) {
                    format!("transaction-intent-committed-again:first-commit-{}", if first.map(|f| f.1).unwrap_or(true) { "success" } else { "failure" })
                } else {
                    "subintent-committed-again-after-successful-commit".to_string()
                };
                shard.violation(sig, detail(self));
            } else if let Observed::Reject(reason, cls) = &obs {
                match reason {
                    Some(r) if pred.contains(r) => {
                        shard.count("c07:must_reject_and_rejected_for_a_predicted_reason");
                        if matches!(r, Reason::RootReplay | Reason::SubReplay) {
                            shard.count("c07:replays_rejected");
                            if let Some(d) = dist {
                                shard.max("c07:epochs_between_commit_and_rejected_resubmission", d);
                            }
                            if let Some(rc) = rot_crossed {
                                shard.max("c07:rotations_between_commit_and_rejected_resubmission", rc);
                                if rc > 0 {
                                    shard.count("c07:replays_rejected_after_at_least_one_rotation");
                                }
                            }
                            if *r == Reason::RootReplay && first.map(|f| !f.1).unwrap_or(false) {
                                shard.count("c07:replays_rejected_of_failed_transaction_intents");
                            }
                            if *r == Reason::SubReplay {
                                shard.count("c07:replays_rejected_of_subintents");
                            }
                            if c + 1 == ov_e {
                                shard.count("c07:replays_rejected_at_end_minus_1");
                            }
                        }
                        if *r == Reason::NoLongerValid && c == ov_e {
                            shard.count("c07:rejected_at_end_epoch_exclusive");
                            if !pred.contains(&Reason::RootReplay) && !pred.contains(&Reason::SubReplay) {
                                shard.count("c07:never_committed_and_rejected_at_end_epoch_exclusive");
                            }
                        }
                        if *r == Reason::NotYetValid && c + 1 == ov_s {
                            shard.count("c07:rejected_at_start_minus_1");
                        }
                    }
                    _ => {
                        // rejected, as the property demands, but for a reason outside the predicted set
                        shard.count("c07:must_reject_and_rejected_for_another_reason");
                        shard.seen("c07:unpredicted_rejection_classes", cls);
                    }
                }
            }
        } else {
            // ---- may commit ---------------------------------------------------------------------
            match &obs {
                Observed::CommitSuccess | Observed::CommitFailure => {
                    let success = obs == Observed::CommitSuccess;
                    let planned_failure = {
                        let tx = &self.txs[&txid];
                        tx.r.fail != 0 || tx.subs.iter().any(|s| self.partials[s].r.fail != 0)
                    };
                    if planned_failure == success {
                        shard.count("c07:planned_outcome_mismatch");
                        shard.seen("c07:planned_outcome_mismatches", &format!("{why}: {}", outcome_class(rc)));
                    }
                    shard.count(if success { "c07:transaction_intents_committed_success" } else { "c07:transaction_intents_committed_failure" });
                    if c == ov_s {
                        shard.count("c07:commits_at_start_epoch");
                    }
                    if c + 1 == ov_e {
                        shard.count("c07:commits_at_end_minus_1");
                    }
                    let rotations = self.rotations;
                    let subs = self.txs[&txid].subs.clone();
                    let tx = self.txs.get_mut(&txid).unwrap();
                    tx.committed = Some((c, success));
                    tx.rotations_at_commit = rotations;
                    for s in subs {
                        let p = self.partials.get_mut(&s).unwrap();
                        if success {
                            shard.count("c07:subintents_committed");
                            if p.carried_by_failed_commit {
                                shard.count("c07:subintents_committed_after_failed_parent");
                            }
                            p.committed = Some(c);
                            p.rotations_at_commit = rotations;
                        } else {
                            shard.count("c07:subintents_carried_by_failed_commit");
                            p.carried_by_failed_commit = true;
                        }
                    }
                    if shard.want_sample() {
                        shard.sample(|| json!({"committed": outcome_class(rc), "epoch": c, "tx": self.txs[&txid].r.to_json(), "intent_hash": self.txs[&txid].hash}));
                    }
                }
                Observed::Reject(reason, cls) => {
                    // liveness direction (not stated by the property): counted only
                    shard.count("c07:may_commit_but_rejected");
                    shard.seen("c07:may_commit_but_rejected_classes", &format!("{why}: {}", reason.map(|r| r.name().to_string()).unwrap_or(cls.clone())));
                }
                Observed::Other(s) => shard.seen("c07:other_outcomes", s),
            }
        }
        (pred, obs)
    }
}

// ---------------------------------------------------------------------------------------------
// Workload
// ---------------------------------------------------------------------------------------------
#[derive(Clone, Debug)]
enum Action {
    Submit { tx: usize, why: &'static str },
    Reuse { pid: usize, why: &'static str },
}

struct Workload {
    run: Run,
    sched: BTreeMap<u64, Vec<Action>>,
    end_epoch: u64,
}

fn gen_window_once(rng: &mut Rng, c: u64, base: u64, m: u64, remaining: u64) -> (u64, u64, &'static str) {
    let nb = base + (c.saturating_sub(base) / EPOCHS_PER_PARTITION + 1) * EPOCHS_PER_PARTITION; // first boundary after c
    let near = |rng: &mut Rng| -> u64 {
        let maxk = (m / EPOCHS_PER_PARTITION).max(1);
        let k = match rng.below(4) {
            0 => 0,
            1 => 1,
            2 => rng.below(maxk.min(remaining / EPOCHS_PER_PARTITION + 1)),
            _ => rng.below(maxk),
        };
        nb + EPOCHS_PER_PARTITION * k
    };
    match rng.below(14) {
        0 => (c, c + 1, "len1-now"),
        1 => {
            let d = rng.range(1, 5);
            (c + d, c + d + 1, "len1-future")
        }
        2 => (c, c + rng.range(2, 5), "short-now"),
        3..=5 => {
            let b = near(rng);
            let mut e = b + rng.below(3) - 1;
            if e <= c {
                e += EPOCHS_PER_PARTITION;
            }
            let l = match rng.below(7) {
                0 => 1,
                1 => 2,
                2 => 99,
                3 => 100,
                4 => 101,
                5 => rng.range(1, 300.min(m)),
                _ => rng.range(1, m),
            };
            let l = l.min(m).min(e);
            (e - l, e, "end-at-boundary+-1")
        }
        6 => {
            let b = near(rng);
            let s = b + rng.below(3) - 1;
            let l = match rng.below(5) {
                0 => 1,
                1 => 2,
                2 => 100,
                3 => rng.range(1, 300.min(m)),
                _ => rng.range(1, m),
            };
            (s, s + l, "start-at-boundary+-1")
        }
        7 => (c, c + m, "max-range-now"),
        8 => {
            let d = rng.range(1, 120);
            (c + d, c + d + m, "max-range-future")
        }
        9 => (c, c + m - 1, "max-range-minus-1"),
        10 => {
            let s = c + rng.below(50);
            (s, s + rng.range(1, 300.min(m)), "medium")
        }
        11 => {
            let back = rng.range(1, (m - 1).min(c).max(1));
            let back = back.min(c);
            (c - back, c + rng.range(1, (m - back).max(1)), "started-in-past")
        }
        12 => {
            let b = near(rng);
            (b, b + EPOCHS_PER_PARTITION * rng.range(1, 3).min(m / EPOCHS_PER_PARTITION).max(1), "partition-aligned")
        }
        _ => {
            let s = c + rng.below(300);
            (s, s + rng.range(1, m), "random")
        }
    }
}

fn gen_window(rng: &mut Rng, c: u64, base: u64, m: u64, remaining: u64) -> (u64, u64, &'static str) {
    let want_fit = rng.chance(3, 4);
    let mut w = gen_window_once(rng, c, base, m, remaining);
    if want_fit {
        for _ in 0..8 {
            if w.1 <= c + remaining {
                break;
            }
            w = gen_window_once(rng, c, base, m, remaining);
        }
    }
    w
}

/// A window for a subintent that contains the planned commit epoch `t`.
fn child_window(rng: &mut Rng, t: u64, root: (u64, u64), base: u64, m: u64) -> (u64, u64) {
    match rng.below(6) {
        0 => root,
        1 => (t, t + 1),
        2 => (t - rng.below(4).min(t), t + 1 + rng.below(4)),
        3 => {
            let nb = base + (t.saturating_sub(base) / EPOCHS_PER_PARTITION + 1) * EPOCHS_PER_PARTITION + EPOCHS_PER_PARTITION * rng.below(3);
            let mut e = nb + rng.below(3) - 1;
            if e <= t {
                e += EPOCHS_PER_PARTITION;
            }
            let lmin = e - t;
            let l = rng.range(lmin, m.min(e).max(lmin)).min(m);
            if l < lmin {
                return (t, t + 1);
            }
            (e - l, e)
        }
        4 => {
            let a = rng.below((m / 2).min(t) + 1);
            let b = rng.below((m - a - 1).min(400) + 1);
            (t - a, t + 1 + b)
        }
        _ => {
            let a = rng.below(50.min(t) + 1);
            let b = rng.below(m - a - 1 + 1);
            (t - a, t + 1 + b)
        }
    }
}

impl Workload {
    fn schedule(&mut self, shard: &mut Shard, epoch: u64, a: Action) {
        if epoch < self.run.epoch {
            return;
        }
        if epoch > self.end_epoch {
            shard.count("c07:scheduled_beyond_history_end");
            return;
        }
        self.sched.entry(epoch).or_default().push(a);
    }

    fn signer(rng: &mut Rng) -> u64 {
        if rng.chance(1, 2) {
            0
        } else {
            rng.range(1, 6)
        }
    }

    fn fresh_partial(&mut self, rng: &mut Rng, window: (u64, u64), fail: u8, children: Vec<usize>) -> usize {
        let pid = self.run.fresh_id();
        let disc = self.run.fresh_disc();
        self.run.add_partial(PartialRecipe { pid, start: window.0, end: window.1, disc, fail, signer: Self::signer(rng), children });
        pid
    }

    fn tx_recipe(&mut self, rng: &mut Rng, v2: bool, window: (u64, u64), fail: u8, partials: Vec<usize>) -> TxRecipe {
        let id = self.run.fresh_id();
        let nonce = self.run.fresh_disc();
        TxRecipe {
            id,
            v2,
            start: window.0,
            end: window.1,
            nonce,
            fail,
            signer: Self::signer(rng),
            notary: rng.range(7, 10),
            notary_is_signatory: rng.chance(1, 3),
            tip: if rng.chance(1, 3) { rng.below(4) as u32 } else { 0 },
            partials,
        }
    }

    /// A brand-new transaction (V1 or V2 with 0-3 fresh subintents) and its submission plan.
    fn new_primary(&mut self, shard: &mut Shard, rng: &mut Rng) {
        let c = self.run.epoch;
        let m = self.run.max_range;
        let base = self.run.tracker_start;
        let remaining = self.end_epoch.saturating_sub(c);
        let (s, e, shape) = gen_window(rng, c, base, m, remaining);
        let lo = s.max(c);
        let hi = e - 1;
        let mut t = match rng.below(6) {
            0 => lo,
            1 => hi,
            2 => (lo + 1).min(hi),
            3 => hi.saturating_sub(1).max(lo),
            _ => rng.range(lo, hi),
        };
        if t > self.end_epoch && lo <= self.end_epoch {
            t = rng.range(lo, hi.min(self.end_epoch));
        }
        let v2 = rng.chance(3, 5);
        // who fails (if anybody)
        let fails = rng.chance(3, 10);
        let mut partials = vec![];
        let mut all_new = vec![];
        if v2 {
            let structure = rng.below(9);
            let mut leaf = |this: &mut Workload, rng: &mut Rng, children: Vec<usize>| {
                let w = child_window(rng, t, (s, e), base, m);
                let pid = this.fresh_partial(rng, w, 0, children);
                all_new.push(pid);
                pid
            };
            match structure {
                0 | 1 => {}
                2 | 3 => partials.push(leaf(self, rng, vec![])),
                4 => {
                    for _ in 0..2 {
                        partials.push(leaf(self, rng, vec![]));
                    }
                }
                5 => {
                    for _ in 0..3 {
                        partials.push(leaf(self, rng, vec![]));
                    }
                }
                6 => {
                    let b = leaf(self, rng, vec![]);
                    partials.push(leaf(self, rng, vec![b]));
                }
                7 => {
                    let cc = leaf(self, rng, vec![]);
                    if rng.bool() {
                        let b = leaf(self, rng, vec![cc]);
                        partials.push(leaf(self, rng, vec![b]));
                    } else {
                        let d = leaf(self, rng, vec![]);
                        partials.push(leaf(self, rng, vec![cc, d]));
                    }
                }
                _ => {
                    let b = leaf(self, rng, vec![]);
                    partials.push(leaf(self, rng, vec![b]));
                    partials.push(leaf(self, rng, vec![]));
                }
            }
        }
        let mut root_fail = 0u8;
        if fails {
            if all_new.is_empty() || rng.bool() {
                root_fail = rng.range(1, 2) as u8;
            } else {
                let who = *rng.pick(&all_new);
                self.run.partials.get_mut(&who).unwrap().r.fail = rng.range(1, 2) as u8;
            }
        }
        let recipe = self.tx_recipe(rng, v2, (s, e), root_fail, partials);
        shard.count("c07:intents_created");
        shard.add("c07:intents_created", all_new.len() as u64);
        shard.seen("c07:window_shapes", shape);
        shard.max("c07:window_length", e - s);
        let txid = match self.run.add_tx(recipe, false, shape) {
            Ok(id) => id,
            Err(err) => {
                shard.count("c07:harness_built_statically_invalid_transaction");
                shard.seen("c07:static_validation_errors", &err.chars().take(100).collect::<String>());
                return;
            }
        };
        shard.count(if v2 { "c07:primary_v2_transactions" } else { "c07:primary_v1_transactions" });
        let (ov_s, ov_e) = self.run.overall_window(&self.run.txs[&txid]);
        if ov_s > c {
            self.schedule(shard, ov_s - 1, Action::Submit { tx: txid, why: "before-start:start-minus-1" });
            if rng.bool() {
                self.schedule(shard, c, Action::Submit { tx: txid, why: "before-start:early" });
            }
        }
        if rng.chance(1, 12) {
            // never committed inside its window
            self.schedule(shard, ov_e, Action::Submit { tx: txid, why: "uncommitted:at-end" });
            self.schedule(shard, ov_e + rng.range(1, 150), Action::Submit { tx: txid, why: "uncommitted:after-end" });
        } else {
            self.schedule(shard, t, Action::Submit { tx: txid, why: "first" });
        }
    }

    /// boundaries (epochs at which a rotation happens) in (from, to]
    fn boundaries(&self, from: u64, to: u64) -> Vec<u64> {
        let base = self.run.tracker_start;
        let mut out = vec![];
        let mut b = base + (from.saturating_sub(base) / EPOCHS_PER_PARTITION + 1) * EPOCHS_PER_PARTITION;
        while b <= to && out.len() < 200 {
            out.push(b);
            b += EPOCHS_PER_PARTITION;
        }
        out
    }

    fn after_first_commit(&mut self, shard: &mut Shard, rng: &mut Rng, txid: usize, success: bool) {
        let c = self.run.epoch;
        let (light, subs, tops) = {
            let tx = &self.run.txs[&txid];
            (tx.light, tx.subs.clone(), tx.r.partials.clone())
        };
        let (_, ov_e) = self.run.overall_window(&self.run.txs[&txid]);
        let horizon = ov_e.min(self.end_epoch);
        if light {
            if rng.bool() {
                self.schedule(shard, c + rng.below(3), Action::Submit { tx: txid, why: "resubmit:soon" });
            }
            self.schedule(shard, ov_e - 1, Action::Submit { tx: txid, why: "resubmit:end-minus-1" });
        } else {
            self.schedule(shard, c, Action::Submit { tx: txid, why: "resubmit:same-epoch" });
            self.schedule(shard, c + 1, Action::Submit { tx: txid, why: "resubmit:next-epoch" });
            self.schedule(shard, ov_e - 1, Action::Submit { tx: txid, why: "resubmit:end-minus-1" });
            self.schedule(shard, ov_e, Action::Submit { tx: txid, why: "resubmit:at-end" });
            if rng.chance(1, 3) {
                self.schedule(shard, ov_e + rng.range(1, 120), Action::Submit { tx: txid, why: "resubmit:after-end" });
            }
            if horizon > c + 1 {
                for _ in 0..rng.range(1, 3) {
                    self.schedule(shard, rng.range(c + 1, horizon - 1), Action::Submit { tx: txid, why: "resubmit:random-later" });
                }
            }
            let bs = self.boundaries(c, horizon);
            if let Some(first) = bs.first() {
                self.schedule(shard, *first, Action::Submit { tx: txid, why: "resubmit:after-first-rotation" });
                self.schedule(shard, *first - 1, Action::Submit { tx: txid, why: "resubmit:just-before-rotation" });
            }
            if let Some(last) = bs.last() {
                self.schedule(shard, *last, Action::Submit { tx: txid, why: "resubmit:after-last-rotation-in-window" });
            }
            if bs.len() > 2 {
                for _ in 0..4 {
                    let b = *rng.pick(&bs);
                    self.schedule(shard, b + rng.below(2), Action::Submit { tx: txid, why: "resubmit:after-a-rotation" });
                }
            }
        }
        // subintents: re-use inside other parents
        let mut candidates = tops.clone();
        for s in &subs {
            if !tops.contains(s) && rng.bool() {
                candidates.push(*s);
            }
        }
        for pid in candidates {
            let pe = {
                let cl = self.run.closure(&[pid]);
                cl.iter().map(|p| self.run.partials[p].r.end).min().unwrap()
            };
            let h = pe.min(self.end_epoch);
            if success {
                self.schedule(shard, c + rng.below(2), Action::Reuse { pid, why: "reuse-after-success:soon" });
                if h > c + 1 {
                    self.schedule(shard, rng.range(c + 1, h - 1), Action::Reuse { pid, why: "reuse-after-success:random-later" });
                }
                self.schedule(shard, pe - 1, Action::Reuse { pid, why: "reuse-after-success:end-minus-1" });
                if rng.bool() {
                    self.schedule(shard, pe, Action::Reuse { pid, why: "reuse-after-success:at-end" });
                }
                let bs = self.boundaries(c, h);
                if !bs.is_empty() {
                    let b = *rng.pick(&bs);
                    self.schedule(shard, b, Action::Reuse { pid, why: "reuse-after-success:after-a-rotation" });
                }
            } else {
                // failed parent: the child must still be usable (not verdict-bearing) and, once it
                // commits successfully, protected
                let when = match rng.below(3) {
                    0 => c,
                    1 => c + 1,
                    _ => rng.range(c, h.saturating_sub(1).max(c).min(c + 300)),
                };
                self.schedule(shard, when, Action::Reuse { pid, why: "reuse-after-failed-parent" });
            }
        }
    }

    /// Put an existing (possibly already committed) subintent tree under a brand-new parent.
    fn reuse(&mut self, shard: &mut Shard, rng: &mut Rng, pid: usize, why: &'static str) {
        let c = self.run.epoch;
        let m = self.run.max_range;
        {
            let p = self.run.partials.get_mut(&pid).unwrap();
            if p.reuse_budget == 0 {
                shard.count("c07:reuse_skipped_budget");
                return;
            }
            p.reuse_budget -= 1;
        }
        let cl = self.run.closure(&[pid]);
        let min_e = cl.iter().map(|p| self.run.partials[p].r.end).min().unwrap();
        let max_s = cl.iter().map(|p| self.run.partials[p].r.start).max().unwrap();
        let s_r = c.min(min_e - 1).saturating_sub(rng.below(3));
        let e_r = c.max(max_s) + 1 + rng.below(3);
        if e_r - s_r > m {
            shard.count("c07:reuse_skipped_window_too_long");
            return;
        }
        let was_committed = cl.iter().any(|p| self.run.partials[p].committed.is_some());
        let mut tops = vec![];
        let mut created = 0u64;
        if self.run.depth(pid) <= 2 && rng.chance(1, 4) {
            // wrap in a fresh middle subintent: the replayed one is nested deeper
            let w = self.fresh_partial(rng, (s_r, e_r), 0, vec![pid]);
            tops.push(w);
            created += 1;
            shard.count("c07:reuse_nested_under_fresh_subintent");
        } else {
            tops.push(pid);
        }
        if rng.chance(1, 4) {
            tops.push(self.fresh_partial(rng, (s_r, e_r), 0, vec![]));
            created += 1;
        }
        if rng.bool() {
            tops.reverse();
        }
        let fail = if !was_committed && rng.chance(1, 5) { rng.range(1, 2) as u8 } else { 0 };
        let recipe = self.tx_recipe(rng, true, (s_r, e_r), fail, tops);
        shard.add("c07:intents_created", created + 1);
        let txid = match self.run.add_tx(recipe, true, "reuse-parent") {
            Ok(id) => id,
            Err(err) => {
                shard.count("c07:harness_built_statically_invalid_transaction");
                shard.seen("c07:static_validation_errors", &err.chars().take(100).collect::<String>());
                return;
            }
        };
        shard.count("c07:reuse_transactions");
        let failed_parent_before = self.run.partials[&pid].carried_by_failed_commit && !was_committed;
        let (pred, obs) = self.run.submit(shard, txid, why);
        if pred.is_empty() && obs.committed() {
            let success = obs == Observed::CommitSuccess;
            if success && failed_parent_before {
                shard.count("c07:reuse_after_failed_parent_committed_success");
            }
            self.after_first_commit(shard, rng, txid, success);
        }
    }

    fn step_epoch(&mut self, shard: &mut Shard, rng: &mut Rng) {
        let c = self.run.epoch;
        // actions may schedule more actions for the same epoch
        let mut guard = 0;
        while let Some(list) = self.sched.remove(&c) {
            guard += 1;
            if guard > 50 {
                shard.count("c07:same_epoch_reschedule_guard_hit");
                break;
            }
            for a in list {
                match a {
                    Action::Submit { tx, why } => {
                        let was_committed = self.run.txs[&tx].committed.is_some();
                        let (pred, obs) = self.run.submit(shard, tx, why);
                        if !was_committed && pred.is_empty() && obs.committed() {
                            self.after_first_commit(shard, rng, tx, obs == Observed::CommitSuccess);
                        }
                    }
                    Action::Reuse { pid, why } => self.reuse(shard, rng, pid, why),
                }
            }
        }
        // drop anything scheduled in the past (cannot happen) and move on
        self.run.advance(shard);
    }
}

pub fn spec() -> Spec {
    Spec::new(
        "C07",
        "exploration",
        "per shard one ledger with 1-round epochs (genesis epochs of different phase relative to the 100-epoch tracker partitions) advanced only by real round-change system transactions; real notarized V1 and V2 transactions (0-4 subintents: flat, chains, trees; signed and unsigned; succeeding and failing at root or in a subintent) whose validity windows take every shape validation allows (length 1..=max_epoch_range, starting in the past / now / in the future, starting or ending on a partition boundary -1/0/+1, whole partitions); each is submitted before its start, committed once inside its window and resubmitted in the same epoch, the next epoch, at random later epochs, just before and right after tracker partition rotations, at end-1, at end and after; subintents are re-used under brand-new parents (directly, nested under a fresh subintent, next to a fresh sibling) after successful and after failed parents. Every submission is predicted by a harness-side reference model written from the property text (must be rejected as not-yet-valid / no-longer-valid / previously-committed, or may commit) and compared with the receipt. distinct = distinct (version, #subintents, window shape, submission kind, predicted set, observed class, distance bucket, rotations crossed, position relative to start/end)",
    )
    .assume("epochs advance only through committed round-change transactions (1 round per epoch); histories with epoch jumps larger than one are not explored")
    .assume("the bounded history stands in for 'no matter how many epochs pass': the longest explored history is reported (max:c07:epochs_in_one_history)")
    .assume("identity of an intent is the harness's own id of the intent it built and signed, not the hash computed by the code under test")
}

pub fn run(args: &Args) -> i32 {
    let quick = args.tier == Tier::Quick;
    let spec = if quick {
        spec()
            .floor("c07:epochs_advanced", 20_000)
            .floor("max:c07:epochs_in_one_history", 2_000)
            .floor("c07:intents_created", 400)
            .floor("c07:transaction_intents_committed_success", 150)
            .floor("c07:transaction_intents_committed_failure", 50)
            .floor("c07:subintents_committed", 80)
            .floor("c07:replays_rejected", 600)
            .floor("c07:replays_rejected_after_at_least_one_rotation", 150)
            .floor("c07:replays_rejected_of_failed_transaction_intents", 80)
            .floor("c07:replays_rejected_of_subintents", 60)
            .floor("c07:replays_rejected_at_end_minus_1", 80)
            .floor("c07:rejected_at_end_epoch_exclusive", 80)
            .floor("c07:never_committed_and_rejected_at_end_epoch_exclusive", 20)
            .floor("c07:rejected_at_start_minus_1", 30)
            .floor("c07:commits_at_end_minus_1", 15)
            .floor("c07:reuse_after_failed_parent_committed_success", 15)
            .floor("c07:partition_rotations_observed", 200)
    } else {
        spec()
            .floor("c07:epochs_advanced", 200_000) // full run: 4 x 27 000 + 12 x 12 000 = 252 000
            .floor("max:c07:epochs_in_one_history", 26_001)
            .floor("c07:ring_wraps_observed", 1)
            .floor("c07:intents_created", 5_000)
            .floor("c07:transaction_intents_committed_success", 2_000)
            .floor("c07:transaction_intents_committed_failure", 600)
            .floor("c07:subintents_committed", 1_000)
            .floor("c07:replays_rejected", 8_000)
            .floor("c07:replays_rejected_after_at_least_one_rotation", 2_000)
            .floor("c07:replays_rejected_of_failed_transaction_intents", 1_000)
            .floor("c07:replays_rejected_of_subintents", 800)
            .floor("c07:replays_rejected_at_end_minus_1", 1_000)
            .floor("c07:rejected_at_end_epoch_exclusive", 1_000)
            .floor("c07:never_committed_and_rejected_at_end_epoch_exclusive", 200)
            .floor("c07:rejected_at_start_minus_1", 400)
            .floor("c07:commits_at_end_minus_1", 200)
            .floor("c07:reuse_after_failed_parent_committed_success", 200)
            .floor("c07:partition_rotations_observed", 2_000)
            .floor("max:c07:epochs_between_commit_and_rejected_resubmission", 8_000)
    };
    let mut report = Report::new(args, spec);
    if let Some(path) = &args.replay {
        return replay(path, report);
    }
    let budget = Duration::from_secs(budget_secs(args.tier, 75, 870));
    report.run_shards(7, args.threads, budget, |i, rng, shard| {
        // thorough: every 4th shard runs a history longer than one full turn of the tracker ring
        // (191 partitions x 100 epochs; DESIGN assumed 255 x 100 = 25 500: both are exceeded), the
        // others run histories longer than max_epoch_range with a denser intent population
        let long = !quick && i % 4 == 0;
        let epochs_per_shard = scaled(args, if quick { 2_500 } else if long { 27_000 } else { 12_000 });
        let primaries_per_shard = scaled(args, if quick { 60 } else if long { 450 } else { 600 });
        // phase of the history relative to the partition grid differs per shard
        let genesis_epoch = match i % 8 {
            0 => 1,
            1 => 2,
            2 => 99,
            3 => 100,
            4 => 101,
            5 => 57,
            6 => rng.range(1_000, 2_000_000),
            _ => rng.range(3, 5_000),
        };
        let run = Run::new(genesis_epoch, i);
        let first = run.epoch;
        shard.seen("c07:genesis_epochs", &genesis_epoch.to_string());
        shard.seen("c07:max_epoch_range", &run.max_range.to_string());
        let mut w = Workload { run, sched: BTreeMap::new(), end_epoch: first + epochs_per_shard };
        w.run.ledger.walk_every = 0;
        let creation_end = first + epochs_per_shard - (epochs_per_shard / 20).max(3);
        let p_num = primaries_per_shard;
        let p_den = (creation_end - first).max(1);
        while w.run.epoch < w.end_epoch && !shard.time_up() {
            let c = w.run.epoch;
            if c < creation_end {
                // spread evenly + extra pressure around partition boundaries
                let mut n = p_num / p_den;
                if rng.below(p_den) < p_num % p_den {
                    n += 1;
                }
                let phase = (c.wrapping_sub(w.run.tracker_start)) % EPOCHS_PER_PARTITION;
                if (phase <= 1 || phase >= EPOCHS_PER_PARTITION - 2) && rng.below(p_den) < 6 * p_num {
                    n += 1;
                }
                for _ in 0..n {
                    w.new_primary(shard, rng);
                }
            }
            w.step_epoch(shard, rng);
        }
        shard.max("c07:epochs_in_one_history", w.run.epoch - first);
        if w.run.epoch < w.end_epoch {
            shard.count("c07:histories_cut_short_by_time_budget");
        }
        rv_ledger::walkers::walk_all(shard, &w.run.ledger, "end of C07 history");
    });
    report.finish()
}

/// Re-runs the recorded history of the intents involved in a violation on a fresh ledger.
fn replay(path: &std::path::Path, mut report: Report) -> i32 {
    let doc: Value = serde_json::from_str(&std::fs::read_to_string(path).expect("replay file")).expect("json");
    let d = &doc["detail"]["replay"];
    let (Some(genesis_epoch), Some(txs), Some(partials), Some(events)) = (d["genesis_epoch"].as_u64(), d["txs"].as_array(), d["partials"].as_array(), d["events"].as_array()) else {
        println!("replay file does not contain a C07 history: {}", doc["detail"]);
        return 2;
    };
    let mut shard = Shard::new(0, "C07", report.args.tier, std::time::Instant::now() + Duration::from_secs(3600));
    let mut run = Run::new(genesis_epoch, 0);
    for p in partials {
        run.add_partial(PartialRecipe::from_json(p).expect("partial recipe"));
    }
    for t in txs {
        let r = TxRecipe::from_json(t).expect("tx recipe");
        run.add_tx(r, true, "replay").expect("recorded transaction is statically valid");
    }
    let mut evs: Vec<(u64, usize)> = events.iter().filter_map(|e| Some((e[0].as_u64()?, e[1].as_u64()? as usize))).collect();
    evs.sort_by_key(|e| e.0);
    for (epoch, txid) in evs {
        while run.epoch < epoch {
            run.advance(&mut shard);
        }
        let (pred, obs) = run.submit(&mut shard, txid, "replay");
        println!("epoch {epoch}: tx {txid} predicted must-reject-because={:?} observed={}", pred.iter().map(|r| r.name()).collect::<Vec<_>>(), obs.name());
    }
    println!("replayed {} submission(s): {} violation(s)", run.log.len(), shard.violations.len());
    for v in &shard.violations {
        println!("  {} {}", v.prop, v.signature);
    }
    shard.nontrivial(&1);
    shard.nontrivial(&2);
    report.merge(shard);
    report.spec.floors.clear();
    report.finish()
}
