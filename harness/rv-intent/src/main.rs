//! Intent replay-protection and validity-window checks over long epoch histories.
mod c07;

fn main() {
    let args = rv_common::parse_args();
    let code = match args.prop.as_str() {
        "C07" => c07::run(&args),
        other => {
            eprintln!("rv-intent: no check named {other}");
            2
        }
    };
    std::process::exit(code);
}
