//! Validator staking and emissions under hostile ledger workloads (C42).
mod c42;

fn main() {
    let args = rv_common::parse_args();
    let code = match args.prop.as_str() {
        "C42" => c42::run(&args),
        other => {
            eprintln!("rv-stake: no check named {other}");
            2
        }
    };
    std::process::exit(code);
}
