//! C42: validator staking and emissions never create value.
//!
//! Oracle (exact integer arithmetic over subunits, num-bigint), from the property text:
//!  * stake: `units_minted * stake_before <= amount * unit_supply_before` (first stake 1:1);
//!  * unstake -> claim: `xrd * unit_supply_before <= units * stake_before` (state read from the
//!    database before the unstake); what is claimed later never exceeds that share;
//!  * stake then immediately unstake (same transaction / next transaction) and claim: never more
//!    XRD than was staked;
//!  * epoch change: sum of XRD mints in the epoch-change transaction <= configured emission; sum of
//!    rewards applied <= reward vault balance before; owner fee / reward stake units are minted in
//!    proportion; `EpochChangeEvent.validator_set`: every member registered with stake > 0 (read
//!    from the validator's own state after the transaction), stake non-increasing, size <= max.
use num_bigint::BigInt;
use num_traits::{Signed, Zero};
use radix_engine::blueprints::consensus_manager::*;
use radix_engine::system::bootstrap::*;
use rv_common::*;
use rv_ledger::actions::{amount as adv_amount, Actor};
use rv_ledger::decode::{dec_to_big, fungible_total_supply, vault_amount, Db};
use rv_ledger::ledger::describe_manifest;
use rv_ledger::prelude::*;
use rv_ledger::{outcome_class, Exec, Ledger};
use serde_json::{json, Value};
use std::collections::BTreeMap;
use std::time::Duration;

const PHASE_EPISODE: u64 = 4201;
const MAX_VALIDATORS_PER_HISTORY: usize = 12;

fn big_to_dec(b: &BigInt) -> Decimal {
    let mut v = b.to_signed_bytes_le();
    assert!(v.len() <= 24, "harness: amount out of Decimal range");
    let fill = if b.is_negative() { 0xFF } else { 0x00 };
    v.resize(24, fill);
    Decimal::try_from(&v[..]).expect("24 bytes")
}
fn pow10(n: u32) -> BigInt {
    BigInt::from(10u8).pow(n)
}

fn acct_balance(db: &Db, account: ComponentAddress, resource: ResourceAddress) -> BigInt {
    let reader = SystemDatabaseReader::new(db);
    let vault: Option<Own> = reader
        .read_object_collection_entry::<_, VersionedAccountResourceVault>(
            account.as_node_id(),
            ModuleId::Main,
            ObjectCollectionKey::KeyValue(AccountCollection::ResourceVaultKeyValue.collection_index(), &resource),
        )
        .ok()
        .flatten()
        .map(|v| v.fully_update_and_into_latest_version().0);
    vault.and_then(|v| vault_amount(db, v.as_node_id())).map(dec_to_big).unwrap_or_default()
}

#[derive(Clone, Debug)]
struct VState {
    registered: bool,
    accepts: bool,
    x: BigInt,
    s: BigInt,
    pending: BigInt,
    locked: BigInt,
    unit: ResourceAddress,
    claim_nft: ResourceAddress,
}

struct Val {
    addr: ComponentAddress,
    owner: Option<usize>,
}

struct Claim {
    actor: usize,
    val: usize,
    id: NonFungibleLocalId,
    /// floor(units * stake_before / unit_supply_before) at unstake time
    share_floor: BigInt,
    claim_epoch: u64,
    /// XRD staked by the stake that immediately preceded the unstake (round trips only)
    roundtrip_staked: Option<BigInt>,
}

struct Ctx {
    ledger: Ledger,
    actors: Vec<Actor>,
    vals: Vec<Val>,
    claims: Vec<Claim>,
    cfg: ConsensusManagerConfig,
    ts: i64,
    seed: u64,
    ep: u64,
    op_idx: u64,
    next_key: u64,
    stuck: u32,
}

fn rewards_vault_balance(db: &Db) -> BigInt {
    let reader = SystemDatabaseReader::new(db);
    let sub = reader
        .read_typed_object_field::<ConsensusManagerValidatorRewardsFieldPayload>(CONSENSUS_MANAGER.as_node_id(), ModuleId::Main, ConsensusManagerField::ValidatorRewards.field_index())
        .expect("rewards substate")
        .fully_update_and_into_latest_version();
    dec_to_big(vault_amount(db, sub.rewards_vault.0.as_node_id()).expect("rewards vault"))
}

fn active_set(db: &Db) -> ActiveValidatorSet {
    let reader = SystemDatabaseReader::new(db);
    reader
        .read_typed_object_field::<ConsensusManagerCurrentValidatorSetFieldPayload>(CONSENSUS_MANAGER.as_node_id(), ModuleId::Main, ConsensusManagerField::CurrentValidatorSet.field_index())
        .expect("validator set substate")
        .fully_update_and_into_latest_version()
        .validator_set
}

fn validator_addr(node: &NodeId) -> Option<ComponentAddress> {
    if node.entity_type() == Some(EntityType::GlobalValidator) {
        Some(ComponentAddress::new_or_panic(node.0))
    } else {
        None
    }
}

fn owner_badge_id(v: ComponentAddress) -> NonFungibleLocalId {
    NonFungibleLocalId::bytes(v.as_node_id().0).unwrap()
}

impl Ctx {
    fn vstate(&self, addr: ComponentAddress) -> VState {
        let sub = self.ledger.sim.get_validator_info(addr);
        let db = self.ledger.db();
        let amt = |o: &Own| dec_to_big(vault_amount(db, o.as_node_id()).expect("validator vault readable"));
        VState {
            registered: sub.is_registered,
            accepts: sub.accepts_delegated_stake,
            x: amt(&sub.stake_xrd_vault_id),
            s: dec_to_big(fungible_total_supply(db, sub.stake_unit_resource.as_node_id()).expect("stake unit supply")),
            pending: amt(&sub.pending_xrd_withdraw_vault_id),
            locked: amt(&sub.locked_owner_stake_unit_vault_id),
            unit: sub.stake_unit_resource,
            claim_nft: sub.claim_nft,
        }
    }

    fn epoch(&self) -> u64 {
        self.ledger.current_epoch()
    }

    fn detail(&self, label: &str, tx: &str, case: Value) -> Value {
        json!({
            "seed": self.seed, "episode": self.ep, "op_index": self.op_idx, "tx_label": label, "epoch": self.epoch(),
            "config": format!("{:?}", self.cfg), "numbers_are": "subunits (10^-18)", "case": case, "tx": tx,
        })
    }

    fn exec(&mut self, shard: &mut Shard, label: &str, m: TransactionManifestV1, proofs: Vec<NonFungibleGlobalId>) -> (Exec, String) {
        let desc = describe_manifest(&m, &proofs);
        self.op_idx += 1;
        shard.count(&format!("op:{label}"));
        let r = self.ledger.exec(shard, label, m, proofs);
        if let Some(rc) = &r.receipt {
            let cls = outcome_class(rc);
            let short: String = cls.chars().take(110).collect();
            shard.seen("outcome_classes_c42", &format!("{label}: {short}"));
            shard.count(&format!("{}:{label}", if rc.is_commit_success() { "ok" } else { "failed" }));
        }
        (r, desc)
    }

    fn owner_prefix(&self, mb: ManifestBuilder, val: usize, actor: usize) -> ManifestBuilder {
        mb.create_proof_from_account_of_non_fungibles(self.actors[actor].account, VALIDATOR_OWNER_BADGE, [owner_badge_id(self.vals[val].addr)])
    }

    fn stake_amount(&self, rng: &mut Rng, bal: &BigInt) -> Decimal {
        match rng.below(12) {
            0..=2 => adv_amount(rng, 18, Some(big_to_dec(bal))),
            3 => Decimal::ONE_ATTO,
            4 => big_to_dec(&BigInt::from(rng.below(1000) + 1)),
            5 => big_to_dec(&(BigInt::from(rng.range(1, 40)) * pow10(18 + 5))), // multiples of 100k XRD: sort-key buckets
            _ => {
                let e = rng.below(27) as u32; // up to ~10^8 XRD
                let m = match rng.below(3) {
                    0 => rng.range(1, 9),
                    1 => rng.range(1, 9_999),
                    _ => rng.range(1, 999_999_999),
                };
                let v = BigInt::from(m) * pow10(e);
                big_to_dec(&if &v > bal { bal.clone() } else { v })
            }
        }
    }

    // -------------------------------------------------------------------------------------
    // oracles
    // -------------------------------------------------------------------------------------
    fn check_stake(&self, shard: &mut Shard, label: &str, tx: &str, pre: &VState, amount: &BigInt, units: &BigInt) {
        shard.count("checked:stakes");
        let case = || json!({"stake_xrd_before": pre.x.to_string(), "unit_supply_before": pre.s.to_string(), "xrd_staked": amount.to_string(), "units_minted": units.to_string()});
        if pre.x.is_zero() && pre.s.is_zero() {
            shard.count("checked:first_stakes_one_to_one");
            if units != amount {
                shard.violation("stake:first-stake-not-one-to-one", self.detail(label, tx, case()));
            }
        } else if pre.x.is_zero() {
            shard.count("stakes_into_zero_stake_with_units_outstanding(not checked)");
        } else {
            if units * &pre.x > amount * &pre.s || units.is_negative() {
                shard.violation("stake:units-exceed-proportional-share", self.detail(label, tx, case()));
            }
            shard.count(if units * &pre.x == amount * &pre.s { "stakes_exact" } else { "stakes_truncated" });
            if units.is_zero() && amount.is_positive() {
                shard.count("stakes_minting_zero_units_for_positive_xrd");
                if pre.s.is_zero() {
                    shard.count("stakes_into_validator_with_dust_stake_and_no_units(minted nothing)");
                    if shard.notes.len() < 2 {
                        shard.notes.push(format!(
                            "observation outside C42 (value destroyed, not created): staking {} subunits into a validator with stake vault {} and stake unit supply 0 minted 0 units (seed {} episode {} op {} {})",
                            amount, pre.x, self.seed, self.ep, self.op_idx, label
                        ));
                    }
                }
            }
        }
        shard.nontrivial(&("stake", pre.x.is_zero(), pre.s.is_zero(), pre.x.bits(), pre.s.bits(), amount.bits(), units.is_zero(), pre.x == pre.s));
    }

    fn check_unstake(&self, shard: &mut Shard, label: &str, tx: &str, pre: &VState, units: &BigInt, moved: &BigInt, claim_amount: &BigInt) -> BigInt {
        shard.count("checked:unstakes");
        let case = || json!({"stake_xrd_before": pre.x.to_string(), "unit_supply_before": pre.s.to_string(), "units_unstaked": units.to_string(), "xrd_moved_to_pending": moved.to_string(), "claim_nft_amount": claim_amount.to_string()});
        let worst = if claim_amount > moved { claim_amount } else { moved };
        if worst * &pre.s > units * &pre.x || worst.is_negative() {
            shard.violation("unstake:xrd-exceeds-proportional-share", self.detail(label, tx, case()));
        }
        if claim_amount != moved {
            shard.count("logged:claim_nft_amount_differs_from_xrd_moved");
        }
        shard.count(if worst * &pre.s == units * &pre.x { "unstakes_exact" } else { "unstakes_truncated" });
        shard.nontrivial(&("unstake", pre.x.bits(), pre.s.bits(), units.bits(), units == &pre.s, pre.x == pre.s));
        if pre.s.is_zero() {
            BigInt::zero()
        } else {
            units * &pre.x / &pre.s
        }
    }

    // -------------------------------------------------------------------------------------
    // operations
    // -------------------------------------------------------------------------------------
    fn op_create_validator(&mut self, shard: &mut Shard, rng: &mut Rng) -> Option<usize> {
        if self.vals.len() >= MAX_VALIDATORS_PER_HISTORY {
            return None;
        }
        let actor = rng.usize_below(self.actors.len());
        self.next_key += 1;
        let key = Secp256k1PrivateKey::from_u64(8000 + self.next_key).unwrap().public_key();
        let fee = match rng.below(8) {
            0 => Decimal::ZERO,
            1 => Decimal::ONE,
            2 => dec!("1.000000000000000001"),
            3 => dec!("-0.1"),
            _ => big_to_dec(&(BigInt::from(rng.below(1001)) * pow10(15))),
        };
        let a = self.actors[actor].clone();
        let m = ManifestBuilder::new()
            .lock_fee_from_faucet()
            .withdraw_from_account(a.account, XRD, dec!(20000))
            .take_all_from_worktop(XRD, "fee")
            .create_validator(key, fee, "fee")
            .try_deposit_entire_worktop_or_abort(a.account, None)
            .build();
        let (r, _) = self.exec(shard, "create_validator", m, vec![a.proof()]);
        if !r.is_success() {
            return None;
        }
        let addr = r.receipt().expect_commit(true).new_component_addresses()[0];
        self.vals.push(Val { addr, owner: Some(actor) });
        Some(self.vals.len() - 1)
    }

    fn op_owner_simple(&mut self, shard: &mut Shard, rng: &mut Rng, val: usize, what: u64) {
        let Some(owner) = self.vals[val].owner else { return };
        // sometimes somebody else tries (no badge in their account: proof creation fails)
        let actor = if rng.chance(1, 15) { rng.usize_below(self.actors.len()) } else { owner };
        let a = self.actors[actor].clone();
        let v = self.vals[val].addr;
        let mb = self.owner_prefix(ManifestBuilder::new().lock_fee_from_faucet(), val, actor);
        let (label, mb) = match what {
            0 => ("register_validator", mb.register_validator(v)),
            1 => ("unregister_validator", mb.unregister_validator(v)),
            2 => {
                let fee = match rng.below(6) {
                    0 => Decimal::ZERO,
                    1 => Decimal::ONE,
                    2 => dec!("1.000000000000000001"),
                    _ => big_to_dec(&(BigInt::from(rng.below(1001)) * pow10(15))),
                };
                ("update_fee", mb.call_method(v, VALIDATOR_UPDATE_FEE_IDENT, manifest_args!(fee)))
            }
            3 => ("update_accept_delegated_stake", mb.call_method(v, VALIDATOR_UPDATE_ACCEPT_DELEGATED_STAKE_IDENT, manifest_args!(!rng.chance(1, 3)))),
            7 => ("update_accept_delegated_stake", mb.call_method(v, VALIDATOR_UPDATE_ACCEPT_DELEGATED_STAKE_IDENT, manifest_args!(true))),
            4 => {
                let st = self.vstate(v);
                let bal = acct_balance(self.ledger.db(), a.account, st.unit);
                let amt = match rng.below(3) {
                    0 => big_to_dec(&bal),
                    1 => big_to_dec(&(&bal * BigInt::from(rng.range(1, 999)) / BigInt::from(1000))),
                    _ => adv_amount(rng, 18, Some(big_to_dec(&bal))),
                };
                (
                    "lock_owner_stake_units",
                    mb.withdraw_from_account(a.account, st.unit, amt)
                        .take_all_from_worktop(st.unit, "su")
                        .with_name_lookup(|b, l| b.call_method(v, VALIDATOR_LOCK_OWNER_STAKE_UNITS_IDENT, manifest_args!(l.bucket("su")))),
                )
            }
            5 => {
                let st = self.vstate(v);
                let amt = match rng.below(4) {
                    0 => big_to_dec(&st.locked),
                    1 => big_to_dec(&(&st.locked * BigInt::from(rng.range(1, 999)) / BigInt::from(1000))),
                    2 => big_to_dec(&(&st.locked + BigInt::from(1))),
                    _ => adv_amount(rng, 18, Some(big_to_dec(&st.locked))),
                };
                ("start_unlock_owner_stake_units", mb.call_method(v, VALIDATOR_START_UNLOCK_OWNER_STAKE_UNITS_IDENT, manifest_args!(amt)))
            }
            _ => ("finish_unlock_owner_stake_units", mb.call_method(v, VALIDATOR_FINISH_UNLOCK_OWNER_STAKE_UNITS_IDENT, manifest_args!())),
        };
        let m = mb.try_deposit_entire_worktop_or_abort(a.account, None).build();
        let label = if actor == owner { label.to_string() } else { format!("{label}_by_non_owner") };
        let (r, _) = self.exec(shard, &label, m, vec![a.proof()]);
        if r.is_success() && actor != owner {
            shard.count("logged:owner_method_committed_for_non_owner");
        }
    }

    /// stake; returns (xrd staked, units minted) on success
    fn op_stake(&mut self, shard: &mut Shard, rng: &mut Rng, val: usize, actor: usize, amount: Option<Decimal>) -> Option<(BigInt, BigInt, VState)> {
        let a = self.actors[actor].clone();
        let v = self.vals[val].addr;
        let as_owner = self.vals[val].owner == Some(actor) && rng.bool();
        let bal = acct_balance(self.ledger.db(), a.account, XRD);
        let amt = amount.unwrap_or_else(|| self.stake_amount(rng, &bal));
        let pre = self.vstate(v);
        let mb = ManifestBuilder::new().lock_fee_from_faucet();
        let mb = if as_owner { self.owner_prefix(mb, val, actor) } else { mb };
        let mb = mb.withdraw_from_account(a.account, XRD, amt).take_all_from_worktop(XRD, "x");
        let mb = if as_owner { mb.stake_validator_as_owner(v, "x") } else { mb.stake_validator(v, "x") };
        let m = mb.try_deposit_entire_worktop_or_abort(a.account, None).build();
        let label = if as_owner { "stake_validator_as_owner" } else { "stake_validator" };
        let (r, tx) = self.exec(shard, label, m, vec![a.proof()]);
        if !r.is_success() {
            return None;
        }
        if !as_owner && !pre.accepts {
            shard.count("logged:delegated_stake_committed_although_not_accepted");
        }
        let post = self.vstate(v);
        let amount = &post.x - &pre.x;
        let units = &post.s - &pre.s;
        if amount != dec_to_big(amt) {
            shard.count("logged:stake_vault_delta_differs_from_bucket");
        }
        self.check_stake(shard, label, &tx, &pre, &amount, &units);
        shard.sample(|| json!({"op": label, "stake_before": pre.x.to_string(), "unit_supply_before": pre.s.to_string(), "staked": amount.to_string(), "units": units.to_string()}));
        Some((amount, units, pre))
    }

    fn minted_claim_id(&self, commit: &CommitResult, claim_nft: ResourceAddress) -> Option<NonFungibleLocalId> {
        for (id, data) in &commit.application_events {
            let Emitter::Method(node, _) = &id.0 else { continue };
            if node == claim_nft.as_node_id() && id.1 == "MintNonFungibleResourceEvent" {
                if let Ok(e) = scrypto_decode::<MintNonFungibleResourceEvent>(data) {
                    return e.ids.into_iter().next();
                }
            }
        }
        None
    }

    fn op_unstake(&mut self, shard: &mut Shard, rng: &mut Rng, val: usize, actor: usize, units: Option<BigInt>, roundtrip_staked: Option<BigInt>) -> bool {
        let a = self.actors[actor].clone();
        let v = self.vals[val].addr;
        let pre = self.vstate(v);
        let b = acct_balance(self.ledger.db(), a.account, pre.unit);
        let u: Decimal = match units {
            Some(u) => big_to_dec(&u),
            None => match rng.below(10) {
                0..=2 => big_to_dec(&b),
                3..=5 => {
                    let x: BigInt = &b * BigInt::from(rng.range(1, 999)) / BigInt::from(1000);
                    big_to_dec(&if x.is_positive() { x } else { BigInt::from(1) })
                }
                6 => Decimal::ONE_ATTO,
                7 => adv_amount(rng, 18, Some(big_to_dec(&b))),
                8 => big_to_dec(&BigInt::from(rng.below(1_000_000) + 1)),
                _ => big_to_dec(&(&b - BigInt::from(1))),
            },
        };
        let m = ManifestBuilder::new()
            .lock_fee_from_faucet()
            .withdraw_from_account(a.account, pre.unit, u)
            .take_all_from_worktop(pre.unit, "su")
            .unstake_validator(v, "su")
            .try_deposit_entire_worktop_or_abort(a.account, None)
            .build();
        let (r, tx) = self.exec(shard, "unstake_validator", m, vec![a.proof()]);
        if !r.is_success() {
            return false;
        }
        let post = self.vstate(v);
        let burned = &pre.s - &post.s;
        let moved = &pre.x - &post.x;
        if &post.pending - &pre.pending != moved {
            shard.count("logged:pending_vault_delta_differs_from_stake_vault_delta");
        }
        let commit = r.receipt().expect_commit(true);
        let Some(id) = self.minted_claim_id(commit, pre.claim_nft) else {
            shard.count("logged:claim_nft_mint_not_observed");
            return false;
        };
        let data: UnstakeData = self.ledger.sim.get_non_fungible_data(pre.claim_nft, id.clone());
        let claim_amount = dec_to_big(data.claim_amount);
        let share_floor = self.check_unstake(shard, "unstake_validator", &tx, &pre, &burned, &moved, &claim_amount);
        if let Some(staked) = &roundtrip_staked {
            self.check_roundtrip(shard, "stake;unstake", &tx, "two_tx", &pre, staked, &claim_amount);
        }
        shard.sample(|| json!({"op": "unstake", "stake_before": pre.x.to_string(), "unit_supply_before": pre.s.to_string(), "units": burned.to_string(), "xrd": moved.to_string()}));
        self.claims.push(Claim { actor, val, id, share_floor, claim_epoch: data.claim_epoch.number(), roundtrip_staked });
        true
    }

    fn check_roundtrip(&self, shard: &mut Shard, label: &str, tx: &str, flavour: &str, pre: &VState, staked: &BigInt, claim_amount: &BigInt) {
        shard.count("checked:roundtrips");
        shard.count(&format!("checked:roundtrips:{flavour}"));
        if claim_amount > staked {
            let case = json!({"flavour": flavour, "xrd_staked": staked.to_string(), "claim_amount_after_immediate_unstake": claim_amount.to_string(), "stake_xrd_before": pre.x.to_string(), "unit_supply_before": pre.s.to_string()});
            shard.violation("roundtrip:stake-then-unstake-claim-amount-exceeds-staked-xrd", self.detail(label, tx, case));
        }
        shard.count(if claim_amount < staked { "roundtrips_losing_dust" } else { "roundtrips_exact" });
        shard.nontrivial(&("roundtrip", flavour.to_string(), pre.x.bits(), pre.s.bits(), staked.bits(), claim_amount == staked));
    }

    /// stake and unstake the minted units in one transaction
    fn op_roundtrip_same_tx(&mut self, shard: &mut Shard, rng: &mut Rng, val: usize, actor: usize) {
        let a = self.actors[actor].clone();
        let v = self.vals[val].addr;
        let bal = acct_balance(self.ledger.db(), a.account, XRD);
        let amt = self.stake_amount(rng, &bal);
        let pre = self.vstate(v);
        let m = ManifestBuilder::new()
            .lock_fee_from_faucet()
            .withdraw_from_account(a.account, XRD, amt)
            .take_all_from_worktop(XRD, "x")
            .stake_validator(v, "x")
            .take_all_from_worktop(pre.unit, "su")
            .unstake_validator(v, "su")
            .try_deposit_entire_worktop_or_abort(a.account, None)
            .build();
        let (r, tx) = self.exec(shard, "stake_then_unstake_same_tx", m, vec![a.proof()]);
        if !r.is_success() {
            return;
        }
        let commit = r.receipt().expect_commit(true);
        let mut staked = None;
        let mut unstaked_units = None;
        for (id, data) in &commit.application_events {
            let Emitter::Method(node, _) = &id.0 else { continue };
            if node != v.as_node_id() {
                continue;
            }
            match id.1.as_str() {
                "StakeEvent" => staked = scrypto_decode::<StakeEvent>(data).ok().map(|e| dec_to_big(e.xrd_staked)),
                "UnstakeEvent" => unstaked_units = scrypto_decode::<UnstakeEvent>(data).ok().map(|e| dec_to_big(e.stake_units)),
                _ => {}
            }
        }
        let Some(id) = self.minted_claim_id(commit, pre.claim_nft) else {
            shard.count("logged:claim_nft_mint_not_observed");
            return;
        };
        let data: UnstakeData = self.ledger.sim.get_non_fungible_data(pre.claim_nft, id.clone());
        let claim_amount = dec_to_big(data.claim_amount);
        let post = self.vstate(v);
        let staked_manifest = dec_to_big(amt);
        if staked.as_ref() != Some(&staked_manifest) {
            shard.count("logged:stake_event_differs_from_bucket");
        }
        // vault level: the validator's stake + pending vaults together received exactly what was withdrawn
        let net = (&post.x - &pre.x) + (&post.pending - &pre.pending);
        if net != staked_manifest {
            shard.count("logged:roundtrip_vault_deltas_do_not_add_up");
        }
        // the stake part, against the state before
        let units = unstaked_units.clone().unwrap_or_default();
        self.check_stake(shard, "stake_then_unstake_same_tx", &tx, &pre, &staked_manifest, &units);
        // the unstake part, against the intermediate state
        let mid = VState { x: &pre.x + &staked_manifest, s: &pre.s + &units, ..pre.clone() };
        let moved = &post.pending - &pre.pending;
        let share_floor = self.check_unstake(shard, "stake_then_unstake_same_tx", &tx, &mid, &units, &moved, &claim_amount);
        self.check_roundtrip(shard, "stake_then_unstake_same_tx", &tx, "same_tx", &pre, &staked_manifest, &claim_amount);
        // stake vault must not have shrunk, the pending vault holds no more than was staked
        if post.x < pre.x {
            let case = json!({"flavour": "same-tx (vault deltas)", "stake_vault_before": pre.x.to_string(), "stake_vault_after": post.x.to_string(), "xrd_staked": staked_manifest.to_string()});
            shard.violation("roundtrip:stake-then-unstake-claim-amount-exceeds-staked-xrd", self.detail("stake_then_unstake_same_tx", &tx, case));
        }
        self.claims.push(Claim { actor, val, id, share_floor, claim_epoch: data.claim_epoch.number(), roundtrip_staked: Some(staked_manifest) });
    }

    fn op_roundtrip_two_tx(&mut self, shard: &mut Shard, rng: &mut Rng, val: usize, actor: usize) {
        let Some((staked, units, _pre)) = self.op_stake(shard, rng, val, actor, None) else { return };
        if !units.is_positive() {
            return;
        }
        if !self.op_unstake(shard, rng, val, actor, Some(units), Some(staked)) {
            shard.count("two_tx_roundtrip_unstake_failed");
        }
    }

    fn op_claim(&mut self, shard: &mut Shard, rng: &mut Rng) {
        if self.claims.is_empty() {
            return;
        }
        let epoch = self.epoch();
        // prefer claimable ones, sometimes too early
        let ripe: Vec<usize> = (0..self.claims.len()).filter(|i| self.claims[*i].claim_epoch <= epoch).collect();
        let first = if !ripe.is_empty() && !rng.chance(1, 6) { *rng.pick(&ripe) } else { rng.usize_below(self.claims.len()) };
        let (actor, val) = (self.claims[first].actor, self.claims[first].val);
        let mut chosen = vec![first];
        if rng.chance(1, 3) {
            for i in 0..self.claims.len() {
                if i != first && self.claims[i].actor == actor && self.claims[i].val == val && chosen.len() < 4 && (self.claims[i].claim_epoch <= epoch || rng.chance(1, 8)) {
                    chosen.push(i);
                }
            }
        }
        let a = self.actors[actor].clone();
        let v = self.vals[val].addr;
        let pre = self.vstate(v);
        let xrd_pre = acct_balance(self.ledger.db(), a.account, XRD);
        let ids: Vec<NonFungibleLocalId> = chosen.iter().map(|i| self.claims[*i].id.clone()).collect();
        let too_early = chosen.iter().any(|i| self.claims[*i].claim_epoch > epoch);
        let m = ManifestBuilder::new()
            .lock_fee_from_faucet()
            .withdraw_non_fungibles_from_account(a.account, pre.claim_nft, ids.clone())
            .take_all_from_worktop(pre.claim_nft, "c")
            .claim_xrd(v, "c")
            .try_deposit_entire_worktop_or_abort(a.account, None)
            .build();
        let label = if too_early { "claim_xrd_too_early" } else { "claim_xrd" };
        let (r, tx) = self.exec(shard, label, m, vec![a.proof()]);
        if !r.is_success() {
            return;
        }
        if too_early {
            shard.count("logged:claim_before_claim_epoch_committed");
        }
        let post = self.vstate(v);
        let xrd_post = acct_balance(self.ledger.db(), a.account, XRD);
        let claimed = &pre.pending - &post.pending;
        let received = &xrd_post - &xrd_pre;
        if claimed != received {
            shard.count("logged:claimed_differs_from_received");
        }
        let bound: BigInt = chosen.iter().map(|i| self.claims[*i].share_floor.clone()).sum();
        shard.count("checked:claims");
        shard.add("checked:claim_nfts", chosen.len() as u64);
        let worst = if received > claimed { &received } else { &claimed };
        let case = |extra: Value| json!({"claim_nft_ids": ids.iter().map(|i| i.to_string()).collect::<Vec<_>>(), "xrd_taken_from_pending_vault": claimed.to_string(), "xrd_received_by_account": received.to_string(), "bound": extra});
        if *worst > bound {
            shard.violation("claim:xrd-exceeds-proportional-share-of-unstaked-units", self.detail(label, &tx, case(json!({"sum_of_floor(units*stake_before/unit_supply_before)": bound.to_string()}))));
        }
        if chosen.iter().all(|i| self.claims[*i].roundtrip_staked.is_some()) {
            let staked: BigInt = chosen.iter().map(|i| self.claims[*i].roundtrip_staked.clone().unwrap()).sum();
            shard.count("checked:roundtrip_claims");
            if *worst > staked {
                shard.violation("roundtrip:claimed-more-xrd-than-staked", self.detail(label, &tx, case(json!({"xrd_staked_by_the_round_trips": staked.to_string()}))));
            }
        }
        shard.nontrivial(&("claim", chosen.len(), claimed.bits(), claimed == bound));
        chosen.sort();
        for i in chosen.into_iter().rev() {
            self.claims.remove(i);
        }
    }

    fn op_quote(&mut self, shard: &mut Shard, rng: &mut Rng, val: usize) {
        let v = self.vals[val].addr;
        let pre = self.vstate(v);
        let u = match rng.below(4) {
            0 => big_to_dec(&pre.s),
            1 => Decimal::ONE_ATTO,
            2 => adv_amount(rng, 18, Some(big_to_dec(&pre.s))),
            _ => big_to_dec(&(&pre.s * BigInt::from(rng.range(1, 999)) / BigInt::from(1000))),
        };
        let m = ManifestBuilder::new().lock_fee_from_faucet().call_method(v, VALIDATOR_GET_REDEMPTION_VALUE_IDENT, manifest_args!(u)).build();
        let (r, _tx) = self.exec(shard, "get_redemption_value", m, vec![]);
        if !r.is_success() {
            return;
        }
        let commit = r.receipt().expect_commit(true);
        let TransactionOutcome::Success(outs) = &commit.outcome else { return };
        let Some(InstructionOutput::CallReturn(bytes)) = outs.get(1) else { return };
        let Ok(q) = scrypto_decode::<Decimal>(bytes) else { return };
        shard.count("checked:quotes(logged only)");
        if dec_to_big(q) * &pre.s > dec_to_big(u) * &pre.x {
            shard.count("logged:quote_exceeds_proportional_share");
            shard.notes.push(format!("C42 quote above share: episode {} op {} u={} S={} X={} quote={}", self.ep, self.op_idx, u, pre.s, pre.x, q));
        }
    }

    /// One consensus round = one epoch change (1-round epochs), possibly with missed proposals.
    fn op_next_round(&mut self, shard: &mut Shard, rng: &mut Rng) {
        let set_before = active_set(self.ledger.db());
        let n_active = set_before.validator_count();
        if n_active == 0 {
            shard.count("active_set_empty_cannot_advance");
            self.stuck += 1;
            return;
        }
        let gaps: Vec<ValidatorIndex> = if rng.chance(1, 3) { (0..rng.range(1, 4)).map(|_| rng.below(n_active as u64) as ValidatorIndex).collect() } else { vec![] };
        let leader = rng.below(n_active as u64) as ValidatorIndex;
        let round = 1 + gaps.len() as u64;
        self.ts += match rng.below(3) {
            0 => 0,
            1 => rng.range(1, 1000) as i64,
            _ => 60_000,
        };
        // pre-state of everything the epoch change may touch
        let mut addrs: Vec<ComponentAddress> = self.vals.iter().map(|v| v.addr).collect();
        for (a, _) in set_before.validators_by_stake_desc.iter() {
            if !addrs.contains(a) {
                addrs.push(*a);
            }
        }
        let pre: BTreeMap<ComponentAddress, VState> = addrs.iter().map(|a| (*a, self.vstate(*a))).collect();
        let rewards_pre = rewards_vault_balance(self.ledger.db());
        let epoch_pre = self.epoch();
        self.op_idx += 1;
        shard.count("op:next_round");
        if !gaps.is_empty() {
            shard.count("rounds_with_missed_proposals");
        }
        let tx = format!("SYSTEM next_round(round={round}, ts={}, gaps={gaps:?}, leader={leader})", self.ts);
        let r = self.ledger.next_round(shard, round, self.ts, gaps.clone(), leader);
        let Some(rc) = &r.receipt else { return };
        shard.seen("outcome_classes_c42", &format!("next_round: {}", outcome_class(rc).chars().take(110).collect::<String>()));
        if !rc.is_commit_success() {
            shard.count("failed:next_round");
            self.stuck += 1;
            return;
        }
        self.stuck = 0;
        shard.count("ok:next_round");
        let commit = rc.expect_commit(true);
        // ---- parse events
        let mut epoch_event: Option<EpochChangeEvent> = None;
        let mut xrd_minted = BigInt::zero();
        let mut emissions: Vec<(ComponentAddress, ValidatorEmissionAppliedEvent)> = vec![];
        let mut rewards: BTreeMap<ComponentAddress, BigInt> = BTreeMap::new();
        let mut rewards_total = BigInt::zero();
        for (id, data) in &commit.application_events {
            let Emitter::Method(node, _) = &id.0 else { continue };
            match id.1.as_str() {
                "EpochChangeEvent" if node == CONSENSUS_MANAGER.as_node_id() => epoch_event = scrypto_decode(data).ok(),
                "MintFungibleResourceEvent" if node == XRD.as_node_id() => {
                    if let Ok(e) = scrypto_decode::<MintFungibleResourceEvent>(data) {
                        xrd_minted += dec_to_big(e.amount);
                    }
                }
                "ValidatorEmissionAppliedEvent" => {
                    if let (Ok(e), Some(addr)) = (scrypto_decode::<ValidatorEmissionAppliedEvent>(data), validator_addr(node)) {
                        emissions.push((addr, e));
                    }
                }
                "ValidatorRewardAppliedEvent" => {
                    if let (Ok(e), Some(addr)) = (scrypto_decode::<ValidatorRewardAppliedEvent>(data), validator_addr(node)) {
                        *rewards.entry(addr).or_default() += dec_to_big(e.amount);
                        rewards_total += dec_to_big(e.amount);
                    }
                }
                _ => {}
            }
        }
        let Some(ev) = epoch_event else {
            shard.count("rounds_without_epoch_change");
            return;
        };
        shard.count("checked:epoch_changes");
        if ev.epoch.number() != epoch_pre + 1 {
            shard.count("logged:epoch_number_not_incremented_by_one");
        }
        // ---- emissions
        let cap = dec_to_big(self.cfg.total_emission_xrd_per_epoch);
        let case = |x: Value| json!({"concluded_epoch": epoch_pre, "observed": x});
        if xrd_minted > cap {
            shard.violation("epoch:emission-exceeds-configured-amount", self.detail("next_round", &tx, case(json!({"xrd_minted_in_epoch_change": xrd_minted.to_string(), "configured_total_emission_xrd_per_epoch": cap.to_string()}))));
        }
        if xrd_minted.is_positive() {
            shard.count("epoch_changes_with_emission");
        }
        let emitted_by_events: BigInt = emissions.iter().map(|(_, e)| dec_to_big(e.stake_pool_added_xrd) + dec_to_big(e.validator_fee_xrd)).sum();
        if emitted_by_events != xrd_minted {
            shard.count("logged:emission_events_do_not_add_up_to_minted_xrd");
        }
        // ---- rewards
        let rewards_post = rewards_vault_balance(self.ledger.db());
        let paid_from_vault = &rewards_pre - &rewards_post;
        if rewards_total > rewards_pre || paid_from_vault > rewards_pre || rewards_post.is_negative() {
            shard.violation("epoch:rewards-exceed-reward-vault", self.detail("next_round", &tx, case(json!({"rewards_applied": rewards_total.to_string(), "reward_vault_before": rewards_pre.to_string(), "reward_vault_after": rewards_post.to_string()}))));
        }
        if paid_from_vault != rewards_total {
            shard.count("logged:reward_events_differ_from_reward_vault_delta");
        }
        if rewards_total.is_positive() {
            shard.count("epoch_changes_with_rewards");
        }
        // ---- per validator: stake vault grew by exactly emission + reward, owner units minted in proportion
        for (addr, e) in &emissions {
            shard.count("checked:validator_emissions");
            if e.proposals_missed > 0 {
                shard.count("penalties:emissions_applied_to_validators_with_missed_proposals");
            }
            let Some(p) = pre.get(addr) else { continue };
            let post = self.vstate(*addr);
            let net = dec_to_big(e.stake_pool_added_xrd);
            let fee = dec_to_big(e.validator_fee_xrd);
            let reward = rewards.get(addr).cloned().unwrap_or_default();
            if &post.x - &p.x != &net + &fee + &reward {
                shard.count("logged:stake_vault_delta_differs_from_emission_plus_reward");
            }
            // share of the configured emission: stake_i / sum(stakes) * E at most
            let sum_stake: BigInt = set_before.validators_by_stake_desc.values().map(|v| dec_to_big(v.stake)).sum();
            let my = set_before.validators_by_stake_desc.get(addr).map(|v| dec_to_big(v.stake)).unwrap_or_default();
            let total = &net + &fee;
            if sum_stake.is_positive() {
                if &total * &sum_stake > &cap * &my {
                    // not demanded by the property (only the total is capped): logged
                    shard.count("logged:validator_emission_exceeds_its_stake_share");
                }
                // (only where the full share and the per-staked-XRD emission rate have >= 3 significant digits, so that truncation cannot explain it)
                if e.proposals_missed > 0 && &cap * &my >= &sum_stake * BigInt::from(1000) && &cap * pow10(18) >= &sum_stake * BigInt::from(1000) && &total * &sum_stake * BigInt::from(2) < &cap * &my {
                    shard.count("penalties:emission_at_most_half_of_the_full_stake_share");
                }
            }
            // owner units (fee staking + reward staking): M * (X0 + net) <= (fee + reward) * S0
            let minted_units = &post.s - &p.s;
            let a_ = &p.x + &net;
            if a_.is_positive() {
                shard.count("checked:owner_unit_mints");
                if &minted_units * &a_ > (&fee + &reward) * &p.s {
                    shard.violation("epoch:owner-fee-or-reward-units-exceed-proportional-share", self.detail("next_round", &tx, case(json!({"validator": format!("{addr:?}"), "stake_before": p.x.to_string(), "unit_supply_before": p.s.to_string(), "net_emission": net.to_string(), "fee_xrd": fee.to_string(), "reward_xrd": reward.to_string(), "units_minted": minted_units.to_string()}))));
                }
                if minted_units.is_positive() {
                    shard.count("owner_unit_mints_positive");
                }
            }
            if &post.locked - &p.locked != minted_units {
                shard.count("logged:owner_units_not_all_locked");
            }
        }
        if !gaps.is_empty() || emissions.iter().any(|(_, e)| e.proposals_missed > 0) {
            shard.count("penalties:epochs_concluded_with_missed_proposals");
        }
        // ---- next validator set
        let set = &ev.validator_set.validators_by_stake_desc;
        shard.count("checked:validator_sets");
        shard.add("checked:validator_set_members", set.len() as u64);
        shard.max("validator_set_size", set.len() as u64);
        let max = self.cfg.max_validators as usize;
        if set.len() > max {
            shard.violation("epoch:validator-set-larger-than-max", self.detail("next_round", &tx, case(json!({"size": set.len(), "max_validators": max}))));
        }
        if set.len() == max {
            shard.count("validator_sets_at_max_size");
        }
        let mut prev_ev: Option<BigInt> = None;
        let mut prev_actual: Option<BigInt> = None;
        let mut members = vec![];
        for (addr, v) in set.iter() {
            let st = self.vstate(*addr);
            let ev_stake = dec_to_big(v.stake);
            members.push(json!({"validator": format!("{addr:?}"), "event_stake": ev_stake.to_string(), "stake_vault": st.x.to_string(), "registered": st.registered}));
            if !st.registered {
                shard.violation("epoch:validator-set-member-not-registered", self.detail("next_round", &tx, case(json!({"validator": format!("{addr:?}")}))));
            }
            if !st.x.is_positive() || !ev_stake.is_positive() {
                shard.violation("epoch:validator-set-member-without-stake", self.detail("next_round", &tx, case(json!({"validator": format!("{addr:?}"), "stake_vault": st.x.to_string(), "event_stake": ev_stake.to_string()}))));
            }
            if ev_stake != st.x {
                shard.count("logged:event_stake_differs_from_stake_vault");
            }
            if let (Some(pe), Some(pa)) = (&prev_ev, &prev_actual) {
                if ev_stake > *pe || st.x > *pa {
                    shard.violation("epoch:validator-set-not-sorted-by-stake-descending", self.detail("next_round", &tx, case(json!({"set_so_far": members.clone()}))));
                }
                if ev_stake == *pe {
                    shard.count("validator_set_ties");
                }
            }
            prev_ev = Some(ev_stake);
            prev_actual = Some(st.x);
        }
        // logged: a known registered validator with more stake than the weakest member left out
        if set.len() == max {
            if let Some(weakest) = &prev_actual {
                for v in &self.vals {
                    if !set.contains_key(&v.addr) {
                        let st = self.vstate(v.addr);
                        if st.registered && st.x > *weakest {
                            shard.count("logged:registered_validator_with_more_stake_left_out_of_full_set");
                        }
                    }
                }
            }
        }
        let regs = self.vals.iter().filter(|v| self.vstate(v.addr).registered).count();
        if regs > max {
            shard.count("epoch_changes_with_more_registered_validators_than_max");
        }
        shard.nontrivial(&("epoch", set.len(), max, xrd_minted.bits(), rewards_total.bits(), gaps.len(), emissions.len(), regs));
        shard.sample(|| json!({"op": "epoch_change", "epoch": ev.epoch.number(), "set": members, "xrd_minted": xrd_minted.to_string(), "rewards": rewards_total.to_string(), "reward_vault_before": rewards_pre.to_string()}));
    }

    fn step(&mut self, shard: &mut Shard, rng: &mut Rng) {
        // prefer validators whose stake differs from their unit supply (after emissions): truncation matters there
        let skewed: Vec<usize> = (0..self.vals.len())
            .filter(|i| {
                let st = self.vstate(self.vals[*i].addr);
                st.x != st.s && st.s.is_positive()
            })
            .collect();
        let val = if !skewed.is_empty() && rng.chance(3, 5) { *rng.pick(&skewed) } else { rng.usize_below(self.vals.len()) };
        let actor = rng.usize_below(self.actors.len());
        match rng.below(100) {
            0..=27 => self.op_next_round(shard, rng),
            28..=44 => {
                self.op_stake(shard, rng, val, actor, None);
            }
            45..=56 => {
                // prefer (actor, validator) pairs holding units
                let mut holders = vec![];
                for (vi, v) in self.vals.iter().enumerate() {
                    let unit = self.vstate(v.addr).unit;
                    for ai in 0..self.actors.len() {
                        if acct_balance(self.ledger.db(), self.actors[ai].account, unit).is_positive() {
                            holders.push((vi, ai));
                        }
                    }
                }
                let skewed_holders: Vec<(usize, usize)> = holders.iter().filter(|(vi, _)| skewed.contains(vi)).cloned().collect();
                let (vi, ai) = if !skewed_holders.is_empty() && rng.chance(1, 2) {
                    *rng.pick(&skewed_holders)
                } else if !holders.is_empty() && !rng.chance(1, 10) {
                    *rng.pick(&holders)
                } else {
                    (val, actor)
                };
                self.op_unstake(shard, rng, vi, ai, None, None);
            }
            57..=67 => self.op_claim(shard, rng),
            68..=73 => self.op_roundtrip_same_tx(shard, rng, val, actor),
            74..=79 => self.op_roundtrip_two_tx(shard, rng, val, actor),
            80..=82 => self.op_owner_simple(shard, rng, val, 0),
            83..=84 => self.op_owner_simple(shard, rng, val, 1),
            85..=87 => self.op_owner_simple(shard, rng, val, 2),
            88 => self.op_owner_simple(shard, rng, val, 3),
            89..=91 => self.op_owner_simple(shard, rng, val, 4),
            92..=93 => self.op_owner_simple(shard, rng, val, 5),
            94..=95 => self.op_owner_simple(shard, rng, val, 6),
            96..=97 => self.op_quote(shard, rng, val),
            _ => {
                if let Some(v) = self.op_create_validator(shard, rng) {
                    self.op_owner_simple(shard, rng, v, 0);
                }
            }
        }
    }
}

fn make_genesis(rng: &mut Rng) -> (BabylonSettings, Vec<Actor>, Vec<Secp256k1PublicKey>, ConsensusManagerConfig) {
    let mut actors = vec![];
    for i in 0..4u64 {
        let pk = Secp256k1PrivateKey::from_u64(7000 + i).unwrap().public_key();
        actors.push(Actor { pk, account: ComponentAddress::preallocated_account_from_public_key(&pk) });
    }
    let dead_pk = Secp256k1PrivateKey::from_u64(6999).unwrap().public_key();
    let dead = ComponentAddress::preallocated_account_from_public_key(&dead_pk);
    let n_genesis = rng.range(1, 3);
    let keys: Vec<Secp256k1PublicKey> = (0..n_genesis).map(|i| Secp256k1PrivateKey::from_u64(6000 + i).unwrap().public_key()).collect();
    let emission = match rng.below(7) {
        0 => Decimal::ZERO,
        1 => Decimal::ONE_ATTO,
        2 => Decimal::ONE,
        3 => dec!("2853.881278538812785388"),
        4 => dec!(1000000),
        5 => dec!("0.000000000000000007"),
        _ => big_to_dec(&(BigInt::from(rng.range(1, 999_999)) * pow10(rng.below(20) as u32))),
    };
    let reliability = match rng.below(5) {
        0 => Decimal::ONE,
        1 => Decimal::ZERO,
        2 => dec!("0.5"),
        3 => dec!("0.9"),
        _ => big_to_dec(&(BigInt::from(rng.below(1001)) * pow10(15))),
    };
    let cfg = ConsensusManagerConfig::test_default()
        .with_max_validators(rng.range(1, 5) as u32)
        .with_epoch_change_condition(EpochChangeCondition { min_round_count: 1, max_round_count: 1, target_duration_millis: 0 })
        .with_num_unstake_epochs(rng.below(4))
        .with_total_emission_xrd_per_epoch(emission)
        .with_min_validator_reliability(reliability)
        .with_num_owner_stake_units_unlock_epochs(rng.below(4))
        .with_num_fee_increase_delay_epochs(rng.below(3));
    let stakes: Vec<Decimal> = keys
        .iter()
        .map(|_| match rng.below(5) {
            0 => Decimal::ONE,
            1 => dec!(1000),
            2 => dec!(250000),
            3 => Decimal::ONE_ATTO,
            _ => big_to_dec(&(BigInt::from(rng.range(1, 999_999)) * pow10(rng.below(22) as u32))),
        })
        .collect();
    let chunks = vec![
        GenesisDataChunk::Validators(keys.iter().map(|k| (*k).into()).collect()),
        GenesisDataChunk::Stakes {
            accounts: vec![dead],
            allocations: keys.iter().zip(stakes.iter()).map(|(k, s)| (*k, vec![GenesisStakeAllocation { account_index: 0, xrd_amount: *s }])).collect(),
        },
        GenesisDataChunk::ResourceBalances {
            accounts: actors.iter().map(|a| a.account).collect(),
            allocations: vec![(XRD, (0..actors.len() as u32).map(|i| GenesisResourceAllocation { account_index: i, amount: dec!(1000000000000) }).collect())],
        },
    ];
    let settings = BabylonSettings {
        genesis_data_chunks: chunks,
        genesis_epoch: Epoch::of(1),
        consensus_manager_config: cfg.clone(),
        initial_time_ms: 0,
        initial_current_leader: Some(0),
        faucet_supply: *DEFAULT_TESTING_FAUCET_SUPPLY,
    };
    (settings, actors, keys, cfg)
}

pub fn episode(seed: u64, ep: u64, shard: &mut Shard, walk: bool) {
    let mut rng = Rng::from_parts(seed, PHASE_EPISODE, ep);
    let rng = &mut rng;
    let (settings, actors, _keys, cfg) = make_genesis(rng);
    let ledger = Ledger::with_genesis(settings);
    // genesis validators: whoever is in the first active set
    let set = active_set(ledger.db());
    let vals: Vec<Val> = set.validators_by_stake_desc.keys().map(|a| Val { addr: *a, owner: None }).collect();
    if vals.is_empty() {
        shard.count("harness:genesis_without_active_validators");
        return;
    }
    shard.seen("configs:max_validators", &cfg.max_validators.to_string());
    shard.seen("configs:num_unstake_epochs", &cfg.num_unstake_epochs.to_string());
    shard.seen("configs:min_validator_reliability", &cfg.min_validator_reliability.to_string());
    shard.seen("configs:total_emission_xrd_per_epoch", &cfg.total_emission_xrd_per_epoch.to_string());
    let mut ctx = Ctx { ledger, actors, vals, claims: vec![], cfg, ts: 1, seed, ep, op_idx: 0, next_key: 0, stuck: 0 };
    // bootstrap: a contested validator set
    let n_new = rng.range(0, 9);
    for _ in 0..n_new {
        if let Some(v) = ctx.op_create_validator(shard, rng) {
            if rng.chance(4, 5) {
                ctx.op_owner_simple(shard, rng, v, 0);
            }
            if rng.chance(3, 4) {
                ctx.op_owner_simple(shard, rng, v, 7);
            }
            if rng.chance(4, 5) {
                let owner = ctx.vals[v].owner.unwrap();
                let amt = match rng.below(3) {
                    0 => big_to_dec(&(BigInt::from(rng.range(1, 30)) * pow10(18 + 5))),
                    1 => big_to_dec(&(BigInt::from(rng.range(1, 99_999)) * pow10(18))),
                    _ => big_to_dec(&(BigInt::from(rng.range(1, 999_999_999)) * pow10(rng.below(18) as u32))),
                };
                ctx.op_stake(shard, rng, v, owner, Some(amt));
            }
        }
    }
    let n_ops = match rng.below(10) {
        0..=5 => rng.range(60, 250),
        6..=8 => rng.range(250, 600),
        _ => rng.range(600, 1500),
    };
    let mut n = 0;
    while n < n_ops && !shard.time_up() && ctx.stuck < 3 {
        ctx.step(shard, rng);
        n += 1;
    }
    if ctx.stuck >= 3 {
        shard.count("episodes_ended_because_consensus_could_not_advance");
    }
    shard.count("episodes");
    shard.max("validators_in_one_history", ctx.vals.len() as u64);
    shard.max("transactions_in_one_history", ctx.op_idx);
    shard.max("epochs_in_one_history", ctx.epoch());
    if walk {
        rv_ledger::walkers::walk_all(shard, &ctx.ledger, &format!("end of C42 episode {ep}"));
    }
}

pub fn spec() -> Spec {
    Spec::new(
        "C42",
        "exploration",
        "seeded histories (episodes), each on its own genesis (1-3 genesis validators, max_validators 1-5, 1-round epochs, num_unstake_epochs 0-3, emission from {0, 1 atto, 1, mainnet value, 10^6, random}, min reliability from {0, 0.5, 0.9, 1, random}), with up to 12 validators created/registered/unregistered by 4 accounts and random sequences of stake / stake_as_owner / unstake / claim (incl. too early, several NFTs) / stake+unstake in one transaction / stake then unstake next transaction / update_fee / update_accept_delegated_stake / lock, start-unlock, finish-unlock owner stake units / get_redemption_value / consensus rounds with and without missed proposals (every round is an epoch change); amounts: shared adversarial distribution, 1 atto, multiples of 100k XRD (sort-key buckets), random magnitudes. A case is one checked stake / unstake / claim / round trip / epoch change; distinct = distinct (op, state class, operand bit lengths, set size ...).",
    )
    .assume("oracle: exact num-bigint arithmetic over subunits on values read from the database (validator stake vault, pending-withdraw vault, stake unit total supply, locked owner vault, reward vault, account vaults) immediately before and after each transaction, plus the consensus manager / validator events of the epoch-change transaction (EpochChangeEvent, XRD MintFungibleResourceEvent, ValidatorEmissionAppliedEvent, ValidatorRewardAppliedEvent) and the claim NFT data")
    .assume("validator-set membership is judged from each member's own validator substate and stake vault after the epoch-change transaction; the order is judged on both the event's stake values and the stake vault balances; being the top-N by stake is not demanded by the property (logged)")
    .assume("user transactions lock their fee from the faucet, so account XRD deltas equal claimed amounts")
    .floor("checked:stakes", 300)
    .floor("checked:first_stakes_one_to_one", 20)
    .floor("stakes_truncated", 40)
    .floor("checked:unstakes", 200)
    .floor("unstakes_truncated", 30)
    .floor("checked:claims", 80)
    .floor("checked:roundtrips:same_tx", 50)
    .floor("checked:roundtrips:two_tx", 50)
    .floor("checked:roundtrip_claims", 20)
    .floor("checked:epoch_changes", 500)
    .floor("epoch_changes_with_emission", 100)
    .floor("epoch_changes_with_rewards", 100)
    .floor("checked:validator_set_members", 500)
    .floor("epoch_changes_with_more_registered_validators_than_max", 50)
    .floor("penalties:epochs_concluded_with_missed_proposals", 50)
        .floor("penalties:emission_at_most_half_of_the_full_stake_share", 20)
    .floor("checked:owner_unit_mints", 200)
    .explain("every transaction also passes through the global ledger monitors (C02-C06, C11, C43, C44, C49, C51); their violations are reported under their own ids")
}

pub fn run(args: &Args) -> i32 {
    let mut report = Report::new(args, spec());
    if let Some(path) = &args.replay {
        return replay(path, report);
    }
    let episodes_per_shard = scaled(args, args.tier.pick(30, 2000));
    let budget = Duration::from_secs(budget_secs(args.tier, 40, 600));
    let seed = args.seed;
    report.run_shards(PHASE_EPISODE, args.threads, budget, |i, _rng, shard| {
        let mut k = 0u64;
        while k < episodes_per_shard && !shard.time_up() {
            let ep = (i as u64) * 1_000_000 + k;
            episode(seed, ep, shard, k % 8 == 7);
            k += 1;
        }
    });
    report.finish()
}

fn replay(path: &std::path::Path, mut report: Report) -> i32 {
    let doc: Value = serde_json::from_str(&std::fs::read_to_string(path).expect("replay file")).expect("json");
    let d = &doc["detail"];
    let (Some(seed), Some(ep)) = (d["seed"].as_u64(), d["episode"].as_u64()) else {
        println!("replay file does not name a C42 episode (seed, episode): {}", d);
        return 2;
    };
    let mut shard = Shard::new(0, "C42", report.args.tier, std::time::Instant::now() + Duration::from_secs(900));
    episode(seed, ep, &mut shard, false);
    println!("replayed C42 episode {ep} of seed {seed}: {} violation(s) recorded", shard.violations.len());
    let want = doc["signature"].as_str().unwrap_or("");
    let mut again = false;
    for v in &shard.violations {
        println!("  {} {} op_index={}", v.prop, v.signature, v.detail["op_index"]);
        if v.signature == want {
            again = true;
        }
    }
    println!("recorded signature {} {}", want, if again { "REPRODUCED" } else { "not reproduced" });
    report.merge(shard);
    report.spec.floors.clear();
    report.finish()
}
