//! C02 fault enumeration: for each generated manifest, sweep every position at which the
//! scrypto-test injector can raise a system (costing) error, re-running the manifest from the
//! same snapshot; every resulting receipt goes through the global monitors (failure shape,
//! conservation, fees) and the whole-database walkers are run on sampled post-failure states.
use rv_common::*;
use rv_ledger::actions::World;
use rv_ledger::prelude::*;
use serde_json::json;
use std::time::Duration;

fn digest(e: &rv_ledger::Exec) -> u64 {
    match &e.receipt {
        None => 0,
        Some(r) => {
            let upd = match &r.result {
                TransactionResult::Commit(c) => scrypto_encode(&c.state_updates).unwrap_or_default(),
                _ => vec![],
            };
            h64(&(rv_ledger::outcome_class(r), upd))
        }
    }
}

pub fn run(args: &Args) -> i32 {
    let spec = Spec::new(
        "C02",
        "fault_enumeration",
        "for each generated manifest of the default mix (aged ledger), the number n of injectable system-callback steps is learned (doubling + bisection on 'injected receipt differs from the un-injected one'), then the manifest is re-executed from the same snapshot with an injected costing error at every step k in 1..=n (n <= 300) or at 200 evenly spaced + 50 random steps; each receipt is checked by the C02 failure-shape monitor and all other global monitors; non-trivial = an injected run that ended in commit-failure or reject; distinct = distinct (manifest label, outcome class, step bucket)",
    )
    .assume("the injector of scrypto-test (InjectCostingError) raises CostingError at the k-th costing callback: other error kinds/positions arise only from the natural failures of the workload")
    .floor("c02:manifests_swept", 20)
    .floor("c02:fault_points_swept", 1000)
    .floor("c02:failures_checked", 300)
    .floor("c02:injected_reject", 20)
    .floor("c02:post_failure_walks", 5);
    let mut report = Report::new(args, spec);
    let manifests_per_shard = scaled(args, args.tier.pick(40, 600));
    let budget = Duration::from_secs(budget_secs(args.tier, 75, 900));
    report.run_shards(2, args.threads, budget, |i, rng, shard| {
        let mut w = World::new(shard, rng, 4);
        for _ in 0..80 {
            w.step(shard, rng);
        }
        let mut done = 0;
        while done < manifests_per_shard && !shard.time_up() {
            let Ok((label, manifest, proofs)) = w.gen_tx(shard, rng) else { continue };
            let snap = w.ledger.snapshot();
            let base = w.ledger.exec(shard, label, manifest.clone(), proofs.clone());
            let base_digest = digest(&base);
            let run_k = |w: &mut World, shard: &mut Shard, k: u64| {
                w.ledger.restore(&snap);
                let r = w.ledger.exec_injected(shard, label, manifest.clone(), proofs.clone(), k);
                shard.count("c02:fault_points_swept");
                r
            };
            // learn n = the largest k at which the injector fires
            let mut hi = 1u64;
            while hi < 1 << 16 && digest(&run_k(&mut w, shard, hi)) != base_digest {
                hi *= 2;
            }
            let mut lo = hi / 2; // fires at lo (or lo == 0), does not fire at hi
            while lo + 1 < hi {
                let mid = (lo + hi) / 2;
                if digest(&run_k(&mut w, shard, mid)) != base_digest {
                    lo = mid
                } else {
                    hi = mid
                }
            }
            let n = lo;
            shard.max("c02:max_injectable_steps", n);
            let ks: Vec<u64> = if n <= 300 {
                (1..=n).collect()
            } else {
                let mut v: Vec<u64> = (0..200).map(|j| 1 + j * (n - 1) / 199).collect();
                v.extend((0..50).map(|_| rng.range(1, n)));
                v.sort();
                v.dedup();
                v
            };
            for (j, k) in ks.iter().enumerate() {
                if shard.time_up() {
                    break;
                }
                let r = run_k(&mut w, shard, *k);
                if let Some(rc) = &r.receipt {
                    let cls = rv_ledger::outcome_class(rc);
                    let kind = cls.split(':').next().unwrap_or("").to_string();
                    shard.count(&format!("c02:injected_{}", kind.replace("commit-", "")));
                    shard.nontrivial(&(label, &cls, (*k * 16 / n.max(1))));
                    if kind == "commit-failure" && j % 40 == 7 {
                        rv_ledger::walkers::walk_all(shard, &w.ledger, &format!("after injected failure at step {k} of {label}"));
                        shard.count("c02:post_failure_walks");
                    }
                }
            }
            shard.sample(|| json!({"shard": i, "manifest_label": label, "injectable_steps": n, "points_swept": ks.len(), "baseline_outcome": base.receipt.as_ref().map(rv_ledger::outcome_class)}));
            // continue the history with the un-injected execution
            w.ledger.restore(&snap);
            w.ledger.exec(shard, label, manifest, proofs);
            shard.count("c02:manifests_swept");
            done += 1;
            // some background traffic between sweeps
            for _ in 0..5 {
                w.step(shard, rng);
            }
        }
        rv_ledger::walkers::walk_all(shard, &w.ledger, "end of C02 history");
    });
    report.finish()
}
