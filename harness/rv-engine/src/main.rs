use scrypto_test::prelude::*;
fn main() {
    let args = rv_common::parse_args();
    let mut ledger = LedgerSimulatorBuilder::new().build();
    let (_pk, _sk, account) = ledger.new_allocated_account();
    eprintln!("no check named {} (account {:?})", args.prop, account);
    std::process::exit(2);
}
