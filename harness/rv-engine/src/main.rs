//! Ledger-level checks that run the shared W-LEDGER workload with all global monitors armed.
//! Each property id selects the scenario mix that stresses its mechanism and the floors that
//! make a thin run inconclusive; a violation of any other property found on the way is reported
//! under that property's id and fails the run as well.
use rv_common::*;
use rv_ledger::actions::World;
use std::time::Duration;

mod c02;
mod c06;
mod c44;
mod c51;
mod mix;

fn main() {
    let args = parse_args();
    let code = match args.prop.as_str() {
        "C02" => c02::run(&args),
        "C06" => c06::run(&args),
        "C44" => c44::run(&args),
        "C51" => c51::run(&args),
        "C03" | "C04" | "C05" | "C11" | "C43" | "C49" => mix::run(&args),
        other => {
            eprintln!("rv-engine: no check named {other}");
            2
        }
    };
    std::process::exit(code);
}

#[allow(dead_code)]
fn unused(_: Duration, _: Option<World>) {}
