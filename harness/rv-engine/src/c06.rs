//! C06 workload: transactions under every kind of tip specifier, many accepted costing
//! parameter sets, several (contingent) fee locks, and lock-fee amounts bisected to the
//! reject/commit boundary. The fee equations themselves are checked by the global C06 monitor
//! (rv-ledger/src/monitors.rs) on every committed receipt; a panic inside the engine's own fee
//! assertions is caught by the pipeline and reported (C11: the engine must end in a receipt).
use rv_common::*;
use rv_ledger::actions::World;
use rv_ledger::prelude::*;
use serde_json::json;
use std::time::Duration;

fn with_costing(e: &ExecutableTransaction, tip: TipSpecifier) -> ExecutableTransaction {
    let intent = e.transaction_intent();
    ExecutableTransaction::new_v1(
        intent.encoded_instructions.clone(),
        intent.auth_zone_init.clone(),
        intent.references.clone(),
        intent.blobs.clone(),
        ExecutionContext {
            unique_hash: *e.unique_hash(),
            intent_hash_nullifications: vec![],
            epoch_range: None,
            payload_size: e.payload_size(),
            num_of_signature_validations: e.num_of_signature_validations(),
            costing_parameters: TransactionCostingParameters { tip, free_credit_in_xrd: Decimal::ZERO },
            pre_allocated_addresses: vec![],
            disable_limits_and_costing_modules: false,
            proposer_timestamp_range: None,
        },
    )
}

fn gen_tip(rng: &mut Rng) -> TipSpecifier {
    match rng.below(8) {
        0 => TipSpecifier::None,
        1 => TipSpecifier::Percentage(rng.below(101) as u16),
        2 => TipSpecifier::Percentage(*rng.pick(&[0u16, 1, 7, 33, 50, 99, 100, 1000, u16::MAX])),
        3 => TipSpecifier::Percentage(rng.u32() as u16),
        4 => TipSpecifier::BasisPoints(rng.below(10_001) as u32),
        5 => TipSpecifier::BasisPoints(*rng.pick(&[0u32, 1, 3, 7, 9999, 10_000, 333_333, 999_999, 1_000_000])),
        _ => TipSpecifier::BasisPoints(rng.below(1_000_001) as u32),
    }
}

fn gen_price(rng: &mut Rng, genesis: Decimal) -> Decimal {
    match rng.below(8) {
        0 | 1 => genesis,
        2 => Decimal::ZERO,
        3 => Decimal::from_attos(I192::from(*rng.pick(&[1u64, 3, 7, 999, 12345]))),
        4 => genesis.checked_add(Decimal::from_attos(I192::from(rng.below(1000) + 1))).unwrap(),
        5 => Decimal::from_attos(I192::from(rng.below(1_000_000_000_000) + 1)),
        6 => genesis.checked_mul(Decimal::from(rng.below(20) + 1)).unwrap(),
        _ => Decimal::from_attos(I192::from(rng.u64() >> rng.below(40))),
    }
}

fn gen_costing(rng: &mut Rng) -> CostingParameters {
    let g = CostingParameters::babylon_genesis();
    if rng.chance(1, 3) {
        return g;
    }
    CostingParameters {
        execution_cost_unit_price: gen_price(rng, g.execution_cost_unit_price),
        execution_cost_unit_limit: if rng.chance(1, 4) { rng.range(4_000_000, g.execution_cost_unit_limit as u64) as u32 } else { g.execution_cost_unit_limit },
        execution_cost_unit_loan: if rng.chance(1, 4) { rng.range(100_000, g.execution_cost_unit_loan as u64) as u32 } else { g.execution_cost_unit_loan },
        finalization_cost_unit_price: gen_price(rng, g.finalization_cost_unit_price),
        finalization_cost_unit_limit: if rng.chance(1, 4) { rng.range(2_000_000, g.finalization_cost_unit_limit as u64) as u32 } else { g.finalization_cost_unit_limit },
        usd_price: if rng.chance(1, 3) { gen_price(rng, g.usd_price) } else { g.usd_price },
        state_storage_price: if rng.chance(1, 3) { gen_price(rng, g.state_storage_price) } else { g.state_storage_price },
        archive_storage_price: if rng.chance(1, 3) { gen_price(rng, g.archive_storage_price) } else { g.archive_storage_price },
    }
}

fn cfg_with(costing: &CostingParameters) -> ExecutionConfig {
    let mut cfg = ExecutionConfig::for_test_transaction();
    cfg.system_overrides = Some(SystemOverrides { costing_parameters: Some(costing.clone()), ..cfg.system_overrides.unwrap_or_default() });
    cfg
}

pub fn run(args: &Args) -> i32 {
    let spec = Spec::new(
        "C06",
        "exploration",
        "transactions of the default mix re-packaged with generated tip specifiers (None / Percentage 0..=65535 / BasisPoints 0..=1_000_000) and generated costing-parameter overrides (genesis, zero, few-atto, 18-decimal, scaled prices; reduced loans and limits), 0-3 fee locks incl. contingent ones, plus lock-fee amounts bisected to the reject/commit boundary (boundary, ±1 atto, ±random offsets inside a 1e-9 XRD window); every committed receipt is checked against the fee equations; distinct = pipeline signatures plus distinct (tip kind, price class, lock pattern, outcome)",
    )
    .assume("fee equations are evaluated from the receipt's own numbers and from raw vault substates; cost-unit metering itself (how many units an operation costs) is not re-derived")
    .floor("c06:commits_checked", 500)
    .floor("c06:commits_with_tip", 100)
    .floor("c06:commits_with_several_paying_vaults", 20)
    .floor("c06:non_genesis_costing_commits", 100)
    .floor("c06:boundary_probes", 200)
    .floor("c06:boundary_commits", 20)
    .floor("c06:boundary_rejects", 20);
    let mut report = Report::new(args, spec);
    let txs_per_shard = scaled(args, args.tier.pick(2500, 40_000));
    let bisections_per_shard = scaled(args, args.tier.pick(40, 800));
    let budget = Duration::from_secs(budget_secs(args.tier, 75, 900));
    report.run_shards(6, args.threads, budget, |i, rng, shard| {
        let mut w = World::new(shard, rng, 4);
        w.ledger.walk_every = 400;
        for _ in 0..60 {
            w.step(shard, rng);
        }
        // Part 1: mixed transactions under generated tips and costing parameters
        let mut n = 0;
        while n < txs_per_shard && !shard.time_up() {
            n += 1;
            let Ok((label, manifest, proofs)) = w.gen_tx(shard, rng) else { continue };
            let tip = gen_tip(rng);
            let costing = gen_costing(rng);
            let nonce = w.ledger.sim.next_transaction_nonce();
            let Ok(exe) = manifest.clone().into_executable_with_proofs(nonce, proofs.iter().cloned().collect(), w.ledger.sim.transaction_validator()) else { continue };
            let exe = with_costing(&exe, tip);
            let desc = format!("tip={tip:?} costing={costing:?}\n{}", rv_ledger::describe_manifest(&manifest, &proofs));
            let non_genesis = costing != CostingParameters::babylon_genesis();
            let r = w.ledger.exec_executable(shard, label, exe, cfg_with(&costing), desc, false);
            if let Some(rc) = &r.receipt {
                let cls = rv_ledger::outcome_class(rc);
                let kind = cls.split(':').next().unwrap_or("").to_string();
                // the proportion the receipt says it applied must be the one the harness specified
                let expected_proportion = match tip {
                    TipSpecifier::None => Decimal::ZERO,
                    TipSpecifier::Percentage(p) => Decimal::from(p).checked_div(Decimal::from(100u32)).unwrap(),
                    TipSpecifier::BasisPoints(bp) => Decimal::from(bp).checked_div(Decimal::from(10_000u32)).unwrap(),
                };
                if rc.transaction_costing_parameters.tip_proportion != expected_proportion {
                    shard.violation("receipt-tip-proportion-differs-from-tip-specifier", json!({"tip": format!("{tip:?}"), "receipt_tip_proportion": rc.transaction_costing_parameters.tip_proportion.to_string(), "expected": expected_proportion.to_string()}));
                }
                if non_genesis && kind.starts_with("commit") {
                    shard.count("c06:non_genesis_costing_commits");
                }
                let tipk = match tip {
                    TipSpecifier::None => "none",
                    TipSpecifier::Percentage(_) => "percentage",
                    TipSpecifier::BasisPoints(_) => "basis_points",
                };
                shard.count(&format!("c06:tip_kind:{tipk}"));
                shard.nontrivial(&("c06", tipk, non_genesis, label, kind));
            }
        }
        // Part 2: lock-fee amounts bisected to the reject/commit boundary
        let mut b = 0;
        while b < bisections_per_shard && !shard.time_up() {
            b += 1;
            let a = w.actor(rng);
            let other = w.actor(rng);
            let tip = gen_tip(rng);
            let costing = {
                let mut c = gen_costing(rng);
                // keep prices positive so that a boundary exists
                if c.execution_cost_unit_price.is_zero() {
                    c.execution_cost_unit_price = Decimal::from_attos(I192::from(rng.below(1000) + 1));
                }
                c
            };
            let second_lock = rng.chance(1, 3);
            let snap = w.ledger.snapshot();
            let mut probe = |w: &mut World, shard: &mut Shard, amount: Decimal| -> Option<bool> {
                w.ledger.restore(&snap);
                let mut mb = ManifestBuilder::new().lock_fee(a.account, amount);
                if second_lock {
                    mb = mb.lock_contingent_fee(other.account, dec!(1));
                }
                let manifest = mb.withdraw_from_account(a.account, XRD, dec!(1)).try_deposit_entire_worktop_or_abort(other.account, None).build();
                let proofs = vec![a.proof(), other.proof()];
                let nonce = w.ledger.sim.next_transaction_nonce();
                let exe = manifest.clone().into_executable_with_proofs(nonce, proofs.iter().cloned().collect(), w.ledger.sim.transaction_validator()).ok()?;
                let exe = with_costing(&exe, tip);
                let desc = format!("BOUNDARY lock_fee={amount} tip={tip:?} costing={costing:?}\n{}", rv_ledger::describe_manifest(&manifest, &proofs));
                shard.count("c06:boundary_probes");
                let r = w.ledger.exec_executable(shard, "lock_fee_boundary", exe, cfg_with(&costing), desc, false);
                match &r.receipt {
                    Some(rc) => Some(matches!(rc.result, TransactionResult::Commit(_))),
                    None => None, // panicked (already reported)
                }
            };
            // bisect on attos in [0, 60 XRD]
            let mut lo = I192::from(0u64); // rejects
            let mut hi = dec!(60).attos(); // commits (if affordable at all)
            if probe(&mut w, shard, Decimal::from_attos(hi)) != Some(true) {
                w.ledger.restore(&snap);
                continue;
            }
            for _ in 0..70 {
                if hi - lo <= I192::from(1u64) {
                    break;
                }
                let mid = (lo + hi) / I192::from(2u64);
                match probe(&mut w, shard, Decimal::from_attos(mid)) {
                    Some(true) => hi = mid,
                    _ => lo = mid,
                }
            }
            // explore the window around the boundary
            let mut offsets: Vec<i64> = vec![-2, -1, 0, 1, 2];
            for _ in 0..12 {
                offsets.push(rng.irange(-1_000_000_000, 1_000_000_000));
                offsets.push(rng.irange(-5_000, 5_000));
            }
            for off in offsets {
                let amt = hi + I192::from(off as i128);
                if amt < I192::from(0u64) {
                    continue;
                }
                match probe(&mut w, shard, Decimal::from_attos(amt)) {
                    Some(true) => shard.count("c06:boundary_commits"),
                    Some(false) => shard.count("c06:boundary_rejects"),
                    None => shard.count("c06:boundary_panics"),
                }
            }
            shard.sample(|| json!({"shard": i, "boundary_lock_fee_xrd": Decimal::from_attos(hi).to_string(), "tip": format!("{tip:?}"), "execution_cost_unit_price": costing.execution_cost_unit_price.to_string()}));
            w.ledger.restore(&snap);
            shard.count("c06:bisections");
        }
        rv_ledger::walkers::walk_all(shard, &w.ledger, "end of C06 history");
    });
    report.finish()
}
