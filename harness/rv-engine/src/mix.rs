//! Default-mix runs: long mixed histories with periodic whole-database walks.
use rv_common::*;
use rv_ledger::actions::World;
use serde_json::json;
use std::time::Duration;

pub fn spec_for(prop: &str) -> Spec {
    let rule = "seeded ledger histories of mixed transactions (mint/burn/transfer/recall/freeze/NF mint+burn+data update/metadata/failing transactions/fee-lock variants/round+epoch changes) with adversarial amounts, every transaction observed by all global monitors; a transaction is non-trivial when it committed (success or failure); distinct = distinct (action label, outcome class, touched-entity-type set) signatures";
    let s = Spec::new(prop, "exploration", rule)
        .assume("oracles read raw substates through the SBOR substate types and the database key mapper of the repository (decoding layer trusted); sums/equations are computed in num-bigint")
        .assume("single architecture / same process; reach is the seeded workload only")
        .floor("tx:commit-success", 200)
        .floor("tx:commit-failure", 50);
    match prop {
        "C03" => s.floor("c03:transactions_checked", 300).floor("c03:flows_with_mint", 50).floor("c03:flows_with_burn", 50).floor("c03:nf_id_flows_checked", 30).floor("c03:supply_tracking_resources_checked", 50),
        "C04" => s.floor("c04:database_walks", 4).floor("c04:vault_event_replays_checked", 500).floor("c04:events_replayed", 1000),
        "C05" => s.floor("c05:database_walks", 4).floor("c05:substates_walked", 10_000).floor("c05:repo_checker_schema_validations_ok", 4),
        "C06" => s.floor("c06:commits_checked", 300).floor("c06:commits_with_several_paying_vaults", 20),
        "C02" => s.floor("c02:failures_checked", 50),
        "C43" => s.floor("c43:mints_observed", 100),
        "C44" => s.floor("c44:round_advances_observed", 20).floor("c44:epoch_changes_observed", 1),
        "C49" => s.floor("c49:commits_checked", 300).floor("hook:frames_entered", 1000),
        "C51" => s.floor("c51:substates_becoming_locked", 50),
        _ => s,
    }
}

pub fn run(args: &Args) -> i32 {
    let mut report = Report::new(args, spec_for(&args.prop));
    let histories_per_shard = args.tier.pick(3u64, 24);
    let steps = scaled(args, args.tier.pick(3000, 10_000));
    let budget = Duration::from_secs(budget_secs(args.tier, 60, 900));
    report.run_shards(1, args.threads, budget, |i, rng, shard| {
        for h in 0..histories_per_shard {
            if shard.time_up() {
                break;
            }
            let mut w = World::new(shard, rng, 4);
            w.ledger.walk_every = args.tier.pick(150, 400);
            let mut n = 0;
            while n < steps && !shard.time_up() {
                let label = w.step(shard, rng);
                n += 1;
                let _ = label;
            }
            rv_ledger::walkers::walk_all(shard, &w.ledger, &format!("end of history {h} of shard {i}"));
            shard.count("histories");
            shard.sample(|| json!({"shard": i, "history": h, "transactions": w.ledger.hist.executed, "committed": w.ledger.hist.committed}));
        }
    });
    report.finish()
}
