//! C51 workload: lock scripts. Metadata entries, owner roles (Updatable then locked, Fixed) on
//! accounts and resources are locked and then attacked in later transactions by every kind of
//! caller (owner key, other key, no key) with set / remove / lock / set-owner calls, interleaved
//! with background traffic. The global C51 monitor compares the bytes of every substate that was
//! ever seen locked; this module adds the explicit oracle "an update of a locked entry never
//! commits successfully".
use rv_common::*;
use rv_ledger::actions::{Actor, World};
use rv_ledger::prelude::*;
use serde_json::json;
use std::collections::BTreeSet;
use std::time::Duration;

#[derive(Clone, Debug, PartialEq, Eq, PartialOrd, Ord)]
enum Target {
    Account(usize),
    Resource(usize),
}

pub fn run(args: &Args) -> i32 {
    let spec = Spec::new(
        "C51",
        "exploration",
        "lock scripts over accounts (owner role updatable by the account key) and resources created with Updatable / Fixed / None owner roles: set+lock metadata entries, lock owner roles, then in later transactions set/remove/lock the same entries and set/lock owner roles again as owner, as another key and without key, interleaved with the default transaction mix; non-trivial = an attempt on a locked entry; distinct = distinct (target kind, operation, caller kind, outcome class)",
    )
    .assume("field / key-value locks taken by custom components (field_lock, key_value_entry_lock) and royalty locks are exercised by the component probe check, not here")
    .floor("c51:substates_becoming_locked", 100)
    .floor("c51:attempts_on_locked", 300)
    .floor("c51:locks_taken_by_script", 60);
    let mut report = Report::new(args, spec);
    let steps = scaled(args, args.tier.pick(6000, 80_000));
    let budget = Duration::from_secs(budget_secs(args.tier, 60, 900));
    report.run_shards(51, args.threads, budget, |i, rng, shard| {
        let mut w = World::new(shard, rng, 4);
        w.ledger.walk_every = 500;
        // resources with an owner role we control (the first actor's key)
        let owner: Actor = w.actors[0].clone();
        let owner_rule = rule!(require(owner.proof()));
        let mut resources: Vec<ResourceAddress> = vec![];
        for owner_role in [OwnerRole::Updatable(owner_rule.clone()), OwnerRole::Fixed(owner_rule.clone()), OwnerRole::Updatable(owner_rule.clone())] {
            let m = ManifestBuilder::new()
                .lock_fee_from_faucet()
                .create_fungible_resource(owner_role, true, 18, FungibleResourceRoles::default(), metadata!(init { "name" => "locked-name".to_string(), locked; "symbol" => "SYM".to_string(), updatable; }), Some(dec!(100)))
                .try_deposit_entire_worktop_or_abort(owner.account, None)
                .build();
            let r = w.ledger.exec(shard, "create_owned_resource", m, vec![]);
            if r.is_success() {
                resources.push(r.receipt().expect_commit(true).new_resource_addresses()[0]);
            }
        }
        let mut locked_meta: BTreeSet<(Target, String)> = BTreeSet::new();
        for r in 0..resources.len() {
            locked_meta.insert((Target::Resource(r), "name".into()));
        }
        let mut locked_owner: BTreeSet<Target> = BTreeSet::new();
        let mut n = 0;
        while n < steps && !shard.time_up() {
            n += 1;
            if rng.chance(1, 4) {
                w.step(shard, rng);
                continue;
            }
            let target = if rng.bool() || resources.is_empty() { Target::Account(rng.usize_below(w.actors.len())) } else { Target::Resource(rng.usize_below(resources.len())) };
            let (address, true_owner): (GlobalAddress, Actor) = match &target {
                Target::Account(a) => (w.actors[*a].account.into(), w.actors[*a].clone()),
                Target::Resource(r) => (resources[*r].into(), owner.clone()),
            };
            let (caller_kind, proofs): (&str, Vec<NonFungibleGlobalId>) = match rng.below(4) {
                0 | 1 => ("owner", vec![true_owner.proof()]),
                2 => {
                    let other = w.actors.iter().find(|a| a.pk != true_owner.pk).unwrap().clone();
                    ("other-key", vec![other.proof()])
                }
                _ => ("no-key", vec![]),
            };
            let key = format!("k{}", rng.below(3));
            let key = if rng.chance(1, 5) { "name".to_string() } else { key };
            let mb = ManifestBuilder::new().lock_fee_from_faucet();
            let (op, manifest, hits_locked_meta, hits_locked_owner) = match rng.below(7) {
                0 | 1 => ("set_metadata", mb.set_metadata(address, key.clone(), MetadataValue::String(format!("v{}", rng.below(1000)))).build(), locked_meta.contains(&(target.clone(), key.clone())), false),
                2 => ("lock_metadata", mb.lock_metadata(address, key.clone()).build(), false, false),
                3 => ("remove_metadata", mb.call_metadata_method(address, METADATA_REMOVE_IDENT, MetadataRemoveInput { key: key.clone() }).build(), locked_meta.contains(&(target.clone(), key.clone())), false),
                4 => ("set_owner_role", mb.set_owner_role(address, rule!(require(w.actors[rng.usize_below(w.actors.len())].proof()))).build(), false, locked_owner.contains(&target) || matches!(target, Target::Resource(1))),
                5 => ("lock_owner_role", mb.lock_owner_role(address).build(), false, false),
                _ => ("set_metadata_u64", mb.set_metadata(address, key.clone(), MetadataValue::U64(rng.u64())).build(), locked_meta.contains(&(target.clone(), key.clone())), false),
            };
            let r = w.ledger.exec(shard, op, manifest, proofs);
            let Some(rc) = &r.receipt else { continue };
            let cls = rv_ledger::outcome_class(rc);
            let success = rc.is_commit_success();
            if hits_locked_meta || hits_locked_owner {
                shard.count("c51:attempts_on_locked");
                shard.nontrivial(&(format!("{:?}", std::mem::discriminant(&target)), op, caller_kind, &cls));
                if success {
                    shard.violation(
                        if hits_locked_meta { "update-of-locked-metadata-entry-committed" } else { "update-of-locked-owner-role-committed" },
                        json!({"target": format!("{target:?}"), "address": format!("{address:?}"), "operation": op, "key": key, "caller": caller_kind, "outcome": cls}),
                    );
                }
            }
            if success {
                match op {
                    "lock_metadata" => {
                        if locked_meta.insert((target.clone(), key.clone())) {
                            shard.count("c51:locks_taken_by_script");
                        }
                    }
                    "lock_owner_role" => {
                        if locked_owner.insert(target.clone()) {
                            shard.count("c51:locks_taken_by_script");
                        }
                    }
                    _ => {}
                }
            }
        }
        rv_ledger::walkers::walk_all(shard, &w.ledger, "end of C51 history");
        shard.sample(|| json!({"shard": i, "locked_metadata_entries": locked_meta.len(), "locked_owner_roles": locked_owner.len()}));
    });
    report.finish()
}
