//! C44 workload: round-change system transactions with arbitrary rounds and timestamps
//! (smaller / equal / +1 / big jumps; decreasing / equal / increasing / extreme timestamps;
//! proposal histories with gaps) under several epoch-change conditions, interleaved with user
//! transactions that read and compare the current time at both precisions. Monotonicity of the
//! stored clock is checked by the global C44 monitor after every commit; this module adds the
//! "time comparisons made by components agree with the recorded clock" oracle.
use rv_common::*;
use rv_ledger::decode::consensus_clock;
use rv_ledger::prelude::*;
use rv_ledger::Ledger;
use serde_json::json;
use std::time::Duration;

fn genesis(rng: &mut Rng) -> BabylonSettings {
    let cond = match rng.below(4) {
        0 => EpochChangeCondition { min_round_count: 1, max_round_count: 1, target_duration_millis: 0 },
        1 => EpochChangeCondition { min_round_count: 2, max_round_count: 5, target_duration_millis: 1000 },
        2 => EpochChangeCondition { min_round_count: 1, max_round_count: 50, target_duration_millis: 120_000 },
        _ => EpochChangeCondition { min_round_count: 3, max_round_count: 3, target_duration_millis: 10 },
    };
    BabylonSettings::test_default().with_consensus_manager_config(ConsensusManagerConfig::test_default().with_epoch_change_condition(cond))
}

pub fn run(args: &Args) -> i32 {
    let spec = Spec::new(
        "C44",
        "exploration",
        "per shard several ledgers with different epoch-change conditions; sequences of next_round system transactions with round numbers {smaller, equal, +1, +2..+6, huge} and timestamps {decreasing, equal, +1 ms, +seconds, +minutes, i64 extremes} and leader histories with gaps, interleaved with get_current_time / compare_current_time calls (Minute and Second precision, all five operators, instants at the clock ± one unit); non-trivial = a committed round change or a time query; distinct = distinct (kind, round move class, time move class, outcome class)",
    )
    .assume("the stored clock is read from the consensus manager's State / ProposerMilliTimestamp / ProposerMinuteTimestamp substates")
    .floor("c44:round_advances_observed", 200)
    .floor("c44:epoch_changes_observed", 50)
    .floor("c44:time_advances_observed", 100)
    .floor("c44:time_queries_checked", 200)
    .floor("c44:rejected_or_failed_round_changes", 50);
    let mut report = Report::new(args, spec);
    let ledgers_per_shard = args.tier.pick(4u64, 40);
    let steps = scaled(args, args.tier.pick(3000, 12_000));
    let budget = Duration::from_secs(budget_secs(args.tier, 60, 900));
    report.run_shards(44, args.threads, budget, |i, rng, shard| {
        for l in 0..ledgers_per_shard {
            if shard.time_up() {
                break;
            }
            let mut ledger = Ledger::with_genesis(genesis(rng));
            let (pk, _sk, _account) = ledger.sim.new_allocated_account();
            let proof = NonFungibleGlobalId::from_public_key(&pk);
            let mut n = 0;
            while n < steps && !shard.time_up() {
                n += 1;
                let clock = consensus_clock(ledger.db()).expect("clock readable");
                if rng.chance(2, 3) {
                    // a round change
                    let (round, rcls) = match rng.below(10) {
                        0 => (clock.round.saturating_sub(rng.range(1, 3)), "smaller"),
                        1 => (clock.round, "equal"),
                        2..=6 => (clock.round + 1, "+1"),
                        7 | 8 => (clock.round + rng.range(2, 6), "+few"),
                        _ => (clock.round + rng.range(1000, 1 << 40), "huge"),
                    };
                    let (ts, tcls) = match rng.below(12) {
                        0 => (clock.milli - rng.range(1, 100_000) as i64, "decreasing"),
                        1 => (clock.milli, "equal"),
                        2 => (clock.milli + 1, "+1ms"),
                        3..=5 => (clock.milli + rng.range(2, 5_000) as i64, "+seconds"),
                        6..=8 => (clock.milli + rng.range(59_000, 200_000) as i64, "+minutes"),
                        9 => (i64::MAX - rng.below(3) as i64, "i64-max"),
                        10 => (i64::MIN + rng.below(3) as i64, "i64-min"),
                        _ => (clock.milli + rng.range(1, 3_600_000_000) as i64, "+long"),
                    };
                    let gaps: Vec<ValidatorIndex> = if round > clock.round + 1 && round - clock.round < 50 && rng.chance(3, 4) {
                        (0..(round - clock.round - 1)).map(|_| 0u8).collect()
                    } else if rng.chance(1, 10) {
                        vec![0u8; rng.range(0, 3) as usize]
                    } else {
                        vec![]
                    };
                    let r = ledger.next_round(shard, round, ts, gaps, 0);
                    if let Some(rc) = &r.receipt {
                        let cls = rv_ledger::outcome_class(rc);
                        if !rc.is_commit_success() {
                            shard.count("c44:rejected_or_failed_round_changes");
                        }
                        shard.nontrivial(&("round", rcls, tcls, &cls));
                        shard.seen("c44:round_change_outcomes", &cls);
                    }
                } else {
                    // time queries by a "component" (here: the transaction processor calling the consensus manager)
                    let second = rng.bool();
                    let precision = if second { TimePrecision::Second } else { TimePrecision::Minute };
                    let unit_s: i64 = if second { 1 } else { 60 };
                    let now_s = if second { clock.milli.div_euclid(1000) } else { (clock.minute as i64) * 60 };
                    let probe = Instant::new(now_s + rng.irange(-2, 2) * unit_s + if rng.chance(1, 4) { rng.irange(-59, 59) } else { 0 });
                    let op = *rng.pick(&[TimeComparisonOperator::Eq, TimeComparisonOperator::Lt, TimeComparisonOperator::Lte, TimeComparisonOperator::Gt, TimeComparisonOperator::Gte]);
                    let m = ManifestBuilder::new()
                        .lock_fee_from_faucet()
                        .call_method(CONSENSUS_MANAGER, CONSENSUS_MANAGER_GET_CURRENT_TIME_IDENT, ConsensusManagerGetCurrentTimeInputV2 { precision })
                        .call_method(CONSENSUS_MANAGER, CONSENSUS_MANAGER_COMPARE_CURRENT_TIME_IDENT, ConsensusManagerCompareCurrentTimeInputV2 { instant: probe, precision, operator: op })
                        .build();
                    let r = ledger.exec(shard, "time_query", m, vec![proof.clone()]);
                    if let Some(rc) = &r.receipt {
                        if rc.is_commit_success() {
                            let commit = rc.expect_commit_success();
                            let got_now: Instant = commit.output(1);
                            let got_cmp: bool = commit.output(2);
                            shard.count("c44:time_queries_checked");
                            // the time a component sees = the recorded clock rounded down to the precision
                            if got_now.seconds_since_unix_epoch != now_s {
                                shard.violation("get_current_time-disagrees-with-recorded-clock", json!({"precision": format!("{precision:?}"), "recorded_clock": format!("{clock:?}"), "expected_seconds": now_s, "got_seconds": got_now.seconds_since_unix_epoch}));
                            }
                            // compare_current_time(instant, precision, op) == (now rounded to precision) op (instant rounded to precision)
                            let probe_rounded = if second { probe.seconds_since_unix_epoch } else { probe.seconds_since_unix_epoch.div_euclid(60) * 60 };
                            let exp = match op {
                                TimeComparisonOperator::Eq => now_s == probe_rounded,
                                TimeComparisonOperator::Lt => now_s < probe_rounded,
                                TimeComparisonOperator::Lte => now_s <= probe_rounded,
                                TimeComparisonOperator::Gt => now_s > probe_rounded,
                                TimeComparisonOperator::Gte => now_s >= probe_rounded,
                            };
                            // Documented contract (scrypto/src/runtime/clock.rs): the instant is "also rounded
                            // down". For instants before 1970 that are not whole minutes the engine divides
                            // toward zero instead; that one class gets its own signature (known finding).
                            let cmp = |a: i64, b: i64| match op {
                                TimeComparisonOperator::Eq => a == b,
                                TimeComparisonOperator::Lt => a < b,
                                TimeComparisonOperator::Lte => a <= b,
                                TimeComparisonOperator::Gt => a > b,
                                TimeComparisonOperator::Gte => a >= b,
                            };
                            let toward_zero = probe.seconds_since_unix_epoch / 60 * 60;
                            if got_cmp != exp && !second && probe.seconds_since_unix_epoch < 0 && probe.seconds_since_unix_epoch % 60 != 0 && got_cmp == cmp(now_s, toward_zero) {
                                shard.count("c44:pre_1970_minute_probes_rounded_toward_zero");
                                shard.violation("compare_current_time:minute-precision:pre-1970-instant-rounded-toward-zero-instead-of-down", json!({"precision": "Minute", "operator": format!("{op:?}"), "instant": probe.seconds_since_unix_epoch, "recorded_clock": format!("{clock:?}"), "expected_with_round_down": exp, "got": got_cmp}));
                            } else if got_cmp != exp {
                                shard.violation("compare_current_time-disagrees-with-recorded-clock",json!({"precision": format!("{precision:?}"), "operator": format!("{op:?}"), "instant": probe.seconds_since_unix_epoch, "recorded_clock": format!("{clock:?}"), "expected": exp, "got": got_cmp}));
                            }
                            shard.nontrivial(&("time_query", second, format!("{op:?}"), exp));
                        }
                    }
                }
            }
            shard.count("histories");
            shard.sample(|| json!({"shard": i, "ledger": l, "final_clock": format!("{:?}", consensus_clock(ledger.db()))}));
        }
    });
    report.finish()
}
